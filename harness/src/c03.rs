//! C03 — admission is the canonical greedy independent set with exact blocking witnesses.
//! Real code (through hook `echo_verif::sched_raw`): `RadixScheduler`/`LegacyScheduler`
//! `enqueue`/`drain_for_tx`/`reserve`, `Engine::reserve_for_receipt`, `footprints_conflict`,
//! `TickReceipt::try_from_retained_parts`.
use crate::prng::Rng;
use crate::util::{hex, Toks};
use crate::{OracleOut, Stream, Tier};
use std::collections::{BTreeMap, BTreeSet};
use warp_core::echo_verif::sched_raw::{receipt_conflict, reserve_for_receipt, RawCandidate, RawScheduler};
use warp_core::{
    AttachmentKey, AttachmentOwner, AttachmentPlane, EdgeId, EdgeKey, Footprint, NodeId, NodeKey,
    SchedulerKind, TickReceipt, TxId, WarpId,
};

pub fn streams() -> Vec<Stream> {
    vec![
        Stream { name: "C03.sort", gen: gen_sort, imp: imp_sort, oracle: oracle_sort },
        Stream { name: "C03.reserve", gen: gen_reserve, imp: imp_reserve, oracle: oracle_reserve },
        Stream { name: "C03.multi", gen: gen_multi, imp: imp_multi, oracle: oracle_multi },
    ]
}

// ------------------------------------------------------------------ parsed form (no warp-core types)

/// Footprint exactly as written on the line: eight id lists. Keys are plain tuples so the
/// oracle's reference conflict rule shares no code with the implementation.
#[derive(Clone, Default, Debug)]
struct PFoot {
    n_read: Vec<(u64, u64)>,
    n_write: Vec<(u64, u64)>,
    e_read: Vec<(u64, u64)>,
    e_write: Vec<(u64, u64)>,
    a_read: Vec<(u64, u64, u64, u64)>,
    a_write: Vec<(u64, u64, u64, u64)>,
    b_in: Vec<(u64, u64)>,
    b_out: Vec<(u64, u64)>,
    mask: u64,
}

#[derive(Clone, Debug)]
struct PCand {
    scope: [u8; 32],
    rule_id: [u8; 32],
    compact: u32,
    fp: PFoot,
}

fn kind_of(s: &str) -> Result<SchedulerKind, String> {
    match s {
        "radix" => Ok(SchedulerKind::Radix),
        "legacy" => Ok(SchedulerKind::Legacy),
        k => Err(format!("bad kind {k}")),
    }
}

fn pairs(t: &mut Toks) -> Result<Vec<(u64, u64)>, String> {
    let n = t.num()?;
    let mut v = Vec::new();
    for _ in 0..n {
        v.push((t.num()?, t.num()?));
    }
    Ok(v)
}

fn quads(t: &mut Toks) -> Result<Vec<(u64, u64, u64, u64)>, String> {
    let n = t.num()?;
    let mut v = Vec::new();
    for _ in 0..n {
        v.push((t.num()?, t.num()?, t.num()?, t.num()?));
    }
    Ok(v)
}

fn parse_fp(t: &mut Toks, mask: u64) -> Result<PFoot, String> {
    Ok(PFoot {
        n_read: pairs(t)?,
        n_write: pairs(t)?,
        e_read: pairs(t)?,
        e_write: pairs(t)?,
        a_read: quads(t)?,
        a_write: quads(t)?,
        b_in: pairs(t)?,
        b_out: pairs(t)?,
        mask,
    })
}

fn parse_case(t: &mut Toks, with_fp: bool) -> Result<(SchedulerKind, Vec<PCand>), String> {
    let kind = kind_of(t.next()?)?;
    let n = t.num()?;
    let mut cs = Vec::new();
    for _ in 0..n {
        let scope = t.id()?;
        let rule_id = t.id()?;
        let compact = u32::try_from(t.num()?).map_err(|_| "compact rule exceeds u32".to_string())?;
        let fp = if with_fp {
            let mask = t.num()?;
            parse_fp(t, mask)?
        } else {
            PFoot::default()
        };
        cs.push(PCand { scope, rule_id, compact, fp });
    }
    if !t.done() {
        return Err("trailing tokens".into());
    }
    Ok((kind, cs))
}

// ------------------------------------------------------------------ to the real types

fn id_of(n: u64) -> [u8; 32] {
    let mut b = [0u8; 32];
    b[24..32].copy_from_slice(&n.to_be_bytes());
    b
}

fn node_key(w: u64, i: u64) -> NodeKey {
    NodeKey { warp_id: WarpId(id_of(w)), local_id: NodeId(id_of(i)) }
}

fn edge_key(w: u64, i: u64) -> EdgeKey {
    EdgeKey { warp_id: WarpId(id_of(w)), local_id: EdgeId(id_of(i)) }
}

fn att_key(q: (u64, u64, u64, u64)) -> AttachmentKey {
    let owner = if q.0 != 0 { AttachmentOwner::Edge(edge_key(q.1, q.2)) } else { AttachmentOwner::Node(node_key(q.1, q.2)) };
    let plane = if q.3 != 0 { AttachmentPlane::Beta } else { AttachmentPlane::Alpha };
    AttachmentKey { owner, plane }
}

fn real_fp(p: &PFoot) -> Footprint {
    let mut f = Footprint { factor_mask: p.mask, ..Footprint::default() };
    for &(w, i) in &p.n_read {
        f.n_read.insert(node_key(w, i));
    }
    for &(w, i) in &p.n_write {
        f.n_write.insert(node_key(w, i));
    }
    for &(w, i) in &p.e_read {
        f.e_read.insert(edge_key(w, i));
    }
    for &(w, i) in &p.e_write {
        f.e_write.insert(edge_key(w, i));
    }
    for &q in &p.a_read {
        f.a_read.insert(att_key(q));
    }
    for &q in &p.a_write {
        f.a_write.insert(att_key(q));
    }
    for &(w, k) in &p.b_in {
        f.b_in.insert(WarpId(id_of(w)), k);
    }
    for &(w, k) in &p.b_out {
        f.b_out.insert(WarpId(id_of(w)), k);
    }
    f
}

fn raw_of(cs: &[PCand]) -> Vec<RawCandidate> {
    cs.iter()
        .enumerate()
        .map(|(i, c)| RawCandidate {
            scope_hash: c.scope,
            rule_id: c.rule_id,
            compact_rule: c.compact,
            footprint: real_fp(&c.fp),
            tag: i as u64,
        })
        .collect()
}

/// Real enqueue (arrival order) + `drain_for_tx`. `None` = the real code panicked.
fn real_drain(kind: SchedulerKind, cs: &[PCand]) -> Option<Vec<RawCandidate>> {
    let raws = raw_of(cs);
    std::panic::catch_unwind(std::panic::AssertUnwindSafe(move || {
        let mut s = RawScheduler::new(kind, 7);
        for r in raws {
            s.enqueue(r);
        }
        s.drain()
    }))
    .ok()
}

fn tags_str(d: &[RawCandidate]) -> String {
    let mut s = format!("{}", d.len());
    for c in d {
        s.push_str(&format!(" {}", c.tag));
    }
    s
}

// ------------------------------------------------------------------ impl

fn imp_sort(t: &mut Toks) -> Result<String, String> {
    let (kind, cs) = parse_case(t, false)?;
    Ok(match real_drain(kind, &cs) {
        None => "panic".into(),
        Some(d) => tags_str(&d),
    })
}

fn rows_str(rows: &[(bool, Vec<u32>)]) -> String {
    let mut s = String::new();
    for (a, bl) in rows {
        if *a {
            s.push_str(" A");
        } else {
            let b: Vec<String> = bl.iter().map(|x| x.to_string()).collect();
            s.push_str(&format!(" R:{}", b.join(",")));
        }
    }
    s
}

fn imp_reserve(t: &mut Toks) -> Result<String, String> {
    let (kind, cs) = parse_case(t, true)?;
    let Some(d) = real_drain(kind, &cs) else { return Ok("panic".into()) };
    let mut s = RawScheduler::new(kind, 9);
    let raw = s.reserve_all(&d);
    let raw_s: String = raw.iter().map(|b| if *b { 'A' } else { 'R' }).collect();
    let rec = match reserve_for_receipt(kind, d.clone()) {
        Ok((rows, _, _)) => rows_str(&rows),
        Err(e) => format!(" err:{}", e.split('(').next().unwrap_or("other")),
    };
    Ok(format!(
        "drain {} ; raw {} ; receipt{}",
        tags_str(&d),
        if raw_s.is_empty() { "-".to_string() } else { raw_s },
        rec
    ))
}

// ------------------------------------------------------------------ oracle: reference semantics

/// Last-wins dedupe on `(scope, second key)` then ascending byte order: indices into `cs`.
fn ref_order(kind: SchedulerKind, cs: &[PCand]) -> Vec<usize> {
    let mut last: BTreeMap<([u8; 32], [u8; 32]), usize> = BTreeMap::new();
    for (i, c) in cs.iter().enumerate() {
        let k2 = match kind {
            SchedulerKind::Radix => {
                let mut b = [0u8; 32];
                b[28..32].copy_from_slice(&c.compact.to_be_bytes());
                b
            }
            SchedulerKind::Legacy => c.rule_id,
        };
        last.insert((c.scope, k2), i);
    }
    // BTreeMap iteration = ascending byte-lexicographic (scope, key2)
    last.values().copied().collect()
}

fn meets<T: Ord + Copy>(a: &[T], b: &[T]) -> bool {
    let s: BTreeSet<T> = a.iter().copied().collect();
    b.iter().any(|x| s.contains(x))
}

/// The conflict rule of the property statement, written directly on the line's id lists.
fn ref_conflict(a: &PFoot, b: &PFoot) -> bool {
    let rw = |aw: &[(u64, u64)], ar: &[(u64, u64)], bw: &[(u64, u64)], br: &[(u64, u64)]| {
        meets(aw, bw) || meets(aw, br) || meets(bw, ar)
    };
    let a_ports: Vec<(u64, u64)> = a.b_in.iter().chain(a.b_out.iter()).copied().collect();
    let b_ports: Vec<(u64, u64)> = b.b_in.iter().chain(b.b_out.iter()).copied().collect();
    rw(&a.n_write, &a.n_read, &b.n_write, &b.n_read)
        || rw(&a.e_write, &a.e_read, &b.e_write, &b.e_read)
        || meets(&a.a_write, &b.a_write)
        || meets(&a.a_write, &b.a_read)
        || meets(&b.a_write, &a.a_read)
        || meets(&a_ports, &b_ports)
}

/// Greedy independent set over `order`; returns per position (accepted, blockers = positions of the
/// earlier accepted candidates it conflicts with). `use_mask`: the legacy prefilter.
fn ref_greedy(cs: &[PCand], order: &[usize], use_mask: bool) -> Vec<(bool, Vec<u32>)> {
    let mut accepted: Vec<usize> = Vec::new(); // positions
    let mut out = Vec::new();
    for (pos, &ci) in order.iter().enumerate() {
        let c = &cs[ci].fp;
        let mut all: Vec<u32> = Vec::new();
        let mut deciding = false;
        for &ap in &accepted {
            let a = &cs[order[ap]].fp;
            if ref_conflict(c, a) {
                all.push(ap as u32);
                if !use_mask || (c.mask & a.mask) != 0 {
                    deciding = true;
                }
            }
        }
        if deciding {
            out.push((false, all));
        } else {
            accepted.push(pos);
            out.push((true, Vec::new()));
        }
    }
    out
}

fn masks_sound(cs: &[PCand], order: &[usize]) -> bool {
    for i in 0..order.len() {
        for j in 0..i {
            let (a, b) = (&cs[order[i]].fp, &cs[order[j]].fp);
            if ref_conflict(a, b) && (a.mask & b.mask) == 0 {
                return false;
            }
        }
    }
    true
}

fn key2(kind: SchedulerKind, c: &RawCandidate) -> Vec<u8> {
    match kind {
        SchedulerKind::Radix => c.compact_rule.to_be_bytes().to_vec(),
        SchedulerKind::Legacy => c.rule_id.to_vec(),
    }
}

/// Checks the drained order of one scheduler kind against the property. Returns the drained list.
fn check_drain(kind: SchedulerKind, cs: &[PCand], o: &mut OracleOut) -> Option<Vec<RawCandidate>> {
    let kn = if matches!(kind, SchedulerKind::Radix) { "radix" } else { "legacy" };
    let Some(d) = real_drain(kind, cs) else {
        o.fails.push((format!("C03.sort.panic.{kn}"), "enqueue/drain panicked".into()));
        return None;
    };
    for w in d.windows(2) {
        let ka = (w[0].scope_hash.to_vec(), key2(kind, &w[0]));
        let kb = (w[1].scope_hash.to_vec(), key2(kind, &w[1]));
        if ka >= kb {
            o.fails.push((
                format!("C03.sort.not-ascending.{kn}"),
                format!("drained order not strictly ascending in (scope bytes, rule) at tags {} {} (n={})", w[0].tag, w[1].tag, d.len()),
            ));
            break;
        }
    }
    let expect = ref_order(kind, cs);
    let got: Vec<usize> = d.iter().map(|c| c.tag as usize).collect();
    let mut gs = got.clone();
    gs.sort_unstable();
    let mut es = expect.clone();
    es.sort_unstable();
    if gs != es {
        o.fails.push((
            format!("C03.sort.not-permutation.{kn}"),
            format!("drained payloads are not the last-wins deduped input ({} vs {} entries)", got.len(), expect.len()),
        ));
    } else if got != expect {
        o.fails.push((format!("C03.sort.order.{kn}"), "drained order differs from ascending byte order of the deduped input".into()));
    }
    for c in &d {
        let src = &cs[c.tag as usize];
        if src.scope != c.scope_hash || src.rule_id != c.rule_id || src.compact != c.compact_rule {
            o.fails.push((format!("C03.sort.payload.{kn}"), "drained payload does not carry its own key".into()));
            break;
        }
    }
    Some(d)
}

/// compact rule and rule id induce the same order and the same equalities (as in the engine,
/// where both identify the rule).
fn keys_consistent(cs: &[PCand]) -> bool {
    let mut m: BTreeMap<u32, [u8; 32]> = BTreeMap::new();
    for c in cs {
        if let Some(r) = m.insert(c.compact, c.rule_id) {
            if r != c.rule_id {
                return false;
            }
        }
    }
    let v: Vec<&[u8; 32]> = m.values().collect();
    v.windows(2).all(|w| w[0] < w[1])
}

fn shared_prefix(cs: &[PCand]) -> usize {
    let mut best = 0;
    let mut ks: Vec<&[u8; 32]> = cs.iter().map(|c| &c.scope).collect();
    ks.sort();
    for w in ks.windows(2) {
        if w[0] != w[1] {
            let p = w[0].iter().zip(w[1].iter()).take_while(|(a, b)| a == b).count();
            best = best.max(p);
        }
    }
    best
}

fn oracle_sort(t: &mut Toks, _tier: Tier) -> Result<OracleOut, String> {
    let (kind, cs) = parse_case(t, false)?;
    let mut o = OracleOut::default();
    let d = check_drain(kind, &cs, &mut o);
    let other = if matches!(kind, SchedulerKind::Radix) { SchedulerKind::Legacy } else { SchedulerKind::Radix };
    let consistent = keys_consistent(&cs);
    if consistent {
        let d2 = check_drain(other, &cs, &mut o);
        if let (Some(a), Some(b)) = (&d, &d2) {
            if a.iter().map(|c| c.tag).ne(b.iter().map(|c| c.tag)) {
                o.fails.push(("C03.sort.kinds-disagree".into(), "radix and legacy drain different orders on consistent keys".into()));
            }
        }
    }
    let n = d.as_ref().map_or(0, Vec::len);
    o.tags.push(format!("kind:{}", if matches!(kind, SchedulerKind::Radix) { "radix" } else { "legacy" }));
    o.tags.push(
        match n {
            0 => "n=0",
            1 => "n=1",
            2..=16 => "n=2..16",
            17..=1023 => "n=17..1023",
            1024 => "n=1024",
            1025 => "n=1025",
            _ => "n>1025",
        }
        .into(),
    );
    if cs.len() > n {
        o.tags.push("has-duplicates".into());
    }
    let sp = shared_prefix(&cs);
    if sp >= 30 {
        o.tags.push("prefix>=30".into());
    }
    if consistent {
        o.tags.push("keys-consistent".into());
    }
    o.nontrivial = n > 1024 || sp >= 30 || (n >= 2 && cs.len() > n);
    Ok(o)
}

fn oracle_reserve(t: &mut Toks, _tier: Tier) -> Result<OracleOut, String> {
    let (kind, cs) = parse_case(t, true)?;
    let mut o = OracleOut::default();
    let consistent = keys_consistent(&cs);
    let mut rejections = 0usize;
    let mut results: Vec<(SchedulerKind, Vec<u64>, Vec<bool>)> = Vec::new();
    let other = if matches!(kind, SchedulerKind::Radix) { SchedulerKind::Legacy } else { SchedulerKind::Radix };
    for k in [kind, other] {
        let legacy = matches!(k, SchedulerKind::Legacy);
        let kn = if legacy { "legacy" } else { "radix" };
        let Some(d) = check_drain(k, &cs, &mut o) else { continue };
        let order: Vec<usize> = d.iter().map(|c| c.tag as usize).collect();
        let sound = masks_sound(&cs, &order);
        // reference decisions: the greedy independent set (legacy: with its mask prefilter)
        let want = ref_greedy(&cs, &order, legacy);
        let pure = ref_greedy(&cs, &order, false);
        let mut s = RawScheduler::new(k, 11);
        let raw = s.reserve_all(&d);
        let want_bits: Vec<bool> = want.iter().map(|r| r.0).collect();
        let pure_bits: Vec<bool> = pure.iter().map(|r| r.0).collect();
        if !legacy || sound {
            if raw != pure_bits {
                let pos = raw.iter().zip(&pure_bits).position(|(a, b)| a != b).unwrap_or(0);
                let what = if raw[pos] {
                    "accepted a candidate that conflicts with an earlier accepted one"
                } else if pure[pos].1.is_empty() {
                    "rejected a candidate that conflicts with no earlier accepted one"
                } else {
                    "decision differs from the greedy independent set"
                };
                o.fails.push((format!("C03.reserve.not-greedy.{kn}"), format!("{what} (position {pos} of {})", raw.len())));
            }
        } else if raw != want_bits {
            o.fails.push((format!("C03.reserve.legacy-mask-rule"), "legacy decisions differ from greedy-with-mask-prefilter".into()));
        }
        // receipts through the real engine loop
        match reserve_for_receipt(k, d.clone()) {
            Err(e) => {
                o.fails.push((format!("C03.receipt.engine-error.{kn}"), format!("reserve_for_receipt failed: {e}")));
            }
            Ok((rows, entries, reserved_tags)) => {
                let bits: Vec<bool> = rows.iter().map(|r| r.0).collect();
                if bits != raw {
                    o.fails.push((format!("C03.receipt.dispositions.{kn}"), "receipt dispositions differ from scheduler decisions".into()));
                }
                // blockers: exactly the earlier accepted candidates it conflicts with
                let mut acc: Vec<usize> = Vec::new();
                for (pos, (applied, bl)) in rows.iter().enumerate() {
                    if *applied {
                        if !bl.is_empty() {
                            o.fails.push((format!("C03.receipt.applied-has-blockers.{kn}"), format!("entry {pos}")));
                        }
                        acc.push(pos);
                    } else {
                        let exact: Vec<u32> = acc
                            .iter()
                            .filter(|&&a| ref_conflict(&cs[order[pos]].fp, &cs[order[a]].fp))
                            .map(|&a| a as u32)
                            .collect();
                        if *bl != exact {
                            let key = if bl.is_empty() { "missing" } else if bl.len() < exact.len() { "incomplete" } else { "wrong" };
                            o.fails.push((
                                format!("C03.receipt.blockers-{key}.{kn}"),
                                format!("entry {pos}: blocked_by {bl:?}, conflicting earlier accepted {exact:?}"),
                            ));
                        }
                        rejections += 1;
                    }
                }
                let want_reserved: Vec<u64> = acc.iter().map(|&p| d[p].tag).collect();
                if reserved_tags != want_reserved {
                    o.fails.push((format!("C03.receipt.reserved-list.{kn}"), "reserved rewrites are not the applied entries in order".into()));
                }
                let bb: Vec<Vec<u32>> = rows.iter().map(|r| r.1.clone()).collect();
                if let Err(e) = TickReceipt::try_from_retained_parts(TxId::from_raw(1), entries, bb) {
                    o.fails.push((format!("C03.receipt.invariant.{kn}"), format!("try_from_retained_parts rejects the built receipt: {e}")));
                }
            }
        }
        if legacy && !sound {
            o.tags.push("masks-unsound".into());
            if raw != pure_bits {
                o.tags.push("legacy-diverges-from-greedy".into());
            }
        }
        results.push((k, d.iter().map(|c| c.tag).collect(), raw));
    }
    // both kinds agree when masks are sound (and the keys identify the rule consistently)
    if results.len() == 2 && consistent {
        let order: Vec<usize> = results[0].1.iter().map(|&t| t as usize).collect();
        if masks_sound(&cs, &order) && (results[0].1 != results[1].1 || results[0].2 != results[1].2) {
            o.fails.push(("C03.reserve.kinds-disagree".into(), "radix and legacy decide differently although masks are sound".into()));
        }
    }
    // the receipt-side predicate itself: symmetric and equal to the stated rule on every pair
    let limit = cs.len().min(40);
    'outer: for i in 0..limit {
        for j in 0..limit {
            let (a, b) = (real_fp(&cs[i].fp), real_fp(&cs[j].fp));
            let r = receipt_conflict(&a, &b);
            if r != ref_conflict(&cs[i].fp, &cs[j].fp) {
                o.fails.push(("C03.predicate.footprints-conflict".into(), format!("footprints_conflict disagrees with the stated rule on candidates {i},{j}")));
                break 'outer;
            }
            let ind = a.independent(&b);
            let want = (a.factor_mask & b.factor_mask) == 0 || !r;
            if ind != want {
                o.fails.push(("C03.predicate.independent".into(), format!("Footprint::independent disagrees with mask-or-no-conflict on candidates {i},{j}")));
                break 'outer;
            }
        }
    }
    o.tags.push(format!("kind:{}", if matches!(kind, SchedulerKind::Radix) { "radix" } else { "legacy" }));
    o.tags.push(match cs.len() { 0..=1 => "cands<=1", 2 => "cands=2", 3 => "cands=3", 4..=50 => "cands=4..50", _ => "cands>50" }.into());
    if rejections > 0 {
        o.tags.push("has-rejection".into());
    }
    o.nontrivial = rejections > 0 || cs.len() > 1024;
    Ok(o)
}

// ------------------------------------------------------------------ generators

fn rule_hash(compact: u32) -> [u8; 32] {
    // order-isomorphic image of the compact id (big-endian in the leading bytes)
    let mut b = [0x11u8; 32];
    b[0..4].copy_from_slice(&compact.to_be_bytes());
    b
}

const RULES: [u32; 10] = [0, 1, 2, 0xFFFF, 0x1_0000, 0x1_0001, 0x00FF_0100, 0x7FFF_FFFF, 0x8000_0000, 0xFFFF_FFFF];

/// One adversarial key family per batch (plus mixing): returns (scope, compact).
fn gen_key(rng: &mut Rng, family: u64, base: &[u8; 32], pair: usize) -> ([u8; 32], u32) {
    let mut s = *base;
    let edge = [0u8, 1, 2, 0x7f, 0x80, 0xfe, 0xff];
    match family {
        0 => {
            // shared 30-byte prefix; only the last byte pair differs
            if rng.chance(1, 2) {
                s[30] = *rng.pick(&edge);
                s[31] = *rng.pick(&edge);
            } else {
                s[30] = rng.next() as u8;
                s[31] = rng.next() as u8;
            }
            (s, *rng.pick(&RULES[0..2]))
        }
        1 => {
            // exactly one byte pair varies (position chosen per batch): isolates one scope pass;
            // edge values order differently under big- and little-endian readings
            if rng.chance(1, 3) {
                s[2 * pair] = *rng.pick(&edge);
                s[2 * pair + 1] = *rng.pick(&edge);
            } else {
                s[2 * pair] = rng.next() as u8;
                s[2 * pair + 1] = rng.next() as u8;
            }
            (s, 7)
        }
        2 => {
            // same scope (or two scopes), rule ids differing only in the low / high half
            if rng.chance(1, 4) {
                s[31] ^= 1;
            }
            let r = match rng.below(4) {
                0 => *rng.pick(&RULES),
                1 => (rng.next() as u32) & 0xFFFF,
                2 => (rng.next() as u32) << 16,
                _ => ((rng.below(3) as u32) << 16) | (rng.below(3) as u32) << 8 | rng.below(3) as u32,
            };
            (s, r)
        }
        3 => {
            // two adjacent pairs vary: catches swapped pass order
            let p = pair.min(14);
            s[2 * p] = rng.below(2) as u8;
            s[2 * p + 1] = rng.below(40) as u8;
            s[2 * p + 2] = rng.below(2) as u8;
            s[2 * p + 3] = rng.below(40) as u8;
            (s, rng.below(2) as u32)
        }
        4 => {
            // full random
            let v = rng.bytes(32);
            s.copy_from_slice(&v);
            (s, rng.next() as u32)
        }
        _ => {
            // tiny universe: heavy duplication (last-wins refresh)
            s[31] = rng.below(4) as u8;
            s[0] = rng.below(2) as u8;
            (s, rng.below(3) as u32)
        }
    }
}

/// `m` distinct keys (as far as the family allows) + `dups` refreshed duplicates, arrival shuffled.
fn sort_line(rng: &mut Rng, kind: &str, m: usize, dups: usize, family: u64, inconsistent: bool) -> String {
    let mut base = [0u8; 32];
    if rng.chance(1, 2) {
        let v = rng.bytes(32);
        base.copy_from_slice(&v);
    }
    let pair = rng.below(16) as usize;
    let mut set: BTreeSet<([u8; 32], u32)> = BTreeSet::new();
    let mut keys: Vec<([u8; 32], u32)> = Vec::new();
    let mut attempts = 0;
    while keys.len() < m && attempts < 20 * m + 100 {
        attempts += 1;
        let fam = if family == 9 { rng.below(5) } else { family };
        let k = gen_key(rng, fam, &base, pair);
        if set.insert(k) {
            keys.push(k);
        }
    }
    let mut arrival = keys.clone();
    for _ in 0..dups {
        if !keys.is_empty() {
            // a few hot keys are refreshed many times
            let k = if rng.chance(1, 2) { keys[rng.below(keys.len().min(4) as u64) as usize] } else { *rng.pick(&keys) };
            arrival.push(k);
        }
    }
    rng.shuffle(&mut arrival);
    let mut line = format!("{kind} {}", arrival.len());
    for (s, r) in arrival {
        let rid = if inconsistent { id_of(rng.below(3)) } else { rule_hash(r) };
        line.push_str(&format!(" {} {} {}", hex(&s), hex(&rid), r));
    }
    line
}

fn gen_sort(rng: &mut Rng, tier: Tier) -> Vec<String> {
    let thorough = tier == Tier::Thorough;
    let mut out = Vec::new();
    let kinds = ["radix", "legacy"];
    // boundary and small sizes, every family, both kinds
    for &n in &[0usize, 1, 2, 3] {
        for fam in 0..6u64 {
            out.push(sort_line(rng, kinds[(n + fam as usize) % 2], n, n / 2, fam, false));
        }
    }
    let small = if thorough { 1200 } else { 260 };
    for i in 0..small {
        let n = if i % 9 == 0 { rng.range(40, 300) } else { rng.range(2, 24) } as usize;
        let fam = if i % 5 == 0 { 9 } else { rng.below(6) };
        let dups = if rng.chance(1, 2) { rng.range(0, n as u64) as usize } else { 0 };
        out.push(sort_line(rng, kinds[i % 2], n, dups, fam, i % 23 == 0));
    }
    // around and above the comparison-sort / radix-sort threshold (sizes after dedupe)
    let mut big: Vec<usize> = vec![1023, 1024, 1025, 1026, 1100, 1500, 2048, 3000];
    if thorough {
        big.extend_from_slice(&[1025, 1025, 1300, 1700, 2200, 3500, 4096, 5000, 5000]);
    }
    let fams = [0u64, 1, 2, 3, 4, 9];
    let reps = if thorough { 6 } else { 2 };
    for rep in 0..reps {
        for (j, &n) in big.iter().enumerate() {
            let fam = fams[(j + rep * 2) % fams.len()];
            let dups = if (j + rep) % 2 == 0 { n / 5 } else { 0 };
            out.push(sort_line(rng, "radix", n, dups, fam, false));
            if rep == 0 && j % 3 == 0 {
                out.push(sort_line(rng, "legacy", n, dups, fam, false));
            }
        }
    }
    // every single scope pair / rule half isolated in a > 1024 batch
    for pair in 0..18usize {
        let n = 1040;
        let mut line = format!("radix {n}");
        let mut base = [0x55u8; 32];
        base[0] = 0;
        for i in 0..n {
            let mut s = base;
            let mut r = 5u32;
            // distinct filler keys differing at the *other* end of the key, plus the probe digit
            if pair < 16 {
                let filler = if pair < 8 { 15 } else { 0 };
                s[2 * filler] = (i / 256) as u8;
                s[2 * filler + 1] = (i % 256) as u8;
                s[2 * pair] = *rng.pick(&[0u8, 1, 0xff]);
                s[2 * pair + 1] = *rng.pick(&[0u8, 2, 0xff]);
            } else {
                s[0] = (i / 256) as u8;
                s[1] = (i % 256) as u8;
                s[31] = (i % 2) as u8;
                r = if pair == 16 { *rng.pick(&[1u32, 2, 0xFFFF, 0x100, 0x0201]) } else { *rng.pick(&[0x1_0000u32, 0x2_0000, 0x0100_0000, 0xFFFF_0000]) };
            }
            line.push_str(&format!(" {} {} {}", hex(&s), hex(&rule_hash(r)), r));
        }
        out.push(line);
    }
    out
}

// --- footprints over the tiny universe

#[derive(Clone, Copy, PartialEq, Eq, Debug)]
enum Claim {
    Node(u64, u64, bool),
    Edge(u64, u64, bool),
    Att(u64, u64, bool), // (warp, which, write): which 0 = node-owned α of node 0, 1 = edge-owned β of edge 0
    Port(u64, u64, bool), // (warp, key, out)
}

fn atomic_claims() -> Vec<Claim> {
    let mut v = Vec::new();
    for w in 1..=2u64 {
        for i in 0..2u64 {
            for wr in [false, true] {
                v.push(Claim::Node(w, i, wr));
                v.push(Claim::Edge(w, i, wr));
                v.push(Claim::Att(w, i, wr));
            }
            for out in [false, true] {
                v.push(Claim::Port(w, i, out));
            }
        }
    }
    v
}

fn fp_of(claims: &[Claim], mask: u64) -> PFoot {
    let mut f = PFoot { mask, ..PFoot::default() };
    for c in claims {
        match *c {
            Claim::Node(w, i, wr) => if wr { f.n_write.push((w, i)) } else { f.n_read.push((w, i)) },
            Claim::Edge(w, i, wr) => if wr { f.e_write.push((w, i)) } else { f.e_read.push((w, i)) },
            Claim::Att(w, which, wr) => {
                let q = if which == 0 { (0, w, 0, 0) } else { (1, w, 0, 1) };
                if wr { f.a_write.push(q) } else { f.a_read.push(q) }
            }
            Claim::Port(w, k, out) => if out { f.b_out.push((w, k)) } else { f.b_in.push((w, k)) },
        }
    }
    f
}

fn fp_str(f: &PFoot) -> String {
    let p = |v: &Vec<(u64, u64)>| {
        let mut s = format!(" {}", v.len());
        for (a, b) in v {
            s.push_str(&format!(" {a} {b}"));
        }
        s
    };
    let q = |v: &Vec<(u64, u64, u64, u64)>| {
        let mut s = format!(" {}", v.len());
        for (a, b, c, d) in v {
            s.push_str(&format!(" {a} {b} {c} {d}"));
        }
        s
    };
    format!("{}{}{}{}{}{}{}{}{}", f.mask, p(&f.n_read), p(&f.n_write), p(&f.e_read), p(&f.e_write), q(&f.a_read), q(&f.a_write), p(&f.b_in), p(&f.b_out))
}

fn reserve_line(kind: &str, fps: &[PFoot], rng: &mut Rng, shuffle_keys: bool) -> String {
    let n = fps.len();
    // scope keys: position i gets the i-th smallest key unless shuffled; arrival order random
    let mut keys: Vec<u64> = (0..n as u64).collect();
    if shuffle_keys {
        rng.shuffle(&mut keys);
    }
    let mut arrival: Vec<usize> = (0..n).collect();
    rng.shuffle(&mut arrival);
    let mut line = format!("{kind} {n}");
    for &i in &arrival {
        let mut s = [0u8; 32];
        s[31] = (keys[i] % 256) as u8;
        s[30] = (keys[i] / 256) as u8;
        let r = 3u32;
        line.push_str(&format!(" {} {} {} {}", hex(&s), hex(&rule_hash(r)), r, fp_str(&fps[i])));
    }
    line
}

fn pick_mask(rng: &mut Rng, sound: bool) -> u64 {
    if sound {
        *rng.pick(&[1u64, 3, u64::MAX, 1 << 63 | 1])
    } else {
        *rng.pick(&[0u64, 1, 2, 4, 1 << 63])
    }
}

fn small_fp(rng: &mut Rng, atoms: &[Claim], max_claims: u64, sound: bool) -> PFoot {
    let k = rng.range(0, max_claims) as usize;
    let cl: Vec<Claim> = (0..k).map(|_| *rng.pick(atoms)).collect();
    fp_of(&cl, pick_mask(rng, sound))
}

fn gen_reserve(rng: &mut Rng, tier: Tier) -> Vec<String> {
    let thorough = tier == Tier::Thorough;
    let atoms = atomic_claims();
    let mut singles: Vec<Vec<Claim>> = vec![vec![]];
    singles.extend(atoms.iter().map(|c| vec![*c]));
    let mut out = Vec::new();
    // all ordered pairs of atomic footprints: the whole conflict matrix, both kinds
    for (i, a) in singles.iter().enumerate() {
        for (j, b) in singles.iter().enumerate() {
            let radix = (i + j) % 2 == 0 || thorough;
            if radix {
                out.push(reserve_line("radix", &[fp_of(a, 1), fp_of(b, 1)], rng, false));
            }
            if !radix || thorough {
                let sound = rng.chance(2, 3);
                let (ma, mb) = (pick_mask(rng, sound), pick_mask(rng, sound));
                out.push(reserve_line("legacy", &[fp_of(a, ma), fp_of(b, mb)], rng, false));
            }
        }
    }
    // triples: sampled (quick) / all atomic triples + sampled compound triples (thorough)
    if thorough {
        for a in &singles {
            for b in &singles {
                for c in &singles {
                    out.push(reserve_line("radix", &[fp_of(a, 1), fp_of(b, 1), fp_of(c, 1)], rng, false));
                }
            }
        }
    }
    let triples = if thorough { 60000 } else { 1500 };
    for i in 0..triples {
        let sound = i % 3 != 0;
        let kind = if i % 2 == 0 { "radix" } else { "legacy" };
        // the reject-marks-nothing shape: A accepted, B = {conflict with A, claim x} rejected,
        // C conflicts with B's x only
        if i % 4 == 0 {
            let a = *rng.pick(&atoms);
            let x = *rng.pick(&atoms);
            let b = vec![conflicting(rng, a), x];
            let c = vec![conflicting(rng, x)];
            let m = if sound { 1 } else { pick_mask(rng, false) };
            out.push(reserve_line(kind, &[fp_of(&[a], m), fp_of(&b, m), fp_of(&c, m)], rng, false));
        } else {
            let fps: Vec<PFoot> = (0..3).map(|_| small_fp(rng, &atoms, 2, sound)).collect();
            out.push(reserve_line(kind, &fps, rng, false));
        }
    }
    // random larger sets; some with repeated keys (last-wins replaces the footprint)
    let sets = if thorough { 400 } else { 60 };
    for i in 0..sets {
        let n = if i % 15 == 14 { rng.range(1030, 1200) } else if i % 4 == 0 { rng.range(60, 250) } else { rng.range(4, 40) } as usize;
        let sound = i % 3 != 1;
        let wide = i % 2 == 0;
        let mut fps = Vec::new();
        for _ in 0..n {
            if wide {
                // wider universe so that many candidates are accepted
                let k = rng.range(0, 4);
                let mut f = PFoot { mask: pick_mask(rng, sound), ..PFoot::default() };
                for _ in 0..k {
                    let w = rng.range(1, 2);
                    let id = rng.below(if n > 100 { 400 } else { 24 });
                    match rng.below(8) {
                        0 => f.n_read.push((w, id)),
                        1 => f.n_write.push((w, id)),
                        2 => f.e_read.push((w, id)),
                        3 => f.e_write.push((w, id)),
                        4 => f.a_read.push((rng.below(2), w, id, rng.below(2))),
                        5 => f.a_write.push((rng.below(2), w, id, rng.below(2))),
                        6 => f.b_in.push((w, id)),
                        _ => f.b_out.push((w, id)),
                    }
                }
                fps.push(f);
            } else {
                fps.push(small_fp(rng, &atoms, 3, sound));
            }
        }
        let kind = if i % 2 == 0 || n > 1024 { "radix" } else { "legacy" };
        let mut line = reserve_line(kind, &fps, rng, true);
        if i % 5 == 0 && n >= 2 {
            // re-enqueue the first key with a different footprint (last-wins)
            let f = small_fp(rng, &atoms, 3, sound);
            let new_line = {
                let toks: Vec<&str> = line.split(' ').collect();
                let extra = format!(" {} {} {} {}", toks[2], toks[3], toks[4], fp_str(&f));
                format!("{} {}{}{}", toks[0], n + 1, &line[toks[0].len() + 1 + toks[1].len()..], extra)
            };
            line = new_line;
        }
        out.push(line);
    }
    // wide footprints (8..24 keys in one set) against single-key footprints that overlap them at the
    // largest / smallest / a middle key — set intersection shortcuts for skewed sizes must stay exact
    for case in 0..(if thorough { 240 } else { 48 }) {
        let k = 8 + (case % 17) as u64;
        let class = (case / 2) % 3;
        let hit = match (case / 6) % 3 {
            0 => k - 1,
            1 => 0,
            _ => k / 2,
        };
        let wide_write = case % 2 == 1;
        let mk = |j: u64, w: bool| match class {
            0 => Claim::Node(0, 100 + j, w),
            1 => Claim::Edge(0, 100 + j, w),
            _ => Claim::Port(0, 100 + j, w),
        };
        let wide: Vec<Claim> = (0..k).map(|j| mk(j, wide_write)).collect();
        let single_hit = vec![mk(hit, true)];
        let single_miss = vec![mk(k + 3, true)];
        let m = pick_mask(rng, true);
        for kind in ["radix", "legacy"] {
            out.push(reserve_line(kind, &[fp_of(&wide, m), fp_of(&single_hit, m), fp_of(&single_miss, m)], rng, true));
            out.push(reserve_line(kind, &[fp_of(&single_hit, m), fp_of(&wide, m)], rng, false));
        }
    }
    out
}

/// an atomic claim that conflicts with `c`
fn conflicting(rng: &mut Rng, c: Claim) -> Claim {
    match c {
        Claim::Node(w, i, wr) => Claim::Node(w, i, if wr { rng.chance(1, 2) } else { true }),
        Claim::Edge(w, i, wr) => Claim::Edge(w, i, if wr { rng.chance(1, 2) } else { true }),
        Claim::Att(w, i, wr) => Claim::Att(w, i, if wr { rng.chance(1, 2) } else { true }),
        Claim::Port(w, k, _) => Claim::Port(w, k, rng.chance(1, 2)),
    }
}

// ------------------------------------------------------------------ C03.multi: several ticks on ONE scheduler
//
// "Within a tick": a scheduler object lives across ticks (Engine keeps one) and may hold several open
// transactions. Each tick's admission must be the greedy independent set of THAT tick's candidates only —
// nothing accepted in an earlier (finalized) tick or in another open transaction may block or admit.
// Line: `kind mode T  (n cand…)×T`, cand as in C03.reserve. mode: seq = tx ids 1..T one after another,
// each finalized before the next; same = one tx id re-used for every tick (finalized in between);
// inter = all T transactions open at once, enqueues round-robin, then drain+reserve per tx, finalize last.

fn parse_multi(t: &mut Toks) -> Result<(SchedulerKind, String, Vec<Vec<PCand>>), String> {
    let kind = kind_of(t.next()?)?;
    let mode = t.next()?.to_string();
    if !matches!(mode.as_str(), "seq" | "same" | "inter") {
        return Err(format!("bad mode {mode}"));
    }
    let ticks = t.num()?;
    let mut all = Vec::new();
    for _ in 0..ticks {
        let n = t.num()?;
        let mut cs = Vec::new();
        for _ in 0..n {
            let scope = t.id()?;
            let rule_id = t.id()?;
            let compact = u32::try_from(t.num()?).map_err(|_| "compact rule exceeds u32".to_string())?;
            let mask = t.num()?;
            let fp = parse_fp(t, mask)?;
            cs.push(PCand { scope, rule_id, compact, fp });
        }
        all.push(cs);
    }
    if !t.done() {
        return Err("trailing tokens".into());
    }
    Ok((kind, mode, all))
}

/// Runs the ticks on one real scheduler; per tick (drained candidates, raw reserve decisions).
fn real_multi(kind: SchedulerKind, mode: &str, ticks: &[Vec<PCand>]) -> Option<Vec<(Vec<RawCandidate>, Vec<bool>)>> {
    let raws: Vec<Vec<RawCandidate>> = ticks.iter().map(|cs| raw_of(cs)).collect();
    let mode = mode.to_string();
    std::panic::catch_unwind(std::panic::AssertUnwindSafe(move || {
        let mut s = RawScheduler::new(kind, 1);
        let mut out = Vec::new();
        if mode == "inter" {
            let longest = raws.iter().map(Vec::len).max().unwrap_or(0);
            for j in 0..longest {
                for (i, cs) in raws.iter().enumerate() {
                    if let Some(c) = cs.get(j) {
                        s.set_tx(i as u64 + 1);
                        s.enqueue(c.clone());
                    }
                }
            }
            // drain and reserve every open transaction before any is finalized
            for i in 0..raws.len() {
                s.set_tx(i as u64 + 1);
                let d = s.drain();
                let r = s.reserve_all(&d);
                out.push((d, r));
            }
            for i in 0..raws.len() {
                s.set_tx(i as u64 + 1);
                s.finalize();
            }
        } else {
            for (i, cs) in raws.iter().enumerate() {
                s.set_tx(if mode == "same" { 1 } else { i as u64 + 1 });
                for c in cs {
                    s.enqueue(c.clone());
                }
                let d = s.drain();
                let r = s.reserve_all(&d);
                s.finalize();
                out.push((d, r));
            }
        }
        out
    }))
    .ok()
}

fn imp_multi(t: &mut Toks) -> Result<String, String> {
    let (kind, mode, ticks) = parse_multi(t)?;
    let Some(res) = real_multi(kind, &mode, &ticks) else { return Ok("panic".into()) };
    let parts: Vec<String> = res
        .iter()
        .map(|(d, r)| {
            let raw_s: String = r.iter().map(|b| if *b { 'A' } else { 'R' }).collect();
            format!("drain {} ; raw {}", tags_str(d), if raw_s.is_empty() { "-".to_string() } else { raw_s })
        })
        .collect();
    Ok(parts.join(" | "))
}

fn oracle_multi(t: &mut Toks, _tier: Tier) -> Result<OracleOut, String> {
    let (kind, mode, ticks) = parse_multi(t)?;
    let mut o = OracleOut::default();
    o.tags.push(format!("multi:{mode}"));
    o.tags.push(format!("ticks:{}", ticks.len()));
    let legacy = matches!(kind, SchedulerKind::Legacy);
    let kn = if legacy { "legacy" } else { "radix" };
    let Some(res) = real_multi(kind, &mode, &ticks) else {
        o.fails.push((format!("C03.multi.panic.{kn}"), "scheduler panicked on a multi-tick sequence".into()));
        return Ok(o);
    };
    let mut cross = false;
    for (i, (cs, (d, raw))) in ticks.iter().zip(res.iter()).enumerate() {
        // each tick alone on a FRESH scheduler is the reference (C03.reserve decides that one)
        let fresh = real_multi(kind, "seq", std::slice::from_ref(cs));
        let order: Vec<usize> = d.iter().map(|c| c.tag as usize).collect();
        let pure: Vec<bool> = ref_greedy(cs, &order, legacy && !masks_sound(cs, &order)).iter().map(|r| r.0).collect();
        if let Some(f) = fresh {
            let (fd, fr) = &f[0];
            let ftags: Vec<u64> = fd.iter().map(|c| c.tag).collect();
            let dtags: Vec<u64> = d.iter().map(|c| c.tag).collect();
            if ftags != dtags {
                o.fails.push((format!("C03.multi.drain-depends-on-history.{kn}.{mode}"), format!("tick {i}: drained order differs from the same tick on a fresh scheduler")));
            }
            if fr != raw {
                o.fails.push((format!("C03.multi.admission-depends-on-history.{kn}.{mode}"), format!("tick {i}: accept/reject bits {:?} differ from the same tick on a fresh scheduler {:?}", raw, fr)));
            }
        }
        if *raw != pure {
            let pos = raw.iter().zip(&pure).position(|(a, b)| a != b).unwrap_or(0);
            let what = if raw[pos] { "accepted a candidate that conflicts with an earlier accepted one of its tick" } else { "rejected a candidate that conflicts with no earlier accepted candidate of its own tick" };
            o.fails.push((format!("C03.multi.not-greedy-within-tick.{kn}.{mode}"), format!("tick {i}: {what} (position {pos})")));
        }
        if raw.iter().any(|b| !*b) {
            o.tags.push("rejection".into());
        }
        // does an earlier tick hold a claim that conflicts with an accepted candidate of this tick?
        if i > 0 {
            for (k, c) in d.iter().enumerate() {
                if raw.get(k) == Some(&true) {
                    let me = &cs[c.tag as usize].fp;
                    if ticks[..i].iter().flatten().any(|p| ref_conflict(me, &p.fp)) {
                        cross = true;
                    }
                }
            }
        }
    }
    if cross {
        o.tags.push("cross-tick-overlap".into());
    }
    o.nontrivial = ticks.len() > 1 && cross;
    Ok(o)
}

fn gen_multi(rng: &mut Rng, tier: Tier) -> Vec<String> {
    let atoms = atomic_claims();
    let n_cases = if tier == Tier::Thorough { 1500 } else { 150 };
    let mut out = Vec::new();
    for case in 0..n_cases {
        let kind = if case % 2 == 0 { "radix" } else { "legacy" };
        let mode = *rng.pick(&["seq", "seq", "same", "inter"]);
        let ticks = rng.range(2, 4) as usize;
        let mut line = format!("{kind} {mode} {ticks}");
        // a small pool of claims re-used across ticks, so later ticks touch what earlier ticks claimed
        let pool: Vec<Claim> = (0..rng.range(1, 3)).map(|_| *rng.pick(&atoms)).collect();
        for _ in 0..ticks {
            let n = rng.range(1, 4) as usize;
            let mut fps = Vec::new();
            for _ in 0..n {
                let mut cl: Vec<Claim> = Vec::new();
                if rng.range(0, 3) > 0 {
                    cl.push(*rng.pick(&pool));
                }
                if rng.range(0, 2) == 0 {
                    cl.push(*rng.pick(&atoms));
                }
                fps.push(fp_of(&cl, pick_mask(rng, true)));
            }
            let sh = rng.range(0, 1) == 1;
            let l = reserve_line(kind, &fps, rng, sh);
            // reserve_line starts with "<kind> <n> …": drop the kind token
            line.push(' ');
            line.push_str(l.splitn(2, ' ').nth(1).unwrap_or(""));
        }
        out.push(line);
    }
    out
}
