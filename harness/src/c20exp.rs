//! C20.exp — the three WAL causal-history export profiles of `warp_core::wsc`
//! (`wsc_{self_contained,cas_addressed,ref_only}_wal_export` / `validate_wsc_*_wal_export`),
//! retained-material part, over a WAL root without segments.
//!
//! Line: `<s|c|r> <same-root 0|1> nblobs (<bytes> <blake3>)* <side> <same | alt <side>> ncas (<href> <blob>)*`
//! `side` = `nm (<href> <coord> <kind> <posture>)* nr reading* np (<href> <coord> <kind> <posture> <blob>)*
//! nrefs (<kind> <href> <coord> <byte-len>)*`.  `href` = `h<i>` (hash of blob i) or 64 hex digits.
//! The first side is what the exporter is given.  `same`: the importer validates the export it got;
//! `alt`: the importer is handed envelopes that carry the second side — the retained-payload / CAS
//! reference envelopes are built HERE (independent encoder, no hash check), so an importer can be
//! shown embedded bytes that no honest exporter would have written.
use crate::prng::Rng;
use crate::util::{hex, small_id, Toks};
use crate::{OracleOut, Stream, Tier};
use bytes::Bytes;
use std::collections::{BTreeMap, BTreeSet};
use warp_core::causal_wal::{
    EvidenceMaterialPosture as Posture, ReadingRefRecord, RetainedMaterialKind as Kind, RetainedMaterialRecord as Rec, WalRoot,
};
use warp_core::wsc::{
    build_one_warp_input, retention_records_to_wsc_envelope, validate_wsc_cas_addressed_wal_export, validate_wsc_ref_only_wal_export,
    validate_wsc_self_contained_wal_export, write_wsc_one_warp, wsc_cas_addressed_wal_export, wsc_ref_only_wal_export,
    wsc_self_contained_wal_export, WscCasAddressedRetainedMaterialReference as CasRef, WscCasAddressedWalExport, WscCasAddressedWalExportError as CasExpErr,
    WscCasAddressedWalImport, WscCasAddressedWalImportError as CasImpErr, WscCasBlobStorePort, WscCausalHistoryExportProfileKind as Profile,
    WscRefOnlyWalExport, WscRefOnlyWalExportError as RefExpErr, WscRefOnlyWalImport, WscRefOnlyWalImportError as RefImpErr, WscRetentionRecords,
    WscSelfContainedRetainedMaterial as Pay, WscSelfContainedWalExport, WscSelfContainedWalExportError as ScExpErr, WscSelfContainedWalImport,
    WscSelfContainedWalImportError as ScImpErr, WscStoreEnvelope, WscStoreObstruction, WscStoreObstructionKind, WscStoreRecordKind, WscStoreSubject,
    WscWalCausalHistoryRecords,
};
use warp_core::{make_node_id, make_type_id, make_warp_id, AtomPayload, AttachmentValue, EdgeId, EdgeRecord, GraphStore, NodeId, NodeRecord};

pub fn streams() -> Vec<Stream> {
    vec![Stream { name: "C20.exp", gen: gen_exp, imp: imp_exp, oracle: oracle_exp }]
}

type H32 = [u8; 32];

fn b3(b: &[u8]) -> H32 {
    *blake3::hash(b).as_bytes()
}
fn b3parts(parts: &[&[u8]]) -> H32 {
    let mut h = blake3::Hasher::new();
    for p in parts {
        h.update(p);
    }
    *h.finalize().as_bytes()
}

const KINDS: [Kind; 7] = [
    Kind::SubmissionPayload,
    Kind::TickReceipt,
    Kind::RuntimeStateDelta,
    Kind::RuntimeControl,
    Kind::ReadingPayload,
    Kind::ReadingEnvelope,
    Kind::Diagnostic,
];
const POSTURES: [Posture; 6] =
    [Posture::Present, Posture::RedactedByPolicy, Posture::EncryptedKeyUnavailable, Posture::Missing, Posture::Corrupt, Posture::Obstructed];
const POSTURE_NAMES: [&str; 6] = ["present", "redacted", "encrypted", "missing", "corrupt", "obstructed"];

fn kind_code(k: Kind) -> usize {
    KINDS.iter().position(|x| *x == k).map_or(0, |p| p + 1)
}
fn posture_code(k: Posture) -> usize {
    POSTURES.iter().position(|x| *x == k).map_or(0, |p| p + 1)
}
fn posture_name(k: Posture) -> &'static str {
    POSTURE_NAMES[posture_code(k) - 1]
}

// ------------------------------------------------------------------ case

type Dict = Vec<(Vec<u8>, H32)>;

#[derive(Clone, Default, PartialEq)]
struct Side {
    ms: Vec<Rec>,
    rs: Vec<ReadingRefRecord>,
    ps: Vec<Pay>,
    refs: Vec<CasRef>,
}

struct Case {
    prof: char,
    same_root: bool,
    dict: Dict,
    exp: Side,
    alt: Option<Side>,
    cas: BTreeMap<H32, Vec<u8>>,
}

fn href(t: &mut Toks, d: &Dict) -> Result<H32, String> {
    let s = t.next()?;
    if let Some(rest) = s.strip_prefix('h') {
        let i: usize = rest.parse().map_err(|_| format!("bad hash ref {s}"))?;
        d.get(i).map(|p| p.1).ok_or_else(|| format!("bad hash index {s}"))
    } else {
        crate::util::id32(s)
    }
}

fn blob<'a>(t: &mut Toks, d: &'a Dict) -> Result<&'a Vec<u8>, String> {
    let i = t.num()? as usize;
    d.get(i).map(|p| &p.0).ok_or_else(|| format!("bad blob index {i}"))
}

fn kind_of(t: &mut Toks) -> Result<Kind, String> {
    KINDS.get((t.num()? as usize).wrapping_sub(1)).copied().ok_or_else(|| "bad kind".to_string())
}
fn posture_of(t: &mut Toks) -> Result<Posture, String> {
    POSTURES.get((t.num()? as usize).wrapping_sub(1)).copied().ok_or_else(|| "bad posture".to_string())
}

fn parse_rec(t: &mut Toks, d: &Dict) -> Result<Rec, String> {
    let material_digest = href(t, d)?;
    let semantic_coordinate_digest = t.id()?;
    let kind = kind_of(t)?;
    let posture = posture_of(t)?;
    Ok(Rec { material_digest, semantic_coordinate_digest, kind, posture })
}

fn parse_side(t: &mut Toks, d: &Dict) -> Result<Side, String> {
    let mut s = Side::default();
    for _ in 0..t.num()? {
        s.ms.push(parse_rec(t, d)?);
    }
    for _ in 0..t.num()? {
        let reading_id = t.id()?;
        let semantic_coordinate_digest = t.id()?;
        let payload_digest = t.id()?;
        let envelope_digest = t.id()?;
        let posture = posture_of(t)?;
        s.rs.push(ReadingRefRecord { reading_id, semantic_coordinate_digest, payload_digest, envelope_digest, posture });
    }
    for _ in 0..t.num()? {
        let material = parse_rec(t, d)?;
        let material_bytes = blob(t, d)?.clone();
        s.ps.push(Pay { material, material_bytes });
    }
    for _ in 0..t.num()? {
        let material_kind = kind_of(t)?;
        let content_hash = href(t, d)?;
        let semantic_coordinate_digest = t.id()?;
        let byte_len = t.num()?;
        s.refs.push(CasRef { material_kind, content_hash, semantic_coordinate_digest, byte_len });
    }
    Ok(s)
}

fn parse_case(t: &mut Toks) -> Result<Case, String> {
    let prof = match t.next()? {
        "s" => 's',
        "c" => 'c',
        "r" => 'r',
        o => return Err(format!("bad profile {o}")),
    };
    let same_root = match t.num()? {
        0 => false,
        1 => true,
        _ => return Err("bad same-root flag".into()),
    };
    let mut dict = Vec::new();
    for _ in 0..t.num()? {
        let b = t.bytes()?;
        let h = t.id()?;
        if b3(&b) != h {
            return Err("dictionary hash is not BLAKE3 of the bytes".into());
        }
        dict.push((b, h));
    }
    let exp = parse_side(t, &dict)?;
    let alt = match t.next()? {
        "same" => None,
        "alt" => Some(parse_side(t, &dict)?),
        o => return Err(format!("bad import mode {o}")),
    };
    let mut cas = BTreeMap::new();
    for _ in 0..t.num()? {
        let h = href(t, &dict)?;
        let b = blob(t, &dict)?.clone();
        if cas.insert(h, b).is_some() {
            return Err("duplicate CAS key".into());
        }
    }
    if !t.done() {
        return Err("trailing tokens".into());
    }
    Ok(Case { prof, same_root, dict, exp, alt, cas })
}

// ------------------------------------------------------------------ independent envelope encoders

fn rec_bytes(m: &Rec) -> Vec<u8> {
    let mut o = Vec::new();
    o.extend_from_slice(&m.material_digest);
    o.extend_from_slice(&m.semantic_coordinate_digest);
    o.push(kind_code(m.kind) as u8);
    o.push(posture_code(m.posture) as u8);
    o
}

fn pay_bytes(p: &Pay) -> Vec<u8> {
    let r = rec_bytes(&p.material);
    let mut o = Vec::new();
    o.extend_from_slice(&(r.len() as u64).to_le_bytes());
    o.extend_from_slice(&r);
    o.extend_from_slice(&(p.material_bytes.len() as u64).to_le_bytes());
    o.extend_from_slice(&p.material_bytes);
    o
}

fn ref_bytes(r: &CasRef) -> Vec<u8> {
    let mut o = vec![kind_code(r.material_kind) as u8];
    o.extend_from_slice(&r.content_hash);
    o.extend_from_slice(&r.semantic_coordinate_digest);
    o.extend_from_slice(&r.byte_len.to_le_bytes());
    o
}

/// Sorted, duplicate-free; `None` when two different items share an identity.
fn canon<T: Clone + PartialEq, I: Ord>(xs: &[T], ident: impl Fn(&T) -> I) -> Option<Vec<T>> {
    for a in xs {
        for b in xs {
            if ident(a) == ident(b) && a != b {
                return None;
            }
        }
    }
    let mut v: Vec<T> = Vec::new();
    for x in xs {
        if !v.contains(x) {
            v.push(x.clone());
        }
    }
    v.sort_by_key(|x| ident(x));
    Some(v)
}

fn canon_pays(ps: &[Pay]) -> Option<Vec<Pay>> {
    canon(ps, |p| p.material.material_digest)
}
fn canon_refs(rs: &[CasRef]) -> Option<Vec<CasRef>> {
    canon(rs, |r| (kind_code(r.material_kind), r.semantic_coordinate_digest))
}
fn canon_records(ms: &[Rec], rs: &[ReadingRefRecord]) -> Option<WscRetentionRecords> {
    for a in ms {
        for b in ms {
            if a.material_digest == b.material_digest && a != b {
                return None;
            }
        }
    }
    for a in rs {
        for b in rs {
            if a.reading_id == b.reading_id && a != b {
                return None;
            }
        }
    }
    let mut materials: Vec<Rec> = Vec::new();
    for m in ms {
        if !materials.contains(m) {
            materials.push(*m);
        }
    }
    materials.sort_by_key(rec_bytes);
    let mut readings: Vec<ReadingRefRecord> = Vec::new();
    for r in rs {
        if !readings.contains(r) {
            readings.push(*r);
        }
    }
    readings.sort_by_key(|r| (r.reading_id, r.semantic_coordinate_digest, r.payload_digest, r.envelope_digest, posture_code(r.posture)));
    Some(WscRetentionRecords { materials, readings })
}

struct Shape {
    warp: &'static str,
    root: &'static str,
    node_ty: &'static str,
    edge_ty: &'static str,
    schema: &'static str,
}

fn build_env(shape: &Shape, kind: WscStoreRecordKind, basis: H32, nodes: Vec<(NodeId, EdgeId, &'static str, Vec<u8>)>) -> Result<WscStoreEnvelope, String> {
    let mut store = GraphStore::new(make_warp_id(shape.warp));
    let root = make_node_id(shape.root);
    store.insert_node(root, NodeRecord { ty: make_type_id(shape.node_ty) });
    for (node, edge, att_ty, payload) in nodes {
        store.insert_node(node, NodeRecord { ty: make_type_id(shape.node_ty) });
        store.insert_edge(root, EdgeRecord { id: edge, from: root, to: node, ty: make_type_id(shape.edge_ty) });
        store.set_node_attachment(node, Some(AttachmentValue::Atom(AtomPayload::new(make_type_id(att_ty), Bytes::from(payload)))));
    }
    let input = build_one_warp_input(&store, root);
    let wsc = write_wsc_one_warp(&input, make_type_id(shape.schema).0, 0).map_err(|e| format!("wsc write: {e}"))?;
    WscStoreEnvelope::validated(kind, basis, wsc).map_err(|e| format!("envelope: {:?}", e.kind))
}

const SC_RET: Shape = Shape {
    warp: "echo/wsc-store/self-contained-retained",
    root: "echo/wsc-store/self-contained-retained/root",
    node_ty: "echo/wsc-store/self-contained-retained/node/v1",
    edge_ty: "echo/wsc-store/self-contained-retained/member/v1",
    schema: "echo/wsc-store/self-contained-retained/v1",
};
const SC_RET_ATT: &str = "echo/wsc-store/self-contained-retained/material-bytes/v1";
const SC_RET_BASIS: &[u8] = b"echo:wsc_store:self_contained_retained_basis:v1\0";
const SC_RET_NODE: &[u8] = b"echo:wsc_store:self_contained_retained_node:v1\0";
const SC_RET_EDGE: &[u8] = b"echo:wsc_store:self_contained_retained_edge:v1\0";

/// The retained-payload envelope of a self-contained export, encoded from a canonical payload list
/// WITHOUT looking at what the bytes hash to.
fn enc_retained_env(ps: &[Pay]) -> Result<WscStoreEnvelope, String> {
    let mut basis = blake3::Hasher::new();
    basis.update(SC_RET_BASIS);
    let mut nodes = Vec::new();
    for p in ps {
        let pb = pay_bytes(p);
        basis.update(&pb);
        nodes.push((NodeId(b3parts(&[SC_RET_NODE, &pb])), EdgeId(b3parts(&[SC_RET_EDGE, &p.material.material_digest])), SC_RET_ATT, pb));
    }
    build_env(&SC_RET, WscStoreRecordKind::RetainedEvidence, *basis.finalize().as_bytes(), nodes)
}

const CAS_REF: Shape = Shape {
    warp: "echo/wsc-store/wal-cas-addressed-refs",
    root: "echo/wsc-store/wal-cas-addressed-refs/root",
    node_ty: "echo/wsc-store/wal-cas-addressed-refs/node/v1",
    edge_ty: "echo/wsc-store/wal-cas-addressed-refs/member/v1",
    schema: "echo/wsc-store/wal-cas-addressed-refs/v1",
};
const CAS_REF_ATT: &str = "echo/wsc-store/wal-cas-addressed-refs/retained-material/v1";
const CAS_REF_BASIS: &[u8] = b"echo:wsc_store:cas_addressed_wal_ref_basis:v1\0";
const CAS_REF_NODE: &[u8] = b"echo:wsc_store:cas_addressed_wal_ref_node:v1\0";
const CAS_REF_EDGE: &[u8] = b"echo:wsc_store:cas_addressed_wal_ref_edge:v1\0";

fn enc_cas_ref_env(refs: &[CasRef]) -> Result<WscStoreEnvelope, String> {
    let mut basis = blake3::Hasher::new();
    basis.update(CAS_REF_BASIS);
    let mut nodes = Vec::new();
    for r in refs {
        let pb = ref_bytes(r);
        basis.update(b"retained");
        basis.update(&pb);
        let node = b3parts(&[CAS_REF_NODE, b"retained", &pb]);
        nodes.push((NodeId(node), EdgeId(b3parts(&[CAS_REF_EDGE, &node])), CAS_REF_ATT, pb));
    }
    build_env(&CAS_REF, WscStoreRecordKind::CausalHistory, *basis.finalize().as_bytes(), nodes)
}

// ------------------------------------------------------------------ running the real code

fn root_of(n: u64) -> WalRoot {
    WalRoot { root_digest: small_id(n), writer_epochs: Vec::new(), segments: Vec::new(), recovery_certificate: None }
}

struct MapCas<'a>(&'a BTreeMap<H32, Vec<u8>>);
impl WscCasBlobStorePort for MapCas<'_> {
    fn cas_blob_bytes(&self, content_hash: &H32) -> Option<Vec<u8>> {
        self.0.get(content_hash).cloned()
    }
}

fn records<'a>(s: &'a Side) -> WscWalCausalHistoryRecords<'a> {
    WscWalCausalHistoryRecords { retained_materials: &s.ms, reading_refs: &s.rs, ..WscWalCausalHistoryRecords::empty() }
}

enum Exported {
    Sc(Result<WscSelfContainedWalExport, ScExpErr>),
    Cas(Result<WscCasAddressedWalExport, CasExpErr>),
    Ref(Result<WscRefOnlyWalExport, RefExpErr>),
}

enum Imported {
    Skipped,
    Unbuildable,
    Sc(Result<WscSelfContainedWalImport, ScImpErr>),
    Cas(Result<WscCasAddressedWalImport, CasImpErr>),
    Ref(Result<WscRefOnlyWalImport, RefImpErr>),
}

fn run_export(c: &Case) -> Exported {
    let root = root_of(900);
    match c.prof {
        's' => Exported::Sc(wsc_self_contained_wal_export(&root, &[], &c.exp.ps, records(&c.exp))),
        'c' => Exported::Cas(wsc_cas_addressed_wal_export(&root, &[], &c.exp.refs, records(&c.exp))),
        _ => Exported::Ref(wsc_ref_only_wal_export(&root, records(&c.exp))),
    }
}

/// The export an importer is handed when the envelopes carry `side` (base parts from honest exports
/// of the same root; retained-payload / CAS-reference envelopes from the independent encoders).
fn assemble_sc(side: &Side) -> Result<Option<WscSelfContainedWalExport>, String> {
    let (Some(ps), Some(_)) = (canon_pays(&side.ps), canon_records(&side.ms, &side.rs)) else { return Ok(None) };
    let mut base = wsc_self_contained_wal_export(&root_of(900), &[], &[], WscWalCausalHistoryRecords::empty()).map_err(|e| format!("base export: {e}"))?;
    base.retained_material_envelope = enc_retained_env(&ps)?;
    base.retention_envelope = retention_records_to_wsc_envelope(&side.ms, &side.rs).map_err(|e| format!("retention envelope: {:?}", e.kind))?;
    Ok(Some(base))
}

fn assemble_cas(side: &Side) -> Result<Option<WscCasAddressedWalExport>, String> {
    let (Some(refs), Some(_)) = (canon_refs(&side.refs), canon_records(&side.ms, &side.rs)) else { return Ok(None) };
    let mut base = wsc_cas_addressed_wal_export(&root_of(900), &[], &[], WscWalCausalHistoryRecords::empty()).map_err(|e| format!("base export: {e}"))?;
    base.cas_reference_envelope = enc_cas_ref_env(&refs)?;
    base.retention_envelope = retention_records_to_wsc_envelope(&side.ms, &side.rs).map_err(|e| format!("retention envelope: {:?}", e.kind))?;
    Ok(Some(base))
}

fn assemble_ref(side: &Side) -> Result<Option<WscRefOnlyWalExport>, String> {
    if canon_records(&side.ms, &side.rs).is_none() {
        return Ok(None);
    }
    let mut base = wsc_ref_only_wal_export(&root_of(900), WscWalCausalHistoryRecords::empty()).map_err(|e| format!("base export: {e}"))?;
    base.retention_envelope = retention_records_to_wsc_envelope(&side.ms, &side.rs).map_err(|e| format!("retention envelope: {:?}", e.kind))?;
    Ok(Some(base))
}

fn run_import(c: &Case, ex: &Exported) -> Result<Imported, String> {
    let expected = root_of(if c.same_root { 900 } else { 901 });
    let cas = MapCas(&c.cas);
    Ok(match (&c.alt, ex) {
        (None, Exported::Sc(Ok(e))) => Imported::Sc(validate_wsc_self_contained_wal_export(e, &expected)),
        (None, Exported::Cas(Ok(e))) => Imported::Cas(validate_wsc_cas_addressed_wal_export(e, &expected, &cas)),
        (None, Exported::Ref(Ok(e))) => Imported::Ref(validate_wsc_ref_only_wal_export(e, &expected)),
        (None, _) => Imported::Skipped,
        (Some(side), _) => match c.prof {
            's' => match assemble_sc(side)? {
                Some(e) => Imported::Sc(validate_wsc_self_contained_wal_export(&e, &expected)),
                None => Imported::Unbuildable,
            },
            'c' => match assemble_cas(side)? {
                Some(e) => Imported::Cas(validate_wsc_cas_addressed_wal_export(&e, &expected, &cas)),
                None => Imported::Unbuildable,
            },
            _ => match assemble_ref(side)? {
                Some(e) => Imported::Ref(validate_wsc_ref_only_wal_export(&e, &expected)),
                None => Imported::Unbuildable,
            },
        },
    })
}

// ------------------------------------------------------------------ canonical output

fn is_dup(o: &WscStoreObstruction) -> Option<H32> {
    match (o.kind, o.subject) {
        (WscStoreObstructionKind::DuplicateEnvelopeMismatch, WscStoreSubject::Envelope { envelope_id }) => Some(envelope_id.as_hash()),
        _ => None,
    }
}

fn other<E: std::fmt::Debug>(e: &E) -> String {
    let s: String = format!("{e:?}").chars().take_while(|c| c.is_ascii_alphanumeric()).collect();
    format!("err other:{s}")
}

fn recs_s(r: &WscRetentionRecords) -> String {
    let mut s = format!("m {}", r.materials.len());
    for m in &r.materials {
        s.push_str(&format!(" {} {} {} {}", hex(&m.material_digest), hex(&m.semantic_coordinate_digest), kind_code(m.kind), posture_code(m.posture)));
    }
    s.push_str(&format!(" r {}", r.readings.len()));
    for x in &r.readings {
        s.push_str(&format!(
            " {} {} {} {} {}",
            hex(&x.reading_id),
            hex(&x.semantic_coordinate_digest),
            hex(&x.payload_digest),
            hex(&x.envelope_digest),
            posture_code(x.posture)
        ));
    }
    s
}

fn export_s(ex: &Exported) -> String {
    match ex {
        Exported::Sc(Ok(e)) => format!("ok {} {}", hex(e.retained_material_envelope.basis_digest()), hex(e.retention_envelope.basis_digest())),
        Exported::Sc(Err(e)) => match e {
            ScExpErr::RetainedMaterial(o) if is_dup(o).is_some() => format!("err material-dup {}", hex(&is_dup(o).unwrap_or_default())),
            ScExpErr::RetainedMaterialDigestMismatch { expected, actual } => format!("err digest-mismatch {} {}", hex(expected), hex(actual)),
            ScExpErr::MissingRetainedMaterial { material_digest } => format!("err missing {}", hex(material_digest)),
            ScExpErr::ExtraRetainedMaterial { material_digest } => format!("err extra {}", hex(material_digest)),
            ScExpErr::Retention(o) if is_dup(o).is_some() => "err retention-conflict".into(),
            e => other(e),
        },
        Exported::Cas(Ok(e)) => format!("ok {} {}", hex(e.cas_reference_envelope.basis_digest()), hex(e.retention_envelope.basis_digest())),
        Exported::Cas(Err(e)) => match e {
            CasExpErr::CasReferences(o) if is_dup(o).is_some() => format!("err material-dup {}", hex(&is_dup(o).unwrap_or_default())),
            CasExpErr::RetainedCasReferenceMismatch { missing_from_references, extra_in_references } => {
                format!("err refs-mismatch {missing_from_references} {extra_in_references}")
            }
            CasExpErr::Retention(o) if is_dup(o).is_some() => "err retention-conflict".into(),
            e => other(e),
        },
        Exported::Ref(Ok(e)) => format!("ok {}", hex(e.retention_envelope.basis_digest())),
        Exported::Ref(Err(e)) => match e {
            RefExpErr::Envelope(o) if is_dup(o).is_some() => "err retention-conflict".into(),
            e => other(e),
        },
    }
}

fn import_s(im: &Imported) -> String {
    match im {
        Imported::Skipped => "skipped".into(),
        Imported::Unbuildable => "unbuildable".into(),
        Imported::Sc(Ok(i)) => {
            let mut s = format!("ok pay {}", i.retained_payloads.len());
            for p in &i.retained_payloads {
                let m = &p.material;
                s.push_str(&format!(
                    " {} {} {} {} {}",
                    hex(&m.material_digest),
                    hex(&m.semantic_coordinate_digest),
                    kind_code(m.kind),
                    posture_code(m.posture),
                    hex(&p.material_bytes)
                ));
            }
            format!("{s} {}", recs_s(&i.retention))
        }
        Imported::Sc(Err(e)) => match e {
            ScImpErr::ProjectionBasisMismatch { .. } => "err root-mismatch".into(),
            ScImpErr::RetainedMaterial(o) if is_dup(o).is_some() => format!("err material-dup {}", hex(&is_dup(o).unwrap_or_default())),
            ScImpErr::Retention(o) if is_dup(o).is_some() => "err retention-conflict".into(),
            ScImpErr::RetainedMaterialDigestMismatch { expected, actual } => format!("err digest-mismatch {} {}", hex(expected), hex(actual)),
            ScImpErr::MissingRetainedMaterial { material_digest } => format!("err missing {}", hex(material_digest)),
            ScImpErr::ExtraRetainedMaterial { material_digest } => format!("err extra {}", hex(material_digest)),
            e => other(e),
        },
        Imported::Cas(Ok(i)) => {
            let mut s = format!("ok refs {}", i.cas_references.retained_materials.len());
            for r in &i.cas_references.retained_materials {
                s.push_str(&format!(" {} {} {} {}", kind_code(r.material_kind), hex(&r.content_hash), hex(&r.semantic_coordinate_digest), r.byte_len));
            }
            format!("{s} {}", recs_s(&i.retention))
        }
        Imported::Cas(Err(e)) => match e {
            CasImpErr::ProjectionBasisMismatch { .. } => "err root-mismatch".into(),
            CasImpErr::CasReferences(o) if is_dup(o).is_some() => format!("err material-dup {}", hex(&is_dup(o).unwrap_or_default())),
            CasImpErr::Retention(o) if is_dup(o).is_some() => "err retention-conflict".into(),
            CasImpErr::RetainedCasReferenceMismatch { missing_from_references, extra_in_references } => {
                format!("err refs-mismatch {missing_from_references} {extra_in_references}")
            }
            CasImpErr::MissingCasBlob { content_hash, semantic_coordinate_digest } => {
                format!("err missing-blob {} {}", hex(content_hash), hex(semantic_coordinate_digest))
            }
            CasImpErr::CasBlobHashMismatch { expected, actual } => format!("err blob-hash {} {}", hex(expected), hex(actual)),
            CasImpErr::CasBlobLengthMismatch { expected, actual } => format!("err blob-len {expected} {actual}"),
            e => other(e),
        },
        Imported::Ref(Ok(i)) => format!("ok {}", recs_s(&i.retention)),
        Imported::Ref(Err(e)) => match e {
            RefImpErr::ProjectionBasisMismatch { .. } => "err root-mismatch".into(),
            RefImpErr::Retention(o) if is_dup(o).is_some() => "err retention-conflict".into(),
            e => other(e),
        },
    }
}

fn imp_exp(t: &mut Toks) -> Result<String, String> {
    let c = parse_case(t)?;
    let ex = run_export(&c);
    let im = run_import(&c, &ex)?;
    Ok(format!("{} ;; {}", export_s(&ex), import_s(&im)))
}

// ------------------------------------------------------------------ oracle (no model)

fn fail(o: &mut OracleOut, k: String, w: String) {
    if !o.fails.iter().any(|(kk, _)| *kk == k) {
        o.fails.push((k, w));
    }
}

fn prof_name(p: char) -> &'static str {
    match p {
        's' => "self-contained",
        'c' => "cas-addressed",
        _ => "ref-only",
    }
}

/// Posture of the record the digest is filed under ("unrecorded" when there is none).
fn posture_under(ms: &[Rec], d: &H32) -> &'static str {
    ms.iter().find(|m| m.material_digest == *d).map_or("unrecorded", |m| posture_name(m.posture))
}

/// What is wrong with (records, payloads), judged independently of the code.
#[derive(Default)]
struct ScDefects {
    pay_conflict: bool,
    mismatching: Vec<Pay>,
    withheld: Vec<H32>,
    unknown: Vec<H32>,
    rec_conflict: bool,
}

impl ScDefects {
    fn of(ms: &[Rec], rs: &[ReadingRefRecord], ps: &[Pay]) -> Self {
        let mut d = ScDefects { pay_conflict: canon_pays(ps).is_none(), rec_conflict: canon_records(ms, rs).is_none(), ..Default::default() };
        for p in ps {
            if b3(&p.material_bytes) != p.material.material_digest {
                d.mismatching.push(p.clone());
            }
            if !ms.iter().any(|m| m.material_digest == p.material.material_digest) {
                d.unknown.push(p.material.material_digest);
            }
        }
        for m in ms {
            if m.posture == Posture::Present && !ps.iter().any(|p| p.material.material_digest == m.material_digest) {
                d.withheld.push(m.material_digest);
            }
        }
        d
    }
    fn none(&self) -> bool {
        !self.pay_conflict && !self.rec_conflict && self.mismatching.is_empty() && self.withheld.is_empty() && self.unknown.is_empty()
    }
}

/// The shape every self-contained verdict is reduced to, export and import alike.
enum ScVerdict {
    Ok,
    Dup,
    Mismatch(H32, H32),
    Missing(H32),
    Extra(H32),
    RetentionConflict,
    Other(String),
}

fn judge_sc(o: &mut OracleOut, side: &str, ms: &[Rec], rs: &[ReadingRefRecord], ps: &[Pay], v: &ScVerdict) {
    let d = ScDefects::of(ms, rs, ps);
    match v {
        ScVerdict::Ok => {
            for p in &d.mismatching {
                let posture = posture_under(ms, &p.material.material_digest);
                fail(
                    o,
                    format!("C20.wsc.payload-digest-unchecked.{posture}"),
                    format!(
                        "{side}: accepted embedded bytes {} under digest {} (they hash to {}); the record filed under that digest has posture {posture}",
                        hex(&p.material_bytes),
                        hex(&p.material.material_digest),
                        hex(&b3(&p.material_bytes))
                    ),
                );
            }
            if let Some(w) = d.withheld.first() {
                fail(o, "C20.wsc.withheld-accepted.self-contained".into(), format!("{side}: Present record {} has no embedded payload, yet accepted", hex(w)));
            }
            if let Some(w) = d.unknown.first() {
                fail(o, "C20.wsc.unknown-digest-accepted.self-contained".into(), format!("{side}: embedded payload {} is not in the record set, yet accepted", hex(w)));
            }
            if d.pay_conflict || d.rec_conflict {
                fail(o, "C20.wsc.alias-accepted.self-contained".into(), format!("{side}: two different items under one identity accepted"));
            }
        }
        _ if d.none() => {
            fail(o, format!("C20.wsc.valid-refused.self-contained.{side}"), "consistent records and intact payloads were refused".to_string());
        }
        ScVerdict::Dup => {
            if !d.pay_conflict {
                fail(o, "C20.wsc.wrong-obstruction.self-contained".into(), format!("{side}: DuplicateEnvelopeMismatch without conflicting payloads"));
            }
        }
        ScVerdict::Mismatch(e, a) => {
            if !d.mismatching.iter().any(|p| p.material.material_digest == *e && b3(&p.material_bytes) == *a) {
                fail(o, "C20.wsc.wrong-obstruction.self-contained".into(), format!("{side}: RetainedMaterialDigestMismatch names no mismatching payload"));
            }
        }
        ScVerdict::Missing(x) => {
            if !d.withheld.contains(x) {
                fail(o, "C20.wsc.wrong-obstruction.self-contained".into(), format!("{side}: MissingRetainedMaterial names a digest that is not withheld"));
            }
        }
        ScVerdict::Extra(x) => {
            if !d.unknown.contains(x) {
                fail(o, "C20.wsc.wrong-obstruction.self-contained".into(), format!("{side}: ExtraRetainedMaterial names a recorded digest"));
            }
        }
        ScVerdict::RetentionConflict => {
            if !d.rec_conflict {
                fail(o, "C20.wsc.wrong-obstruction.self-contained".into(), format!("{side}: retention conflict without conflicting records"));
            }
        }
        ScVerdict::Other(s) => fail(o, "C20.wsc.untyped-obstruction.self-contained".into(), format!("{side}: {s}")),
    }
}

fn sc_exp_verdict(r: &Result<WscSelfContainedWalExport, ScExpErr>) -> ScVerdict {
    match r {
        Ok(_) => ScVerdict::Ok,
        Err(ScExpErr::RetainedMaterial(o)) if is_dup(o).is_some() => ScVerdict::Dup,
        Err(ScExpErr::RetainedMaterialDigestMismatch { expected, actual }) => ScVerdict::Mismatch(*expected, *actual),
        Err(ScExpErr::MissingRetainedMaterial { material_digest }) => ScVerdict::Missing(*material_digest),
        Err(ScExpErr::ExtraRetainedMaterial { material_digest }) => ScVerdict::Extra(*material_digest),
        Err(ScExpErr::Retention(o)) if is_dup(o).is_some() => ScVerdict::RetentionConflict,
        Err(e) => ScVerdict::Other(format!("{e:?}").chars().take(60).collect()),
    }
}

fn sc_imp_verdict(r: &Result<WscSelfContainedWalImport, ScImpErr>) -> ScVerdict {
    match r {
        Ok(_) => ScVerdict::Ok,
        Err(ScImpErr::RetainedMaterial(o)) if is_dup(o).is_some() => ScVerdict::Dup,
        Err(ScImpErr::RetainedMaterialDigestMismatch { expected, actual }) => ScVerdict::Mismatch(*expected, *actual),
        Err(ScImpErr::MissingRetainedMaterial { material_digest }) => ScVerdict::Missing(*material_digest),
        Err(ScImpErr::ExtraRetainedMaterial { material_digest }) => ScVerdict::Extra(*material_digest),
        Err(ScImpErr::Retention(o)) if is_dup(o).is_some() => ScVerdict::RetentionConflict,
        Err(e) => ScVerdict::Other(format!("{e:?}").chars().take(60).collect()),
    }
}

/// What an Ok self-contained import must hand back for the envelope content (ms, rs, ps).
fn check_sc_import_content(o: &mut OracleOut, at: &str, i: &WscSelfContainedWalImport, ms: &[Rec], rs: &[ReadingRefRecord], ps: &[Pay]) {
    for p in &i.retained_payloads {
        if b3(&p.material_bytes) != p.material.material_digest {
            let posture = posture_under(&i.retention.materials, &p.material.material_digest);
            fail(
                o,
                format!("C20.wsc.payload-digest-unchecked.{posture}"),
                format!("{at}: retained_payloads returns bytes {} as the content of digest {}", hex(&p.material_bytes), hex(&p.material.material_digest)),
            );
        }
    }
    if Some(&i.retained_payloads) != canon_pays(ps).as_ref() {
        fail(o, "C20.wsc.reimport-differs.self-contained".into(), format!("{at}: retained_payloads is not the embedded payload set"));
    }
    if Some(&i.retention) != canon_records(ms, rs).as_ref() {
        fail(o, "C20.wsc.reimport-differs.self-contained".into(), format!("{at}: retention records differ from the exported set"));
    }
}

/// Corruptions of a payload, one per byte-position class (+ truncation, extension, emptying).
fn corruptions(b: &[u8]) -> Vec<(&'static str, Vec<u8>)> {
    let mut v = Vec::new();
    if !b.is_empty() {
        for (name, ix) in [("first", 0), ("middle", b.len() / 2), ("last", b.len() - 1)] {
            let mut x = b.to_vec();
            x[ix] ^= 0x7f;
            v.push((name, x));
        }
        v.push(("truncated", b[..b.len() - 1].to_vec()));
        v.push(("emptied", Vec::new()));
    }
    let mut x = b.to_vec();
    x.push(0);
    v.push(("extended", x));
    v
}

fn oracle_sc(c: &Case, ex: &Result<WscSelfContainedWalExport, ScExpErr>, im: &Imported, o: &mut OracleOut) -> Result<(), String> {
    let e = &c.exp;
    judge_sc(o, "export", &e.ms, &e.rs, &e.ps, &sc_exp_verdict(ex));
    if let Ok(x) = ex {
        // the exported retained-payload envelope is the independent encoding of the canonical payloads
        if let Some(ps) = canon_pays(&e.ps) {
            if enc_retained_env(&ps)? != x.retained_material_envelope {
                fail(o, "C20.wsc.export-envelope-differs.self-contained".into(), "retained payload envelope is not the canonical encoding of the payload set".into());
            }
        }
    }
    // what the importer was shown
    let shown: &Side = c.alt.as_ref().unwrap_or(e);
    match im {
        Imported::Sc(r) => {
            if !c.same_root {
                if !matches!(r, Err(ScImpErr::ProjectionBasisMismatch { .. })) {
                    fail(o, "C20.wsc.foreign-root-accepted.self-contained".into(), "import under another WAL root not refused with ProjectionBasisMismatch".into());
                }
                o.tags.push("imp:foreign-root".into());
            } else {
                judge_sc(o, "import", &shown.ms, &shown.rs, &shown.ps, &sc_imp_verdict(r));
                if let Ok(i) = r {
                    check_sc_import_content(o, "import", i, &shown.ms, &shown.rs, &shown.ps);
                }
            }
        }
        Imported::Skipped | Imported::Unbuildable => {}
        _ => return Err("profile/import mismatch".into()),
    }
    // ---- sweep: every payload of an importable set, under every posture of its record, corrupted in
    // every byte-position class / withheld / re-filed under an unknown digest
    if let (true, Imported::Sc(Ok(_)), Some(ps0)) = (c.same_root, im, canon_pays(&shown.ps)) {
        let expected = root_of(900);
        for (k, p) in ps0.iter().enumerate() {
            for posture in POSTURES {
                let ms: Vec<Rec> =
                    shown.ms.iter().map(|m| if m.material_digest == p.material.material_digest { Rec { posture, ..*m } } else { *m }).collect();
                let mut side = Side { ms, rs: shown.rs.clone(), ps: ps0.clone(), refs: Vec::new() };
                let pn = posture_name(posture);
                // intact: accepted whatever the posture, and handed back intact
                match assemble_sc(&side)? {
                    Some(x) => match validate_wsc_self_contained_wal_export(&x, &expected) {
                        Ok(i) => check_sc_import_content(o, "sweep intact", &i, &side.ms, &side.rs, &side.ps),
                        Err(err) => fail(o, "C20.wsc.valid-refused.self-contained.import".into(), format!("sweep: intact payload under a {pn} record refused: {err}")),
                    },
                    None => continue,
                }
                for (cn, bad) in corruptions(&p.material_bytes) {
                    side.ps[k].material_bytes = bad.clone();
                    let want = (p.material.material_digest, b3(&bad));
                    // import side
                    if let Some(x) = assemble_sc(&side)? {
                        match validate_wsc_self_contained_wal_export(&x, &expected) {
                            Err(ScImpErr::RetainedMaterialDigestMismatch { expected, actual }) if (expected, actual) == want => {}
                            Ok(_) => fail(
                                o,
                                format!("C20.wsc.payload-digest-unchecked.{pn}"),
                                format!("sweep import: payload of a {pn} record corrupted ({cn}: {}) and still imported as digest {}", hex(&bad), hex(&want.0)),
                            ),
                            Err(err) => fail(o, "C20.wsc.wrong-obstruction.self-contained".into(), format!("sweep import ({pn}, {cn}): {err}")),
                        }
                    }
                    // export side
                    match wsc_self_contained_wal_export(&expected, &[], &side.ps, records(&side)) {
                        Err(ScExpErr::RetainedMaterialDigestMismatch { expected, actual }) if (expected, actual) == want => {}
                        Ok(_) => fail(
                            o,
                            format!("C20.wsc.payload-digest-unchecked.{pn}"),
                            format!("sweep export: payload of a {pn} record corrupted ({cn}: {}) and still exported as digest {}", hex(&bad), hex(&want.0)),
                        ),
                        Err(err) => fail(o, "C20.wsc.wrong-obstruction.self-contained".into(), format!("sweep export ({pn}, {cn}): {err}")),
                    }
                    o.tags.push(format!("sweep:{pn}:{cn}"));
                }
                side.ps[k].material_bytes = p.material_bytes.clone();
                // withheld: an obstruction exactly when the record is Present
                let mut less = side.clone();
                less.ps.remove(k);
                if let Some(x) = assemble_sc(&less)? {
                    let r = validate_wsc_self_contained_wal_export(&x, &expected);
                    let recorded_present = less.ms.iter().any(|m| m.material_digest == p.material.material_digest && m.posture == Posture::Present);
                    match (&r, recorded_present) {
                        (Err(ScImpErr::MissingRetainedMaterial { material_digest }), true) if *material_digest == p.material.material_digest => {}
                        (Ok(i), false) => {
                            if i.retained_payloads.iter().any(|q| q.material.material_digest == p.material.material_digest) {
                                fail(o, "C20.wsc.withheld-invented.self-contained".into(), format!("sweep: withheld payload of a {pn} record came back"));
                            }
                        }
                        (Ok(_), true) => fail(o, "C20.wsc.withheld-accepted.self-contained".into(), "sweep: Present record without payload imported".into()),
                        (Err(err), _) => fail(o, "C20.wsc.wrong-obstruction.self-contained".into(), format!("sweep withheld ({pn}): {err}")),
                    }
                    o.tags.push(format!("sweep:{pn}:withheld"));
                }
                // unknown digest: the record disappears, the payload stays
                let mut orphan = side.clone();
                orphan.ms.retain(|m| m.material_digest != p.material.material_digest);
                if let Some(x) = assemble_sc(&orphan)? {
                    match validate_wsc_self_contained_wal_export(&x, &expected) {
                        Err(ScImpErr::ExtraRetainedMaterial { material_digest }) if material_digest == p.material.material_digest => {}
                        Ok(_) => fail(o, "C20.wsc.unknown-digest-accepted.self-contained".into(), "sweep: payload without a record imported".into()),
                        Err(err) => fail(o, "C20.wsc.wrong-obstruction.self-contained".into(), format!("sweep unknown digest ({pn}): {err}")),
                    }
                    o.tags.push(format!("sweep:{pn}:unknown-digest"));
                }
            }
        }
    }
    Ok(())
}

/// CAS profile: the references must be exactly the Present records; on import every referenced blob is
/// present, hashes to the reference and has its length.
fn judge_cas_refs(ms: &[Rec], refs: &[CasRef]) -> bool {
    let want: BTreeSet<(usize, H32, H32)> =
        ms.iter().filter(|m| m.posture == Posture::Present).map(|m| (kind_code(m.kind), m.material_digest, m.semantic_coordinate_digest)).collect();
    let got: BTreeSet<(usize, H32, H32)> = refs.iter().map(|r| (kind_code(r.material_kind), r.content_hash, r.semantic_coordinate_digest)).collect();
    want == got
}

fn cas_blob_faults(refs: &[CasRef], cas: &BTreeMap<H32, Vec<u8>>) -> Vec<(&'static str, CasRef)> {
    let mut v = Vec::new();
    for r in refs {
        match cas.get(&r.content_hash) {
            None => v.push(("missing", *r)),
            Some(b) if b3(b) != r.content_hash => v.push(("hash", *r)),
            Some(b) if b.len() as u64 != r.byte_len => v.push(("len", *r)),
            _ => {}
        }
    }
    v
}

fn judge_cas_import(
    o: &mut OracleOut,
    at: &str,
    r: &Result<WscCasAddressedWalImport, CasImpErr>,
    ms: &[Rec],
    rs: &[ReadingRefRecord],
    refs: &[CasRef],
    cas: &BTreeMap<H32, Vec<u8>>,
) {
    let faults = cas_blob_faults(refs, cas);
    let refs_ok = judge_cas_refs(ms, refs);
    let conflict = canon_refs(refs).is_none() || canon_records(ms, rs).is_none();
    match r {
        Ok(i) => {
            if let Some((what, f)) = faults.first() {
                fail(
                    o,
                    format!("C20.wsc.cas-blob-unchecked.{what}"),
                    format!("{at}: import accepted although the blob of reference {} is {what}-faulty", hex(&f.content_hash)),
                );
            }
            if !refs_ok {
                fail(o, "C20.wsc.cas-refs-mismatch-accepted".into(), format!("{at}: CAS references are not exactly the Present records, yet imported"));
            }
            if conflict {
                fail(o, "C20.wsc.alias-accepted.cas-addressed".into(), format!("{at}: conflicting items imported"));
            }
            if Some(&i.cas_references.retained_materials) != canon_refs(refs).as_ref() || Some(&i.retention) != canon_records(ms, rs).as_ref() {
                fail(o, "C20.wsc.reimport-differs.cas-addressed".into(), format!("{at}: imported references/records differ from the exported ones"));
            }
            for m in &i.retention.materials {
                let referenced = i.cas_references.retained_materials.iter().any(|x| x.content_hash == m.material_digest);
                if referenced != (m.posture == Posture::Present) {
                    fail(o, "C20.wsc.cas-refs-mismatch-accepted".into(), format!("{at}: a {} record is {}referenced", posture_name(m.posture), if referenced { "" } else { "un" }));
                }
            }
        }
        Err(e) => {
            let named_real = match e {
                CasImpErr::MissingCasBlob { content_hash, semantic_coordinate_digest } => {
                    faults.iter().any(|(w, f)| *w == "missing" && f.content_hash == *content_hash && f.semantic_coordinate_digest == *semantic_coordinate_digest)
                }
                CasImpErr::CasBlobHashMismatch { expected, actual } => {
                    faults.iter().any(|(w, f)| *w == "hash" && f.content_hash == *expected && cas.get(expected).is_some_and(|b| b3(b) == *actual))
                }
                CasImpErr::CasBlobLengthMismatch { expected, actual } => {
                    faults.iter().any(|(w, f)| *w == "len" && f.byte_len == *expected && cas.get(&f.content_hash).is_some_and(|b| b.len() as u64 == *actual))
                }
                CasImpErr::RetainedCasReferenceMismatch { .. } => !refs_ok,
                CasImpErr::CasReferences(ob) | CasImpErr::Retention(ob) => is_dup(ob).is_some() && conflict,
                _ => false,
            };
            if faults.is_empty() && refs_ok && !conflict {
                fail(o, "C20.wsc.valid-refused.cas-addressed.import".into(), format!("{at}: {e}"));
            } else if !named_real {
                fail(o, "C20.wsc.wrong-obstruction.cas-addressed".into(), format!("{at}: {e} names no real fault"));
            }
        }
    }
}

fn oracle_cas(c: &Case, ex: &Result<WscCasAddressedWalExport, CasExpErr>, im: &Imported, o: &mut OracleOut) -> Result<(), String> {
    let e = &c.exp;
    let refs_ok = judge_cas_refs(&e.ms, &e.refs);
    let conflict = canon_refs(&e.refs).is_none() || canon_records(&e.ms, &e.rs).is_none();
    match ex {
        Ok(x) => {
            if !refs_ok {
                fail(o, "C20.wsc.cas-refs-mismatch-accepted".into(), "export: CAS references are not exactly the Present records".into());
            }
            if conflict {
                fail(o, "C20.wsc.alias-accepted.cas-addressed".into(), "export: conflicting items exported".into());
            }
            if let Some(refs) = canon_refs(&e.refs) {
                if enc_cas_ref_env(&refs)? != x.cas_reference_envelope {
                    fail(o, "C20.wsc.export-envelope-differs.cas-addressed".into(), "CAS reference envelope is not the canonical encoding of the references".into());
                }
            }
        }
        Err(err) => {
            if refs_ok && !conflict {
                fail(o, "C20.wsc.valid-refused.cas-addressed.export".into(), format!("{err}"));
            }
            match err {
                CasExpErr::RetainedCasReferenceMismatch { .. } if !refs_ok => {}
                CasExpErr::CasReferences(ob) | CasExpErr::Retention(ob) if is_dup(ob).is_some() && conflict => {}
                _ => fail(o, "C20.wsc.wrong-obstruction.cas-addressed".into(), format!("export: {err}")),
            }
        }
    }
    let shown: &Side = c.alt.as_ref().unwrap_or(e);
    match im {
        Imported::Cas(r) => {
            if !c.same_root {
                if !matches!(r, Err(CasImpErr::ProjectionBasisMismatch { .. })) {
                    fail(o, "C20.wsc.foreign-root-accepted.cas-addressed".into(), "import under another WAL root not refused with ProjectionBasisMismatch".into());
                }
                o.tags.push("imp:foreign-root".into());
            } else {
                judge_cas_import(o, "import", r, &shown.ms, &shown.rs, &shown.refs, &c.cas);
            }
        }
        Imported::Skipped | Imported::Unbuildable => {}
        _ => return Err("profile/import mismatch".into()),
    }
    // ---- sweep: every referenced blob withheld / corrupted per byte-position class / wrong length;
    // every non-Present posture must carry no reference
    if let (true, Imported::Cas(Ok(_)), Some(x)) = (c.same_root, im, assemble_cas(shown)?) {
        let expected = root_of(900);
        for r in canon_refs(&shown.refs).unwrap_or_default() {
            let Some(good) = c.cas.get(&r.content_hash).cloned() else { continue };
            let mut cas = c.cas.clone();
            cas.remove(&r.content_hash);
            judge_cas_import(o, "sweep withheld", &validate_wsc_cas_addressed_wal_export(&x, &expected, &MapCas(&cas)), &shown.ms, &shown.rs, &shown.refs, &cas);
            o.tags.push("sweep:cas:withheld".into());
            for (cn, bad) in corruptions(&good) {
                cas.insert(r.content_hash, bad);
                let res = validate_wsc_cas_addressed_wal_export(&x, &expected, &MapCas(&cas));
                if res.is_ok() {
                    fail(o, "C20.wsc.cas-blob-unchecked.hash".into(), format!("sweep: blob {} corrupted ({cn}) and still accepted", hex(&r.content_hash)));
                }
                judge_cas_import(o, "sweep corrupt", &res, &shown.ms, &shown.rs, &shown.refs, &cas);
                o.tags.push(format!("sweep:cas:{cn}"));
            }
            // posture sweep: the same record under a non-Present posture must not be referenced
            for posture in POSTURES.iter().skip(1) {
                let ms: Vec<Rec> = shown.ms.iter().map(|m| if m.material_digest == r.content_hash { Rec { posture: *posture, ..*m } } else { *m }).collect();
                let side = Side { ms, rs: shown.rs.clone(), ps: Vec::new(), refs: shown.refs.clone() };
                if let Some(y) = assemble_cas(&side)? {
                    let res = validate_wsc_cas_addressed_wal_export(&y, &expected, &MapCas(&c.cas));
                    judge_cas_import(o, "sweep posture", &res, &side.ms, &side.rs, &side.refs, &c.cas);
                    if res.is_ok() {
                        fail(o, "C20.wsc.cas-refs-mismatch-accepted".into(), format!("sweep: a {} record carries a CAS reference and is imported", posture_name(*posture)));
                    }
                }
                if wsc_cas_addressed_wal_export(&expected, &[], &side.refs, records(&side)).is_ok() {
                    fail(o, "C20.wsc.cas-refs-mismatch-accepted".into(), format!("sweep: a {} record carries a CAS reference and is exported", posture_name(*posture)));
                }
                o.tags.push(format!("sweep:cas:{}", posture_name(*posture)));
            }
        }
    }
    Ok(())
}

fn oracle_ref(c: &Case, ex: &Result<WscRefOnlyWalExport, RefExpErr>, im: &Imported, o: &mut OracleOut) -> Result<(), String> {
    let e = &c.exp;
    let want = canon_records(&e.ms, &e.rs);
    match (ex, &want) {
        (Ok(_), Some(_)) => {}
        (Ok(_), None) => fail(o, "C20.wsc.alias-accepted.ref-only".into(), "export: conflicting records exported".into()),
        (Err(RefExpErr::Envelope(ob)), None) if is_dup(ob).is_some() => {}
        (Err(err), None) => fail(o, "C20.wsc.wrong-obstruction.ref-only".into(), format!("export: {err}")),
        (Err(err), Some(_)) => fail(o, "C20.wsc.valid-refused.ref-only.export".into(), format!("{err}")),
    }
    let shown: &Side = c.alt.as_ref().unwrap_or(e);
    match im {
        Imported::Ref(r) => {
            if !c.same_root {
                if !matches!(r, Err(RefImpErr::ProjectionBasisMismatch { .. })) {
                    fail(o, "C20.wsc.foreign-root-accepted.ref-only".into(), "import under another WAL root not refused with ProjectionBasisMismatch".into());
                }
                o.tags.push("imp:foreign-root".into());
            } else {
                match (r, canon_records(&shown.ms, &shown.rs)) {
                    (Ok(i), Some(w)) => {
                        if i.retention != w {
                            fail(o, "C20.wsc.reimport-differs.ref-only".into(), "imported records differ from the exported ones".into());
                        }
                        if !i.segment_dependencies.is_empty() {
                            fail(o, "C20.wsc.reimport-differs.ref-only".into(), "segment dependencies invented for a root without segments".into());
                        }
                    }
                    (Ok(_), None) => fail(o, "C20.wsc.alias-accepted.ref-only".into(), "import: conflicting records imported".into()),
                    (Err(err), Some(_)) => fail(o, "C20.wsc.valid-refused.ref-only.import".into(), format!("{err}")),
                    (Err(_), None) => {}
                }
            }
        }
        Imported::Skipped | Imported::Unbuildable => {}
        _ => return Err("profile/import mismatch".into()),
    }
    Ok(())
}

fn oracle_exp(t: &mut Toks, _tier: Tier) -> Result<OracleOut, String> {
    let c = parse_case(t)?;
    let mut o = OracleOut::default();
    let ex = run_export(&c);
    let im = run_import(&c, &ex)?;
    o.tags.push(format!("prof:{}", prof_name(c.prof)));
    // outcome class: `ok`, or `err-<class>` (operands dropped)
    let class = |s: String| -> String {
        let mut w = s.split(' ');
        match (w.next(), w.next()) {
            (Some("err"), Some(c)) => format!("err-{c}"),
            (Some(a), _) => a.to_string(),
            _ => String::new(),
        }
    };
    o.tags.push(format!("exp:{}", class(export_s(&ex))));
    o.tags.push(format!("imp:{}", class(import_s(&im))));
    o.tags.push(if c.alt.is_some() { "imode:alt".into() } else { "imode:same".into() });
    for side in std::iter::once(&c.exp).chain(c.alt.iter()) {
        for m in &side.ms {
            let st = match c.prof {
                's' => match side.ps.iter().find(|p| p.material.material_digest == m.material_digest) {
                    None => "withheld",
                    Some(p) if b3(&p.material_bytes) == m.material_digest => "embedded-intact",
                    Some(_) => "embedded-corrupt",
                },
                'c' => match side.refs.iter().find(|r| r.content_hash == m.material_digest) {
                    None => "unreferenced",
                    Some(r) => match c.cas.get(&r.content_hash) {
                        None => "ref-blob-withheld",
                        Some(b) if b3(b) != r.content_hash => "ref-blob-corrupt",
                        Some(b) if b.len() as u64 != r.byte_len => "ref-len-wrong",
                        Some(_) => "ref-blob-intact",
                    },
                },
                _ => "record-only",
            };
            o.tags.push(format!("{}:{}:{st}", c.prof, posture_name(m.posture)));
        }
        if c.prof == 's' && side.ps.iter().any(|p| !side.ms.iter().any(|m| m.material_digest == p.material.material_digest)) {
            o.tags.push("s:unknown-digest".into());
        }
        if c.prof == 'c' && side.refs.iter().any(|r| !side.ms.iter().any(|m| m.material_digest == r.content_hash)) {
            o.tags.push("c:unknown-digest".into());
        }
    }
    match &ex {
        Exported::Sc(r) => oracle_sc(&c, r, &im, &mut o)?,
        Exported::Cas(r) => oracle_cas(&c, r, &im, &mut o)?,
        Exported::Ref(r) => oracle_ref(&c, r, &im, &mut o)?,
    }
    o.tags.sort();
    o.tags.dedup();
    o.nontrivial = !c.exp.ms.is_empty() && !matches!(im, Imported::Skipped | Imported::Unbuildable);
    Ok(o)
}

// ------------------------------------------------------------------ generator

struct LineB {
    dict: Dict,
}

impl LineB {
    fn blob(&mut self, b: Vec<u8>) -> usize {
        if let Some(i) = self.dict.iter().position(|p| p.0 == b) {
            return i;
        }
        let h = b3(&b);
        self.dict.push((b, h));
        self.dict.len() - 1
    }
    fn href(&self, h: &H32) -> String {
        match self.dict.iter().position(|p| p.1 == *h) {
            Some(i) => format!("h{i}"),
            None => hex(h),
        }
    }
}

/// A payload / record / reference of the generator: bytes by dictionary index.
#[derive(Clone)]
struct GSide {
    ms: Vec<Rec>,
    rs: Vec<ReadingRefRecord>,
    ps: Vec<(Rec, usize)>,
    refs: Vec<CasRef>,
}

fn side_s(lb: &LineB, s: &GSide) -> String {
    let rec = |m: &Rec| format!("{} {} {} {}", lb.href(&m.material_digest), hex(&m.semantic_coordinate_digest), kind_code(m.kind), posture_code(m.posture));
    let mut o = format!("{}", s.ms.len());
    for m in &s.ms {
        o.push_str(&format!(" {}", rec(m)));
    }
    o.push_str(&format!(" {}", s.rs.len()));
    for x in &s.rs {
        o.push_str(&format!(
            " {} {} {} {} {}",
            hex(&x.reading_id),
            hex(&x.semantic_coordinate_digest),
            hex(&x.payload_digest),
            hex(&x.envelope_digest),
            posture_code(x.posture)
        ));
    }
    o.push_str(&format!(" {}", s.ps.len()));
    for (m, b) in &s.ps {
        o.push_str(&format!(" {} {b}", rec(m)));
    }
    o.push_str(&format!(" {}", s.refs.len()));
    for r in &s.refs {
        o.push_str(&format!(" {} {} {} {}", kind_code(r.material_kind), lb.href(&r.content_hash), hex(&r.semantic_coordinate_digest), r.byte_len));
    }
    o
}

fn line(prof: char, same_root: bool, lb: &LineB, exp: &GSide, alt: Option<&GSide>, cas: &[(H32, usize)]) -> String {
    let mut o = format!("{prof} {} {}", u8::from(same_root), lb.dict.len());
    for (b, h) in &lb.dict {
        o.push_str(&format!(" {} {}", hex(b), hex(h)));
    }
    o.push_str(&format!(" {}", side_s(lb, exp)));
    match alt {
        None => o.push_str(" same"),
        Some(a) => o.push_str(&format!(" alt {}", side_s(lb, a))),
    }
    o.push_str(&format!(" {}", cas.len()));
    for (h, b) in cas {
        o.push_str(&format!(" {} {b}", lb.href(h)));
    }
    o
}

const PAY_STATES: [&str; 10] = ["intact", "first", "middle", "last", "truncated", "extended", "emptied", "swapped", "withheld", "unknown-digest"];

/// One cell of the matrix posture × payload state × profile × side.
fn matrix_case(prof: char, posture: Posture, state: &str, on_import: bool, kind: Kind, salt: u64) -> String {
    let mut lb = LineB { dict: Vec::new() };
    let good: Vec<u8> = format!("retained payload {salt:02}").into_bytes();
    let other: Vec<u8> = format!("another payload {salt:02}").into_bytes();
    let gi = lb.blob(good.clone());
    let oi = lb.blob(other.clone());
    let d = b3(&good);
    let anchor = Rec { material_digest: b3(&other), semantic_coordinate_digest: small_id(70), kind: Kind::ReadingPayload, posture: Posture::Present };
    let target = Rec { material_digest: d, semantic_coordinate_digest: small_id(71), kind, posture };
    let honest = GSide {
        ms: vec![anchor, target],
        rs: Vec::new(),
        ps: if prof == 's' { vec![(anchor, oi), (target, gi)] } else { Vec::new() },
        refs: if prof == 'c' {
            let mut v = vec![CasRef { material_kind: anchor.kind, content_hash: anchor.material_digest, semantic_coordinate_digest: anchor.semantic_coordinate_digest, byte_len: other.len() as u64 }];
            if posture == Posture::Present {
                v.push(CasRef { material_kind: kind, content_hash: d, semantic_coordinate_digest: target.semantic_coordinate_digest, byte_len: good.len() as u64 });
            }
            v
        } else {
            Vec::new()
        },
    };
    let mut bad = honest.clone();
    let mut cas: Vec<(H32, usize)> = vec![(anchor.material_digest, oi), (d, gi)];
    let corrupt = |lb: &mut LineB| -> usize {
        let c = corruptions(&good).into_iter().find(|(n, _)| *n == state).map(|(_, b)| b).unwrap_or_else(|| other.clone());
        lb.blob(c)
    };
    match (prof, state) {
        (_, "intact") => {}
        ('s', "withheld") => bad.ps.retain(|p| p.0.material_digest != d),
        ('s', "unknown-digest") => bad.ms.retain(|m| m.material_digest != d),
        ('s', _) => {
            let ci = corrupt(&mut lb);
            for p in &mut bad.ps {
                if p.0.material_digest == d {
                    p.1 = ci;
                }
            }
        }
        ('c', "withheld") => cas.retain(|x| x.0 != d),
        ('c', "unknown-digest") => {
            bad.ms.retain(|m| m.material_digest != d);
            if !bad.refs.iter().any(|r| r.content_hash == d) {
                bad.refs.push(CasRef { material_kind: kind, content_hash: d, semantic_coordinate_digest: target.semantic_coordinate_digest, byte_len: good.len() as u64 });
            }
        }
        ('c', _) => {
            // the blob stored under the digest is corrupt; a non-Present record additionally gets a reference
            let ci = corrupt(&mut lb);
            for x in &mut cas {
                if x.0 == d {
                    x.1 = ci;
                }
            }
            if !bad.refs.iter().any(|r| r.content_hash == d) {
                bad.refs.push(CasRef { material_kind: kind, content_hash: d, semantic_coordinate_digest: target.semantic_coordinate_digest, byte_len: good.len() as u64 });
            }
        }
        _ => {}
    }
    if on_import {
        line(prof, true, &lb, &honest, Some(&bad), &cas)
    } else {
        line(prof, true, &lb, &bad, None, &cas)
    }
}

fn gen_exp(rng: &mut Rng, tier: Tier) -> Vec<String> {
    let mut out = Vec::new();
    // ---- the full matrix: posture × payload state × profile × {export, import}
    let mut salt = 0;
    for prof in ['s', 'c', 'r'] {
        for posture in POSTURES {
            for state in PAY_STATES {
                if prof == 'r' && state != "intact" {
                    continue;
                }
                for on_import in [false, true] {
                    salt += 1;
                    let kind = KINDS[(salt as usize) % KINDS.len()];
                    out.push(matrix_case(prof, posture, state, on_import, kind, salt % 7));
                }
            }
        }
    }
    // ---- random record sets around a tiny blob universe
    let n = if tier == Tier::Thorough { 3000 } else { 260 };
    for _ in 0..n {
        let prof = *rng.pick(&['s', 's', 's', 'c', 'c', 'r']);
        let mut lb = LineB { dict: Vec::new() };
        let nb = rng.range(2, 4);
        let blobs: Vec<Vec<u8>> = (0..nb)
            .map(|i| match rng.below(6) {
                0 => Vec::new(),
                1 => vec![i as u8],
                _ => {
                    let len = rng.range(1, 12) as usize;
                    let mut b = rng.bytes(len);
                    b[0] = i as u8;
                    b
                }
            })
            .collect();
        // dictionary index of each blob (equal blobs share one entry)
        let ix: Vec<usize> = blobs.iter().map(|b| lb.blob(b.clone())).collect();
        let mk_side = |rng: &mut Rng, lb: &mut LineB| -> GSide {
            let mut s = GSide { ms: Vec::new(), rs: Vec::new(), ps: Vec::new(), refs: Vec::new() };
            for (bi, b) in blobs.iter().enumerate() {
                if rng.chance(1, 5) {
                    continue;
                }
                let m = Rec {
                    material_digest: if rng.chance(1, 12) { small_id(rng.below(3)) } else { b3(b) },
                    semantic_coordinate_digest: small_id(60 + bi as u64),
                    kind: KINDS[if rng.chance(1, 3) { rng.below(7) as usize } else { 4 }],
                    posture: POSTURES[if rng.chance(1, 2) { rng.below(6) as usize } else { 0 }],
                };
                s.ms.push(m);
                if rng.chance(1, 30) {
                    // the same digest re-filed under another coordinate: an alias, must be refused
                    s.ms.push(Rec { semantic_coordinate_digest: small_id(69), ..m });
                }
                // self-contained payload
                let embed = if m.posture == Posture::Present { !rng.chance(1, 8) } else { rng.chance(1, 2) };
                if prof == 's' && embed {
                    let bytes_ix = match rng.below(10) {
                        0 => {
                            let cs = corruptions(b);
                            let c = rng.pick(&cs).1.clone();
                            lb.blob(c)
                        }
                        1 => ix[rng.below(blobs.len() as u64) as usize],
                        _ => ix[bi],
                    };
                    let pm = if rng.chance(1, 12) { Rec { posture: POSTURES[rng.below(6) as usize], ..m } } else { m };
                    s.ps.push((pm, bytes_ix));
                    if rng.chance(1, 10) {
                        s.ps.push((pm, if rng.chance(1, 2) { bytes_ix } else { ix[rng.below(blobs.len() as u64) as usize] }));
                    }
                }
                let refer = if m.posture == Posture::Present { !rng.chance(1, 16) } else { rng.chance(1, 12) };
                if prof == 'c' && refer {
                    s.refs.push(CasRef {
                        material_kind: if rng.chance(1, 24) { KINDS[rng.below(7) as usize] } else { m.kind },
                        content_hash: m.material_digest,
                        semantic_coordinate_digest: if rng.chance(1, 24) { small_id(68) } else { m.semantic_coordinate_digest },
                        byte_len: if rng.chance(1, 10) { rng.below(14) } else { b.len() as u64 },
                    });
                }
            }
            if prof == 's' && rng.chance(1, 8) {
                // a payload nobody recorded
                let bi = rng.below(blobs.len() as u64) as usize;
                s.ps.push((Rec { material_digest: b3(&blobs[bi]), semantic_coordinate_digest: small_id(67), kind: Kind::Diagnostic, posture: Posture::Present }, ix[bi]));
            }
            for _ in 0..rng.below(3) {
                s.rs.push(ReadingRefRecord {
                    reading_id: small_id(20 + rng.below(2)),
                    semantic_coordinate_digest: small_id(30 + if rng.chance(1, 16) { 1 } else { 0 }),
                    payload_digest: small_id(40),
                    envelope_digest: small_id(50),
                    posture: POSTURES[if rng.chance(1, 4) { rng.below(6) as usize } else { 0 }],
                });
            }
            rng.shuffle(&mut s.ms);
            rng.shuffle(&mut s.ps);
            rng.shuffle(&mut s.refs);
            s
        };
        let exp = mk_side(rng, &mut lb);
        let alt = if rng.chance(1, 3) { Some(mk_side(rng, &mut lb)) } else { None };
        let mut cas: Vec<(H32, usize)> = Vec::new();
        if prof == 'c' {
            for (bi, b) in blobs.iter().enumerate() {
                match rng.below(10) {
                    0 => {}
                    1 => {
                        let cs = corruptions(b);
                        let c = rng.pick(&cs).1.clone();
                        cas.push((b3(b), lb.blob(c)));
                    }
                    _ => cas.push((b3(b), ix[bi])),
                }
            }
            cas.dedup_by_key(|x| x.0);
            let mut seen = BTreeSet::new();
            cas.retain(|x| seen.insert(x.0));
        }
        out.push(line(prof, !rng.chance(1, 12), &lb, &exp, alt.as_ref(), &cas));
    }
    out
}
