//! Token helpers shared by every stream.
pub fn hex(bs: &[u8]) -> String {
    if bs.is_empty() {
        "-".to_string()
    } else {
        hex::encode(bs)
    }
}
pub fn unhex(s: &str) -> Result<Vec<u8>, String> {
    if s == "-" {
        Ok(Vec::new())
    } else {
        hex::decode(s).map_err(|e| format!("bad hex {s}: {e}"))
    }
}
pub fn id32(s: &str) -> Result<[u8; 32], String> {
    let v = unhex(s)?;
    <[u8; 32]>::try_from(v.as_slice()).map_err(|_| format!("id not 32 bytes: {s}"))
}
/// A 32-byte id that is all zero except the last byte(s): small universes collide on purpose.
pub fn small_id(n: u64) -> [u8; 32] {
    let mut b = [0u8; 32];
    b[24..32].copy_from_slice(&n.to_be_bytes());
    b
}
pub struct Toks<'a> {
    pub t: Vec<&'a str>,
    pub i: usize,
}
impl<'a> Toks<'a> {
    pub fn new(line: &'a str) -> Self {
        Toks { t: line.split_ascii_whitespace().collect(), i: 0 }
    }
    pub fn next(&mut self) -> Result<&'a str, String> {
        let r = self.t.get(self.i).copied().ok_or_else(|| "eol".to_string())?;
        self.i += 1;
        Ok(r)
    }
    pub fn num(&mut self) -> Result<u64, String> {
        let s = self.next()?;
        s.parse::<u64>().map_err(|e| format!("bad num {s}: {e}"))
    }
    pub fn bytes(&mut self) -> Result<Vec<u8>, String> {
        unhex(self.next()?)
    }
    pub fn id(&mut self) -> Result<[u8; 32], String> {
        id32(self.next()?)
    }
    pub fn done(&self) -> bool {
        self.i >= self.t.len()
    }
}

/// Replace every hash-expression tree `(h part…)` (BLAKE3) / `(s part…)` (SHA-256) in a line by
/// the hex digest of the concatenation of its parts, innermost first.
pub fn hashx_line(line: &str) -> String {
    fn eval(toks: &[&str], i: &mut usize) -> Result<Vec<u8>, String> {
        // toks[*i] is "(h" or "(s"
        let kind = toks[*i];
        *i += 1;
        let mut buf: Vec<u8> = Vec::new();
        loop {
            if *i >= toks.len() {
                return Err("unterminated".into());
            }
            let t = toks[*i];
            if t == "(h" || t == "(s" {
                let d = eval(toks, i)?;
                buf.extend_from_slice(&d);
            } else if t == ")" {
                *i += 1;
                break;
            } else {
                buf.extend_from_slice(&unhex(t)?);
                *i += 1;
            }
        }
        if kind == "(h" {
            Ok(blake3::hash(&buf).as_bytes().to_vec())
        } else {
            use sha2::Digest;
            Ok(sha2::Sha256::digest(&buf).to_vec())
        }
    }
    // make parentheses their own tokens (closing ones)
    let spaced = line.replace(')', " ) ");
    let toks: Vec<&str> = spaced.split_ascii_whitespace().collect();
    let mut out: Vec<String> = Vec::new();
    let mut i = 0;
    while i < toks.len() {
        if toks[i] == "(h" || toks[i] == "(s" {
            match eval(&toks, &mut i) {
                Ok(d) => out.push(hex::encode(d)),
                Err(e) => {
                    out.push(format!("hashx-error:{e}"));
                    break;
                }
            }
        } else {
            out.push(toks[i].to_string());
            i += 1;
        }
    }
    out.join(" ")
}
