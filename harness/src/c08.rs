//! C08 — ingress is content-addressed, idempotent and order-free.
//! Real code: `IngressEnvelope::local_intent_with_causal_parents` (ingress id), `HeadInbox`
//! (`ingest`/`admit`/`can_admit`/`set_policy`), `WorldlineRuntime::ingest` / `submit_intent` /
//! `ingest_ticketed_invocation`, `SchedulerCoordinator::super_tick`, and the restart path
//! `restore_witnessed_submission_persistence` + `restore_causal_runtime_history`.
use crate::prng::Rng;
use crate::util::{hex, small_id, Toks};
use crate::{OracleOut, Stream, Tier};
use std::collections::{BTreeMap, BTreeSet};
use warp_core::{
    make_node_id, make_type_id, CausalTickReceiptRef, Engine, EngineBuilder, GlobalTick, GraphStore, HeadId,
    HeadInbox, InboxAddress, InboxPolicy, IngressCausalParent, IngressDisposition, IngressEnvelope,
    IngressTarget, IntentKind, IntentSubmissionDisposition, NodeRecord, OpticAdmissionTicket,
    OpticArtifactHandle, PlaybackMode, ProvenanceEntry, ProvenanceService, ProvenanceStore,
    ReceiptCorrelationPersistenceRecord, RuntimeError, SchedulerCoordinator, StepRecord,
    TicketedRuntimeIngressAuthority, WorldlineId, WorldlineRuntime, WorldlineState, WorldlineTick, WriterHead,
    WriterHeadKey,
};

pub fn streams() -> Vec<Stream> {
    vec![
        Stream { name: "C08.inbox", gen: gen_inbox, imp: imp_inbox, oracle: oracle_inbox },
        Stream { name: "C08.runtime", gen: gen_runtime, imp: imp_runtime, oracle: oracle_runtime },
    ]
}

type Id = [u8; 32];

// ------------------------------------------------------------------ case-line vocabulary

#[derive(Clone, Debug, PartialEq, Eq)]
enum Pol {
    All,
    Budget(u32),
    Kinds(Vec<Id>),
}

impl Pol {
    fn real(&self) -> InboxPolicy {
        match self {
            Pol::All => InboxPolicy::AcceptAll,
            Pol::Budget(n) => InboxPolicy::Budgeted { max_per_tick: *n },
            Pol::Kinds(ks) => InboxPolicy::KindFilter(ks.iter().map(|k| IntentKind::from_hash(*k)).collect()),
        }
    }
    fn tok(&self) -> String {
        match self {
            Pol::All => "all".into(),
            Pol::Budget(n) => format!("budget {n}"),
            Pol::Kinds(ks) => {
                let mut s = format!("kinds {}", ks.len());
                for k in ks {
                    s.push(' ');
                    s.push_str(&hex(k));
                }
                s
            }
        }
    }
    fn tag(&self) -> &'static str {
        match self {
            Pol::All => "pol:all",
            Pol::Budget(0) => "pol:budget0",
            Pol::Budget(_) => "pol:budget",
            Pol::Kinds(_) => "pol:kinds",
        }
    }
}

fn parse_pol(t: &mut Toks) -> Result<Pol, String> {
    match t.next()? {
        "all" => Ok(Pol::All),
        "budget" => {
            let n = t.num()?;
            u32::try_from(n).map(Pol::Budget).map_err(|_| "budget > u32".to_string())
        }
        "kinds" => {
            let n = t.num()?;
            let mut ks = Vec::new();
            for _ in 0..n {
                ks.push(t.id()?);
            }
            Ok(Pol::Kinds(ks))
        }
        o => Err(format!("bad policy {o}")),
    }
}

#[derive(Clone, Debug, PartialEq, Eq)]
struct Par {
    role: u64,
    wl: Id,
    wt: u64,
    gt: u64,
    c: Id,
    s: Id,
    t: Id,
    r: Id,
}

impl Par {
    fn real(&self) -> IngressCausalParent {
        let receipt_ref = CausalTickReceiptRef {
            worldline_id: WorldlineId::from_bytes(self.wl),
            worldline_tick_after: WorldlineTick::from_raw(self.wt),
            commit_global_tick: GlobalTick::from_raw(self.gt),
            commit_hash: self.c,
            submission_id: self.s,
            ticket_digest: self.t,
            receipt_content_digest: self.r,
        };
        if self.role == 0 {
            IngressCausalParent::TickReceipt { receipt_ref }
        } else {
            IngressCausalParent::ContractInverseTarget { receipt_ref }
        }
    }
    fn tok(&self) -> String {
        format!(
            "{} {} {} {} {} {} {} {}",
            self.role,
            hex(&self.wl),
            self.wt,
            self.gt,
            hex(&self.c),
            hex(&self.s),
            hex(&self.t),
            hex(&self.r)
        )
    }
}

fn parse_par(t: &mut Toks) -> Result<Par, String> {
    let role = t.num()?;
    if role > 1 {
        return Err("bad role".into());
    }
    Ok(Par { role, wl: t.id()?, wt: t.num()?, gt: t.num()?, c: t.id()?, s: t.id()?, t: t.id()?, r: t.id()? })
}

#[derive(Clone, Debug, PartialEq, Eq)]
enum Tgt {
    Default(Id),
    Named(Id, Vec<u8>),
    Exact(Id, Id),
}

impl Tgt {
    fn real(&self) -> Result<IngressTarget, String> {
        Ok(match self {
            Tgt::Default(wl) => IngressTarget::DefaultWriter { worldline_id: WorldlineId::from_bytes(*wl) },
            Tgt::Named(wl, name) => IngressTarget::InboxAddress {
                worldline_id: WorldlineId::from_bytes(*wl),
                inbox: InboxAddress(String::from_utf8(name.clone()).map_err(|_| "inbox name not utf8".to_string())?),
            },
            Tgt::Exact(wl, hd) => IngressTarget::ExactHead { key: head_key(*wl, *hd) },
        })
    }
    fn tok(&self) -> String {
        match self {
            Tgt::Default(wl) => format!("d {}", hex(wl)),
            Tgt::Named(wl, n) => format!("n {} {}", hex(wl), hex(n)),
            Tgt::Exact(wl, hd) => format!("x {} {}", hex(wl), hex(hd)),
        }
    }
}

fn parse_tgt(t: &mut Toks) -> Result<Tgt, String> {
    match t.next()? {
        "d" => Ok(Tgt::Default(t.id()?)),
        "n" => Ok(Tgt::Named(t.id()?, t.bytes()?)),
        "x" => Ok(Tgt::Exact(t.id()?, t.id()?)),
        o => Err(format!("bad target {o}")),
    }
}

fn head_key(wl: Id, hd: Id) -> WriterHeadKey {
    WriterHeadKey { worldline_id: WorldlineId::from_bytes(wl), head_id: HeadId::from_bytes(hd) }
}

#[derive(Clone, Debug, PartialEq, Eq)]
struct Env {
    id: Id,
    kind: Id,
    bytes: Vec<u8>,
    parents: Vec<Par>,
}

impl Env {
    /// Builds the REAL envelope (the constructor computes the ingress id).
    fn real_unchecked(&self, target: IngressTarget) -> IngressEnvelope {
        IngressEnvelope::local_intent_with_causal_parents(
            target,
            IntentKind::from_hash(self.kind),
            self.bytes.clone(),
            self.parents.iter().map(Par::real).collect(),
        )
    }
    fn real(&self, target: IngressTarget) -> Result<IngressEnvelope, String> {
        let e = self.real_unchecked(target);
        if e.ingress_id() != self.id {
            return Err("case-line ingress id differs from the id computed by the code".into());
        }
        Ok(e)
    }
    fn new(kind: Id, bytes: Vec<u8>, parents: Vec<Par>) -> Env {
        let mut e = Env { id: [0; 32], kind, bytes, parents };
        e.id = e.real_unchecked(dummy_target()).ingress_id();
        e
    }
    fn tok(&self) -> String {
        let mut s = format!("{} {} {} {}", hex(&self.id), hex(&self.kind), hex(&self.bytes), self.parents.len());
        for p in &self.parents {
            s.push(' ');
            s.push_str(&p.tok());
        }
        s
    }
}

fn dummy_target() -> IngressTarget {
    IngressTarget::DefaultWriter { worldline_id: WorldlineId::from_bytes([0; 32]) }
}

fn parse_env(t: &mut Toks) -> Result<Env, String> {
    let id = t.id()?;
    let kind = t.id()?;
    let bytes = t.bytes()?;
    let np = t.num()?;
    let mut parents = Vec::new();
    for _ in 0..np {
        parents.push(parse_par(t)?);
    }
    Ok(Env { id, kind, bytes, parents })
}

fn ids_tok(ids: &[Id]) -> String {
    let mut s = format!("{}", ids.len());
    for i in ids {
        s.push(' ');
        s.push_str(&hex(i));
    }
    s
}

/// Pending ids of a real inbox, observed without touching it: clone, lift the policy, drain.
fn pending_ids(ib: &HeadInbox) -> Vec<Id> {
    let mut c = ib.clone();
    c.set_policy(InboxPolicy::AcceptAll);
    c.admit().iter().map(IngressEnvelope::ingress_id).collect()
}

fn disp_tok(r: &impl std::fmt::Debug) -> &'static str {
    match format!("{r:?}").as_str() {
        "Accepted" => "acc",
        "Duplicate" => "dup",
        "Rejected" => "rej",
        _ => "unknown-disposition",
    }
}

// ------------------------------------------------------------------ generators (shared)

fn gen_parent(rng: &mut Rng) -> Par {
    // tiny universe so duplicates and near-misses (same ref, other role; ticks that order
    // differently as integers and as little-endian bytes) actually occur
    Par {
        role: rng.below(2),
        wl: small_id(rng.below(2)),
        wt: *rng.pick(&[1u64, 2, 256, 258]),
        gt: *rng.pick(&[1u64, 256]),
        c: small_id(rng.below(2)),
        s: small_id(7),
        t: small_id(rng.below(2)),
        r: small_id(3),
    }
}

fn gen_env_universe(rng: &mut Rng, n: usize) -> Vec<Env> {
    let kinds = [small_id(1), small_id(2), small_id(3)];
    let mut out: Vec<Env> = Vec::new();
    for _ in 0..n {
        let kind = *rng.pick(&kinds);
        let len = rng.below(4) as usize;
        let bytes: Vec<u8> = (0..len).map(|_| *rng.pick(&[0u8, 1, 0xff])).collect();
        let parents: Vec<Par> = if rng.chance(1, 3) {
            let k = rng.range(1, 3);
            let mut ps: Vec<Par> = (0..k).map(|_| gen_parent(rng)).collect();
            if rng.chance(1, 3) {
                let d = ps[0].clone();
                ps.push(d); // explicit duplicate, unsorted
            }
            ps
        } else {
            Vec::new()
        };
        out.push(Env::new(kind, bytes, parents));
    }
    // the same content cited with permuted / duplicated parents is the same intent
    if let Some(e) = out.iter().find(|e| e.parents.len() >= 2).cloned() {
        let mut ps = e.parents.clone();
        ps.reverse();
        ps.push(e.parents[0].clone());
        out.push(Env::new(e.kind, e.bytes.clone(), ps));
    }
    out
}

fn gen_pol(rng: &mut Rng, max_budget: u64) -> Pol {
    match rng.below(4) {
        0 | 1 => Pol::All,
        2 => Pol::Budget(rng.below(max_budget + 1) as u32),
        _ => {
            let all = [small_id(1), small_id(2), small_id(3)];
            let ks: Vec<Id> = all.iter().filter(|_| rng.chance(1, 2)).copied().collect();
            Pol::Kinds(ks)
        }
    }
}

fn permutations<T: Clone>(xs: &[T], limit: usize, rng: &mut Rng) -> (Vec<Vec<T>>, bool) {
    let n = xs.len();
    let mut fact: usize = 1;
    for i in 2..=n {
        fact = fact.saturating_mul(i);
    }
    if fact <= limit {
        let mut out = Vec::new();
        let mut idx: Vec<usize> = (0..n).collect();
        let mut c = vec![0usize; n];
        out.push(idx.iter().map(|&i| xs[i].clone()).collect());
        let mut i = 0;
        while i < n {
            if c[i] < i {
                if i % 2 == 0 {
                    idx.swap(0, i);
                } else {
                    idx.swap(c[i], i);
                }
                out.push(idx.iter().map(|&i| xs[i].clone()).collect());
                c[i] += 1;
                i = 0;
            } else {
                c[i] = 0;
                i += 1;
            }
        }
        (out, true)
    } else {
        let mut out = Vec::new();
        let mut rev: Vec<T> = xs.to_vec();
        rev.reverse();
        out.push(rev);
        for _ in 0..limit.min(16) {
            let mut v = xs.to_vec();
            rng.shuffle(&mut v);
            out.push(v);
        }
        (out, false)
    }
}

// ================================================================== C08.inbox

#[derive(Clone, Debug)]
enum IOp {
    Ingest(Env),
    Tick,
    Policy(Pol),
    Restart,
}

struct InboxCase {
    pol: Pol,
    ops: Vec<IOp>,
}

fn parse_inbox(t: &mut Toks) -> Result<InboxCase, String> {
    let pol = parse_pol(t)?;
    let n = t.num()?;
    let mut ops = Vec::new();
    for _ in 0..n {
        ops.push(match t.next()? {
            "i" => IOp::Ingest(parse_env(t)?),
            "t" => IOp::Tick,
            "p" => IOp::Policy(parse_pol(t)?),
            "r" => IOp::Restart,
            o => return Err(format!("bad op {o}")),
        });
    }
    if !t.done() {
        return Err("trailing tokens".into());
    }
    Ok(InboxCase { pol, ops })
}

#[derive(Clone, Debug, PartialEq, Eq)]
enum IEv {
    Ingest(Id, &'static str),
    Tick(Vec<Id>),
    Policy(Vec<Id>),
    Restart,
}

struct InboxTrace {
    evs: Vec<IEv>,
    /// pending ids before each op (index i) and after the last (index n)
    pending: Vec<Vec<Id>>,
    can_admit: bool,
    committed: BTreeSet<Id>,
}

/// Drives the real `HeadInbox`; the committed-ingress ledger is kept exactly as
/// `WorldlineRuntime::ingest` / `super_tick` keep it (check before ingest, record after admit).
fn run_inbox(pol: &Pol, ops: &[IOp]) -> Result<InboxTrace, String> {
    let key = head_key(small_id(1), small_id(1));
    let mut inbox = HeadInbox::new(key, pol.real());
    let mut committed: BTreeSet<Id> = BTreeSet::new();
    let mut evs = Vec::new();
    let mut pending = Vec::new();
    for op in ops {
        pending.push(pending_ids(&inbox));
        match op {
            IOp::Ingest(e) => {
                let env = e.real(dummy_target())?;
                let id = env.ingress_id();
                let d = if committed.contains(&id) { "dup" } else { disp_tok(&inbox.ingest(env)) };
                evs.push(IEv::Ingest(id, d));
            }
            IOp::Tick => {
                let admitted = inbox.admit();
                let ids: Vec<Id> = admitted.iter().map(IngressEnvelope::ingress_id).collect();
                if !admitted.is_empty() {
                    committed.extend(ids.iter().copied());
                }
                evs.push(IEv::Tick(ids));
            }
            IOp::Policy(p) => {
                inbox.set_policy(p.real());
                evs.push(IEv::Policy(pending_ids(&inbox)));
            }
            IOp::Restart => {
                let policy = inbox.policy().clone();
                inbox = HeadInbox::new(key, policy);
                evs.push(IEv::Restart);
            }
        }
    }
    pending.push(pending_ids(&inbox));
    Ok(InboxTrace { evs, pending, can_admit: inbox.can_admit(), committed })
}

fn imp_inbox(t: &mut Toks) -> Result<String, String> {
    let c = parse_inbox(t)?;
    let tr = run_inbox(&c.pol, &c.ops)?;
    let mut parts: Vec<String> = Vec::new();
    for ev in &tr.evs {
        parts.push(match ev {
            IEv::Ingest(id, d) => format!("{d} {}", hex(id)),
            IEv::Tick(ids) => format!("t {}", ids_tok(ids)),
            IEv::Policy(ids) => format!("p {}", ids_tok(ids)),
            IEv::Restart => "r".into(),
        });
    }
    let last = tr.pending.last().cloned().unwrap_or_default();
    parts.push(format!("pend {}", ids_tok(&last)));
    parts.push(format!("can {}", u8::from(tr.can_admit)));
    let comm: Vec<Id> = tr.committed.iter().copied().collect();
    parts.push(format!("committed {}", ids_tok(&comm)));
    Ok(parts.join(" ; "))
}

/// Canonical summary of a trace that must not depend on arrival order inside an ingest segment:
/// per segment the disposition counts per distinct id, then the non-ingest event itself.
fn order_free_summary(tr: &InboxTrace) -> String {
    let mut out = String::new();
    let mut seg: BTreeMap<Id, [u32; 3]> = BTreeMap::new();
    let flush = |seg: &mut BTreeMap<Id, [u32; 3]>, out: &mut String| {
        for (id, c) in seg.iter() {
            out.push_str(&format!("{}:{}/{}/{} ", &hex(id)[..8], c[0], c[1], c[2]));
        }
        seg.clear();
    };
    for ev in &tr.evs {
        match ev {
            IEv::Ingest(id, d) => {
                let c = seg.entry(*id).or_insert([0; 3]);
                match *d {
                    "acc" => c[0] += 1,
                    "dup" => c[1] += 1,
                    _ => c[2] += 1,
                }
            }
            other => {
                flush(&mut seg, &mut out);
                out.push_str(&format!("| {other:?} "));
            }
        }
    }
    flush(&mut seg, &mut out);
    out.push_str(&format!("| pend {:?} can {} committed {:?}", tr.pending.last(), tr.can_admit, tr.committed));
    out
}

/// Splits the op list into maximal ingest runs and the ops between them.
fn segments(ops: &[IOp]) -> Vec<(Vec<Env>, Option<IOp>)> {
    let mut out = Vec::new();
    let mut cur: Vec<Env> = Vec::new();
    for op in ops {
        match op {
            IOp::Ingest(e) => cur.push(e.clone()),
            o => out.push((std::mem::take(&mut cur), Some(o.clone()))),
        }
    }
    out.push((cur, None));
    out
}

fn unsegment(segs: &[(Vec<Env>, Option<IOp>)]) -> Vec<IOp> {
    let mut ops = Vec::new();
    for (es, o) in segs {
        ops.extend(es.iter().cloned().map(IOp::Ingest));
        if let Some(o) = o {
            ops.push(o.clone());
        }
    }
    ops
}

fn check_id_function(e: &Env, o: &mut OracleOut, rng: &mut Rng) {
    // identity = f(kind, bytes, set of parents): independent of target, parent order, parent multiplicity
    let base = e.real_unchecked(dummy_target());
    let id = base.ingress_id();
    let other_target = IngressTarget::ExactHead { key: head_key(small_id(9), small_id(9)) };
    if e.real_unchecked(other_target).ingress_id() != id {
        o.fails.push(("C08.id-depends-on-target".into(), "ingress id changed with the routing target".into()));
    }
    if !e.parents.is_empty() {
        let mut ps = e.parents.clone();
        rng.shuffle(&mut ps);
        let extra = ps[0].clone();
        ps.push(extra);
        let e2 = Env { parents: ps, ..e.clone() };
        let r2 = e2.real_unchecked(dummy_target());
        if r2.ingress_id() != id {
            o.fails.push((
                "C08.id-depends-on-parent-order".into(),
                "permuting/duplicating the cited causal parents changed the ingress id".into(),
            ));
        }
        if r2.causal_parents() != base.causal_parents() {
            o.fails.push(("C08.parents-not-canonical".into(), "stored causal parents differ for the same set".into()));
        }
        let mut sorted = base.causal_parents().to_vec();
        sorted.sort();
        sorted.dedup();
        if sorted.as_slice() != base.causal_parents() {
            o.fails.push(("C08.parents-not-canonical".into(), "stored causal parents are not sorted+deduped".into()));
        }
        // dropping one distinct parent is a different intent
        let mut fewer = base.causal_parents().to_vec();
        fewer.pop();
        let e3 = IngressEnvelope::local_intent_with_causal_parents(
            dummy_target(),
            IntentKind::from_hash(e.kind),
            e.bytes.clone(),
            fewer,
        );
        if e3.ingress_id() == id {
            o.fails.push(("C08.id-ignores-parent".into(), "removing a cited parent kept the ingress id".into()));
        }
        // the role of a citation is part of the identity
        let mut flipped = e.parents.clone();
        flipped[0].role ^= 1;
        let same_set = {
            let a: BTreeSet<String> = flipped.iter().map(Par::tok).collect();
            let b: BTreeSet<String> = e.parents.iter().map(Par::tok).collect();
            a == b
        };
        if !same_set && (Env { parents: flipped, ..e.clone() }).real_unchecked(dummy_target()).ingress_id() == id {
            o.fails.push(("C08.id-ignores-parent-role".into(), "changing a parent's role kept the ingress id".into()));
        }
    }
    if !e.parents.is_empty() {
        // OBSERVATION (not a C08 failure: identity is still a function of kind/bytes/parents):
        // "ingress:" is a prefix of "ingress:causal:v2\0", so the causal pre-image of `e` is also the
        // legacy pre-image of a parentless intent whose kind starts with "causal:v2\0".
        let mut tail: Vec<u8> = b"causal:v2\0".to_vec();
        tail.extend_from_slice(&e.kind);
        tail.extend_from_slice(&(e.bytes.len() as u64).to_le_bytes());
        tail.extend_from_slice(&e.bytes);
        tail.extend_from_slice(&(base.causal_parents().len() as u64).to_le_bytes());
        for p in base.causal_parents() {
            match p {
                IngressCausalParent::TickReceipt { receipt_ref } => {
                    tail.extend_from_slice(b"tick-receipt\0");
                    tail.extend_from_slice(&receipt_ref.to_canonical_bytes());
                }
                IngressCausalParent::ContractInverseTarget { receipt_ref } => {
                    tail.extend_from_slice(b"contract-inverse-target\0");
                    tail.extend_from_slice(&receipt_ref.to_canonical_bytes());
                }
                _ => {}
            }
        }
        let mut alias_kind = [0u8; 32];
        alias_kind.copy_from_slice(&tail[..32]);
        let alias = IngressEnvelope::local_intent(dummy_target(), IntentKind::from_hash(alias_kind), tail[32..].to_vec());
        if alias.ingress_id() == id {
            o.tags.push("obs:id-domain-overlap".into());
        }
    }
    let mut k2 = e.kind;
    k2[0] ^= 0x80;
    if (Env { kind: k2, ..e.clone() }).real_unchecked(dummy_target()).ingress_id() == id {
        o.fails.push(("C08.id-ignores-kind".into(), "changing the intent kind kept the ingress id".into()));
    }
    let mut b2 = e.bytes.clone();
    b2.push(0);
    if (Env { bytes: b2, ..e.clone() }).real_unchecked(dummy_target()).ingress_id() == id {
        o.fails.push(("C08.id-ignores-bytes".into(), "appending a byte kept the ingress id".into()));
    }
}

fn oracle_inbox(t: &mut Toks, tier: Tier) -> Result<OracleOut, String> {
    let c = parse_inbox(t)?;
    let mut o = OracleOut::default();
    let mut rng = Rng::new(c.ops.len() as u64 * 31 + 5);
    let base = run_inbox(&c.pol, &c.ops)?;

    // --- identity
    let mut universe: BTreeMap<Id, Env> = BTreeMap::new();
    for op in &c.ops {
        if let IOp::Ingest(e) = op {
            universe.entry(e.id).or_insert_with(|| e.clone());
        }
    }
    for e in universe.values() {
        check_id_function(e, &mut o, &mut rng);
    }

    // --- step laws, read off the base trace of the real inbox
    let mut cur_pol = c.pol.clone();
    let mut committed_in: BTreeMap<Id, usize> = BTreeMap::new();
    let mut ticks_nonempty = 0usize;
    for (i, (op, ev)) in c.ops.iter().zip(base.evs.iter()).enumerate() {
        let before = &base.pending[i];
        let after = &base.pending[i + 1];
        if before.windows(2).any(|w| w[0] >= w[1]) {
            o.fails.push(("C08.pending-not-sorted".into(), "pending ids are not strictly ascending".into()));
        }
        match (op, ev) {
            (IOp::Ingest(e), IEv::Ingest(id, d)) => {
                let allowed = match &cur_pol {
                    Pol::Kinds(ks) => ks.contains(&e.kind),
                    _ => true,
                };
                let was_committed = committed_in.contains_key(id);
                let was_pending = before.contains(id);
                let expect = if was_committed {
                    "dup"
                } else if !allowed {
                    "rej"
                } else if was_pending {
                    "dup"
                } else {
                    "acc"
                };
                if *d != expect {
                    let key = if was_committed { "C08.retry-after-commit-not-duplicate" } else { "C08.ingest-disposition" };
                    o.fails.push((key.into(), format!("op {i}: disposition {d}, expected {expect}")));
                }
                let mut want = before.clone();
                if expect == "acc" {
                    want.push(*id);
                    want.sort();
                }
                if *after != want {
                    o.fails.push(("C08.ingest-pending".into(), format!("op {i}: pending set after ingest is wrong")));
                }
            }
            (IOp::Tick, IEv::Tick(ids)) => {
                let n = match &cur_pol {
                    Pol::Budget(n) => (*n as usize).min(before.len()),
                    _ => before.len(),
                };
                if ids.as_slice() != &before[..n] {
                    o.fails.push((
                        "C08.admit-not-canonical".into(),
                        format!("op {i}: admitted batch is not the first {n} pending ids in ascending order"),
                    ));
                }
                if after.as_slice() != &before[ids.len().min(before.len())..] || ids.len() > before.len() {
                    o.fails.push(("C08.admit-remainder".into(), format!("op {i}: pending after admit is not the remainder")));
                }
                for id in ids {
                    if let Some(j) = committed_in.insert(*id, i) {
                        o.fails.push((
                            "C08.committed-twice".into(),
                            format!("ingress {} committed by tick op {j} and again by tick op {i}", &hex(id)[..8]),
                        ));
                    }
                }
                if !ids.is_empty() {
                    ticks_nonempty += 1;
                }
            }
            (IOp::Policy(p), IEv::Policy(ids)) => {
                let keep: Vec<Id> = before
                    .iter()
                    .filter(|id| match p {
                        Pol::Kinds(ks) => universe.get(*id).is_some_and(|e| ks.contains(&e.kind)),
                        _ => true,
                    })
                    .copied()
                    .collect();
                if *ids != keep || *after != keep {
                    o.fails.push(("C08.policy-retain".into(), format!("op {i}: set_policy did not retain exactly the accepted kinds")));
                }
                cur_pol = p.clone();
            }
            (IOp::Restart, IEv::Restart) => {
                if !after.is_empty() {
                    o.fails.push(("C08.restart-pending".into(), "restart kept pending envelopes".into()));
                }
            }
            _ => o.fails.push(("C08.trace-shape".into(), "trace does not match the op list".into())),
        }
    }
    for id in base.pending.last().into_iter().flatten() {
        if base.committed.contains(id) {
            o.fails.push(("C08.pending-and-committed".into(), format!("{} is both pending and committed", &hex(id)[..8])));
        }
    }

    // --- order / retry independence: permute every ingest segment, add retries, compare everything
    let segs = segments(&c.ops);
    let want = order_free_summary(&base);
    let limit = if tier == Tier::Thorough { 720 } else { 120 };
    let mut exhaustive = true;
    let longest = segs.iter().map(|(es, _)| es.len()).max().unwrap_or(0);
    for si in 0..segs.len() {
        if segs[si].0.len() < 2 {
            continue;
        }
        let (perms, ex) = permutations(&segs[si].0, limit, &mut rng);
        exhaustive &= ex;
        for p in perms {
            let mut s2 = segs.clone();
            s2[si].0 = p;
            let tr = run_inbox(&c.pol, &unsegment(&s2))?;
            let got = order_free_summary(&tr);
            if got != want {
                o.fails.push((
                    "C08.order-dependence".into(),
                    format!("permuting ingest segment {si} changed the outcome: {want} vs {got}"),
                ));
                break;
            }
        }
    }
    // retries: repeat a random member of each segment k more times, anywhere AFTER its first occurrence
    let mut retried = segs.clone();
    let mut extra: BTreeMap<(usize, Id), u32> = BTreeMap::new();
    for (si, (es, _)) in retried.iter_mut().enumerate() {
        if es.is_empty() {
            continue;
        }
        for _ in 0..rng.range(1, 3) {
            let j = rng.below(es.len() as u64) as usize;
            let e = es[j].clone();
            let at = rng.range(j as u64 + 1, es.len() as u64) as usize;
            *extra.entry((si, e.id)).or_default() += 1;
            es.insert(at, e);
        }
    }
    let tr = run_inbox(&c.pol, &unsegment(&retried))?;
    // same ticks, same pending, same committed; only duplicate/rejected counts grow
    let strip = |tr: &InboxTrace| -> String {
        let mut s = String::new();
        for ev in &tr.evs {
            match ev {
                IEv::Ingest(id, "acc") => s.push_str(&format!("acc {} ", &hex(id)[..8])),
                IEv::Ingest(..) => {}
                other => s.push_str(&format!("| {other:?} ")),
            }
        }
        s.push_str(&format!("| {:?} {:?}", tr.pending.last(), tr.committed));
        s
    };
    if strip(&tr) != strip(&base) {
        o.fails.push(("C08.retry-changes-outcome".into(), "adding retries changed accepted set, ticks, pending or committed".into()));
    }

    o.tags.push(cur_pol.tag().into());
    o.tags.push(c.pol.tag().into());
    o.tags.push(format!("ops={}", (c.ops.len() / 4) * 4));
    o.tags.push(format!("longest-segment={}", longest.min(9)));
    if exhaustive && longest >= 2 {
        o.tags.push("perms-exhaustive".into());
    }
    if universe.values().any(|e| !e.parents.is_empty()) {
        o.tags.push("causal-parents".into());
    }
    for ev in &base.evs {
        if let IEv::Ingest(id, d) = ev {
            o.tags.push(format!("disp:{d}"));
            if *d == "dup" && base.committed.contains(id) {
                o.tags.push("retry-after-commit".into());
            }
        }
    }
    if c.ops.iter().any(|op| matches!(op, IOp::Restart)) {
        o.tags.push("restart".into());
    }
    if ticks_nonempty >= 2 {
        o.tags.push("multi-tick".into());
    }
    o.tags.sort();
    o.tags.dedup();
    o.nontrivial = universe.len() >= 2 && ticks_nonempty >= 1;
    Ok(o)
}

fn gen_inbox(rng: &mut Rng, tier: Tier) -> Vec<String> {
    let n = if tier == Tier::Thorough { 4000 } else { 700 };
    let mut out = Vec::new();
    for case in 0..n {
        let nu = if case % 13 == 0 { rng.range(6, 9) } else { rng.range(1, 5) } as usize;
        let uni = gen_env_universe(rng, nu);
        let pol = gen_pol(rng, nu as u64 + 1);
        let nops = if case % 13 == 0 { rng.range(12, 24) } else { rng.range(2, 12) };
        let mut ops: Vec<String> = Vec::new();
        for _ in 0..nops {
            ops.push(match rng.below(20) {
                0..=12 => format!("i {}", rng.pick(&uni).tok()),
                13..=16 => "t".to_string(),
                17 | 18 => format!("p {}", gen_pol(rng, nu as u64 + 1).tok()),
                _ => "r".to_string(),
            });
        }
        out.push(format!("{} {} {}", pol.tok(), ops.len(), ops.join(" ")));
    }
    out
}

// ================================================================== C08.runtime

#[derive(Clone, Debug)]
struct HeadSpec {
    wl: Id,
    hd: Id,
    name: Vec<u8>,
    default: bool,
    pol: Pol,
}

#[derive(Clone, Debug)]
enum ROp {
    Ingest(Tgt, Env),
    Tick,
    /// rebuild the runtime from retained history (all intents entered through plain `ingest`)
    Restart,
}

struct RtCase {
    heads: Vec<HeadSpec>,
    ops: Vec<ROp>,
}

fn parse_runtime(t: &mut Toks) -> Result<RtCase, String> {
    let nh = t.num()?;
    let mut heads = Vec::new();
    for _ in 0..nh {
        let wl = t.id()?;
        let hd = t.id()?;
        let name = t.bytes()?;
        let default = t.num()? != 0;
        let pol = parse_pol(t)?;
        heads.push(HeadSpec { wl, hd, name, default, pol });
    }
    let n = t.num()?;
    let mut ops = Vec::new();
    for _ in 0..n {
        ops.push(match t.next()? {
            "i" => {
                let tg = parse_tgt(t)?;
                ROp::Ingest(tg, parse_env(t)?)
            }
            "t" => ROp::Tick,
            "r" => ROp::Restart,
            o => return Err(format!("bad op {o}")),
        });
    }
    if !t.done() {
        return Err("trailing tokens".into());
    }
    Ok(RtCase { heads, ops })
}

fn empty_engine() -> Engine {
    let mut store = GraphStore::default();
    let root = make_node_id("root");
    store.insert_node(root, NodeRecord { ty: make_type_id("world") });
    EngineBuilder::new(store, root).build()
}

struct World {
    runtime: WorldlineRuntime,
    provenance: ProvenanceService,
    engine: Engine,
    keys: Vec<WriterHeadKey>,
}

fn register(heads: &[HeadSpec]) -> Result<(WorldlineRuntime, Vec<WriterHeadKey>), String> {
    let mut runtime = WorldlineRuntime::new();
    let wls: BTreeSet<Id> = heads.iter().map(|h| h.wl).collect();
    for wl in &wls {
        runtime
            .register_worldline(WorldlineId::from_bytes(*wl), WorldlineState::empty())
            .map_err(|e| format!("register_worldline: {e}"))?;
    }
    let mut keys = Vec::new();
    for h in heads {
        let key = head_key(h.wl, h.hd);
        let name = if h.name.is_empty() {
            None
        } else {
            Some(InboxAddress(String::from_utf8(h.name.clone()).map_err(|_| "inbox name not utf8".to_string())?))
        };
        runtime
            .register_writer_head(WriterHead::with_routing(key, PlaybackMode::Play, h.pol.real(), name, h.default))
            .map_err(|e| format!("register_writer_head: {e}"))?;
        keys.push(key);
    }
    keys.sort();
    Ok((runtime, keys))
}

fn new_world(heads: &[HeadSpec]) -> Result<World, String> {
    let (runtime, keys) = register(heads)?;
    let mut provenance = ProvenanceService::new();
    for (wl, frontier) in runtime.worldlines().iter() {
        provenance.register_worldline(*wl, frontier.state()).map_err(|e| format!("provenance: {e}"))?;
    }
    Ok(World { runtime, provenance, engine: empty_engine(), keys })
}

fn key_tok(k: &WriterHeadKey) -> String {
    format!("{}:{}", hex(k.worldline_id.as_bytes()), hex(k.head_id.as_bytes()))
}

fn route_tok(e: &RuntimeError) -> String {
    match e {
        RuntimeError::MissingDefaultWriter(_) => "err no-default".into(),
        RuntimeError::MissingInboxAddress { .. } => "err no-inbox".into(),
        RuntimeError::UnknownHead(_) => "err no-head".into(),
        RuntimeError::RejectedByPolicy(k) => format!("rej {}", key_tok(k)),
        other => format!("err other:{}", format!("{other:?}").split(|c: char| !c.is_alphanumeric()).next().unwrap_or("")),
    }
}

fn rt_pending(rt: &WorldlineRuntime, k: &WriterHeadKey) -> Vec<Id> {
    rt.heads().get(k).map(|h| pending_ids(h.inbox())).unwrap_or_default()
}

/// Which of `universe` are recorded as committed for head `k`: a retry addressed to exactly that
/// head on a scratch clone answers `Duplicate` although the id is not pending.
fn rt_committed(rt: &WorldlineRuntime, k: &WriterHeadKey, universe: &BTreeMap<Id, Env>) -> Vec<Id> {
    let pend = rt_pending(rt, k);
    let mut out = Vec::new();
    for (id, e) in universe {
        if pend.contains(id) {
            continue;
        }
        let mut scratch = rt.clone();
        let env = e.real_unchecked(IngressTarget::ExactHead { key: *k });
        if let Ok(IngressDisposition::Duplicate { .. }) = scratch.ingest(env) {
            out.push(*id);
        }
    }
    out
}

#[derive(Clone, Debug, PartialEq, Eq)]
enum REv {
    Ingest(Id, String),
    Tick(Vec<StepRecord>),
    TickErr(String),
    Restart,
}

struct RtTrace {
    evs: Vec<REv>,
    /// committed ids per head after every op
    committed: Vec<Vec<Vec<Id>>>,
    pending: Vec<Vec<Vec<Id>>>,
}

fn universe_of(ops: &[ROp]) -> BTreeMap<Id, Env> {
    let mut u = BTreeMap::new();
    for op in ops {
        if let ROp::Ingest(_, e) = op {
            u.entry(e.id).or_insert_with(|| e.clone());
        }
    }
    u
}

fn run_runtime(
    w: &mut World,
    heads: &[HeadSpec],
    ops: &[ROp],
    universe: &BTreeMap<Id, Env>,
    probe_each: bool,
) -> Result<RtTrace, String> {
    let mut tr = RtTrace { evs: Vec::new(), committed: Vec::new(), pending: Vec::new() };
    for (i, op) in ops.iter().enumerate() {
        match op {
            ROp::Ingest(tg, e) => {
                let env = e.real(tg.real()?)?;
                let id = env.ingress_id();
                let s = match w.runtime.ingest(env) {
                    Ok(IngressDisposition::Accepted { ingress_id, head_key, .. }) if ingress_id == id => {
                        format!("acc {}", key_tok(&head_key))
                    }
                    Ok(IngressDisposition::Duplicate { ingress_id, head_key, .. }) if ingress_id == id => {
                        format!("dup {}", key_tok(&head_key))
                    }
                    Ok(_) => "err disposition-names-other-id".to_string(),
                    Err(e) => route_tok(&e),
                };
                tr.evs.push(REv::Ingest(id, s));
            }
            ROp::Tick => match SchedulerCoordinator::super_tick(&mut w.runtime, &mut w.provenance, &mut w.engine) {
                Ok(recs) => tr.evs.push(REv::Tick(recs)),
                Err(e) => tr.evs.push(REv::TickErr(format!("{e:?}").chars().take(60).collect())),
            },
            ROp::Restart => {
                *w = restart(w, heads)?;
                tr.evs.push(REv::Restart);
            }
        }
        if probe_each || i + 1 == ops.len() {
            tr.committed.push(w.keys.iter().map(|k| rt_committed(&w.runtime, k, universe)).collect());
            tr.pending.push(w.keys.iter().map(|k| rt_pending(&w.runtime, k)).collect());
        }
    }
    if ops.is_empty() {
        tr.committed.push(w.keys.iter().map(|_| Vec::new()).collect());
        tr.pending.push(w.keys.iter().map(|_| Vec::new()).collect());
    }
    Ok(tr)
}

fn imp_runtime(t: &mut Toks) -> Result<String, String> {
    let c = parse_runtime(t)?;
    let mut w = new_world(&c.heads)?;
    let uni = universe_of(&c.ops);
    let tr = run_runtime(&mut w, &c.heads, &c.ops, &uni, false)?;
    let mut parts: Vec<String> = Vec::new();
    for ev in &tr.evs {
        parts.push(match ev {
            REv::Ingest(id, s) => format!("{s} {}", hex(id)),
            REv::Tick(recs) => {
                let mut s = format!("t {}", recs.len());
                for r in recs {
                    s.push_str(&format!(
                        " {} {} {} {}",
                        key_tok(&r.head_key),
                        r.admitted_count,
                        r.worldline_tick_after.as_u64(),
                        r.commit_global_tick.as_u64()
                    ));
                }
                s
            }
            REv::TickErr(e) => format!("t err {e}"),
            REv::Restart => "r".into(),
        });
    }
    let mut pend = String::from("pend");
    let mut comm = String::from("committed");
    let lastp = tr.pending.last().cloned().unwrap_or_default();
    let lastc = tr.committed.last().cloned().unwrap_or_default();
    for (i, k) in w.keys.iter().enumerate() {
        pend.push_str(&format!(" {} {}", key_tok(k), ids_tok(&lastp[i])));
        comm.push_str(&format!(" {} {}", key_tok(k), ids_tok(&lastc[i])));
    }
    parts.push(pend);
    parts.push(comm);
    parts.push(format!("gt {}", w.runtime.global_tick().as_u64()));
    Ok(parts.join(" ; "))
}

type RtSeg = (Vec<(Tgt, Env)>, Option<ROp>);

fn rt_segments(ops: &[ROp]) -> Vec<RtSeg> {
    let mut out = Vec::new();
    let mut cur = Vec::new();
    for op in ops {
        match op {
            ROp::Ingest(t, e) => cur.push((t.clone(), e.clone())),
            o => out.push((std::mem::take(&mut cur), Some(o.clone()))),
        }
    }
    out.push((cur, None));
    out
}

fn rt_unsegment(segs: &[RtSeg]) -> Vec<ROp> {
    let mut ops = Vec::new();
    for (es, o) in segs {
        ops.extend(es.iter().cloned().map(|(t, e)| ROp::Ingest(t, e)));
        if let Some(o) = o {
            ops.push(o.clone());
        }
    }
    ops
}

/// Everything a run commits and leaves behind, with ingest dispositions reduced to per-segment
/// counts per (id, answer) — the part of the trace the property says is arrival-order free.
fn rt_summary(tr: &RtTrace) -> String {
    let mut out = String::new();
    let mut seg: BTreeMap<(Id, String), u32> = BTreeMap::new();
    for ev in &tr.evs {
        match ev {
            REv::Ingest(id, s) => *seg.entry((*id, s.clone())).or_default() += 1,
            other => {
                for ((id, s), n) in &seg {
                    out.push_str(&format!("{}:{}x{} ", &hex(id)[..8], s.split(' ').next().unwrap_or(""), n));
                }
                seg.clear();
                out.push_str(&format!("| {other:?} "));
            }
        }
    }
    for ((id, s), n) in &seg {
        out.push_str(&format!("{}:{}x{} ", &hex(id)[..8], s.split(' ').next().unwrap_or(""), n));
    }
    out.push_str(&format!("| {:?} {:?}", tr.pending.last(), tr.committed.last()));
    out
}

fn ticket(digest: Id) -> OpticAdmissionTicket {
    OpticAdmissionTicket {
        kind: "verif".into(),
        artifact_handle: OpticArtifactHandle { kind: "verif".into(), id: "verif".into() },
        artifact_hash: String::new(),
        operation_id: String::new(),
        requirements_digest: String::new(),
        canonical_variables_digest: Vec::new(),
        basis_request_digest: [0; 32],
        aperture_request_digest: [0; 32],
        budget_request_digest: [0; 32],
        law_witness_digest: [0; 32],
        ticket_digest: digest,
    }
}

/// Restart as the trusted host does it: a fresh runtime with the same registrations, witnessed
/// submissions restored, then committed history rehydrated from retained provenance and receipt
/// correlations.
fn restart(w: &World, heads: &[HeadSpec]) -> Result<World, String> {
    let (mut runtime, keys) = register(heads)?;
    let snapshot = w.runtime.witnessed_submission_persistence_snapshot().map_err(|e| format!("snapshot: {e:?}"))?;
    runtime.restore_witnessed_submission_persistence(snapshot).map_err(|e| format!("restore submissions: {e:?}"))?;
    let mut entries: Vec<ProvenanceEntry> = Vec::new();
    for (wl, _) in w.runtime.worldlines().iter() {
        let n = w.provenance.len(*wl).map_err(|e| format!("len: {e:?}"))?;
        for t in 0..n {
            entries.push(w.provenance.entry(*wl, WorldlineTick::from_raw(t)).map_err(|e| format!("entry: {e:?}"))?);
        }
    }
    let correlations: Vec<ReceiptCorrelationPersistenceRecord> =
        w.runtime.receipt_correlations().map(ReceiptCorrelationPersistenceRecord::from).collect();
    runtime
        .restore_causal_runtime_history(&w.provenance, &entries, &correlations)
        .map_err(|e| format!("restore history: {e:?}"))?;
    Ok(World { runtime, provenance: w.provenance.clone(), engine: empty_engine(), keys })
}

fn oracle_runtime(t: &mut Toks, tier: Tier) -> Result<OracleOut, String> {
    let c = parse_runtime(t)?;
    let mut o = OracleOut::default();
    let uni = universe_of(&c.ops);
    let mut rng = Rng::new(c.ops.len() as u64 * 17 + 3);
    let mut w = new_world(&c.heads)?;
    let base = run_runtime(&mut w, &c.heads, &c.ops, &uni, true)?;

    // --- at most once per head: every tick's admitted_count is exactly the number of ids that
    //     became committed on that head in that tick, and committed sets only grow
    let nh = w.keys.len();
    let mut prev: Vec<Vec<Id>> = vec![Vec::new(); nh];
    let mut commits = 0usize;
    for (i, ev) in base.evs.iter().enumerate() {
        let now = &base.committed[i];
        match ev {
            REv::Tick(recs) => {
                for (hi, k) in w.keys.iter().enumerate() {
                    let newly = now[hi].iter().filter(|id| !prev[hi].contains(id)).count();
                    let admitted: usize = recs.iter().filter(|r| r.head_key == *k).map(|r| r.admitted_count).sum();
                    if recs.iter().filter(|r| r.head_key == *k).count() > 1 {
                        o.fails.push(("C08.head-stepped-twice".into(), "a head committed twice in one pass".into()));
                    }
                    if admitted != newly {
                        o.fails.push((
                            "C08.committed-twice".into(),
                            format!("op {i}: head {hi} admitted {admitted} envelopes but {newly} ids became committed"),
                        ));
                    }
                    commits += usize::from(admitted > 0);
                }
                let order: Vec<WriterHeadKey> = recs.iter().map(|r| r.head_key).collect();
                if order.windows(2).any(|p| p[0] >= p[1]) {
                    o.fails.push(("C08.head-order".into(), "step records are not in canonical head order".into()));
                }
            }
            REv::TickErr(e) => o.fails.push(("C08.tick-error".into(), format!("super_tick failed: {e}"))),
            REv::Restart => {
                let lost: usize = (0..nh).map(|hi| prev[hi].iter().filter(|id| !now[hi].contains(id)).count()).sum();
                if lost > 0 {
                    o.fails.push((
                        "C08.restart-recommit.plain-ingest".into(),
                        format!("op {i}: restart from retained history forgot {lost} committed (head, ingress) pairs; retries are accepted and committed again"),
                    ));
                }
                if base.pending[i].iter().any(|p| !p.is_empty()) {
                    o.fails.push(("C08.restart-pending".into(), format!("op {i}: restart re-entered envelopes into an inbox")));
                }
                o.tags.push("restart-op".into());
                prev = now.clone();
            }
            REv::Ingest(id, s) => {
                // a retry of something already committed on the resolved head must be a duplicate
                for (hi, k) in w.keys.iter().enumerate() {
                    if prev[hi].contains(id) && s.ends_with(&key_tok(k)) && !s.starts_with("dup ") {
                        o.fails.push((
                            "C08.retry-after-commit-not-duplicate".into(),
                            format!("op {i}: retry of committed {} answered {s}", &hex(id)[..8]),
                        ));
                    }
                }
                if *now != prev {
                    o.fails.push(("C08.ingest-changed-committed".into(), format!("op {i}: ingest changed a committed set")));
                }
            }
        }
        for hi in 0..nh {
            if prev[hi].iter().any(|id| !now[hi].contains(id)) {
                o.fails.push(("C08.committed-forgotten".into(), format!("op {i}: a committed id disappeared")));
            }
            if now[hi].iter().any(|id| base.pending[i][hi].contains(id)) {
                o.fails.push(("C08.pending-and-committed".into(), format!("op {i}: id both pending and committed")));
            }
        }
        prev = now.clone();
    }

    // --- arrival order and retries between two passes do not matter (step records compared in
    //     full: state roots and commit hashes included)
    let segs = rt_segments(&c.ops);
    let want = rt_summary(&base);
    let limit = if tier == Tier::Thorough { 720 } else { 120 };
    let mut exhaustive = true;
    let longest = segs.iter().map(|(es, _)| es.len()).max().unwrap_or(0);
    'outer: for si in 0..segs.len() {
        if segs[si].0.len() < 2 {
            continue;
        }
        let (perms, ex) = permutations(&segs[si].0, limit, &mut rng);
        exhaustive &= ex;
        for p in perms.into_iter().skip(1) {
            let mut s2 = segs.clone();
            s2[si].0 = p;
            let mut w2 = new_world(&c.heads)?;
            let tr = run_runtime(&mut w2, &c.heads, &rt_unsegment(&s2), &uni, false)?;
            let got = rt_summary(&tr);
            if got != want {
                o.fails.push((
                    "C08.order-dependence".into(),
                    format!("permuting the submissions of segment {si} changed committed ticks or pending sets"),
                ));
                break 'outer;
            }
        }
    }
    {
        let mut retried = segs.clone();
        for (es, _) in retried.iter_mut() {
            if es.is_empty() {
                continue;
            }
            for _ in 0..rng.range(1, 3) {
                let j = rng.below(es.len() as u64) as usize;
                let e = es[j].clone();
                let at = rng.range(j as u64 + 1, es.len() as u64) as usize;
                es.insert(at, e);
            }
        }
        let mut w2 = new_world(&c.heads)?;
        let tr = run_runtime(&mut w2, &c.heads, &rt_unsegment(&retried), &uni, false)?;
        let ticks = |tr: &RtTrace| -> Vec<REv> { tr.evs.iter().filter(|e| !matches!(e, REv::Ingest(..))).cloned().collect() };
        if ticks(&tr) != ticks(&base) || tr.pending.last() != base.pending.last() || tr.committed.last() != base.committed.last() {
            o.fails.push(("C08.retry-changes-outcome".into(), "extra retries changed committed ticks, pending or committed sets".into()));
        }
    }

    // --- after a restart (runtime rebuilt from retained history) a retry of anything committed
    //     is still a duplicate and is not committed again.
    //     Lines that contain a restart op probe the plain-ingest path (the op itself already
    //     exercises it); all other lines replay the same submissions through the ticketed path
    //     (submit_intent + ingest_ticketed_invocation), whose receipt correlations let
    //     restore_causal_runtime_history rebuild the committed-ingress ledger.
    let has_restart_op = c.ops.iter().any(|op| matches!(op, ROp::Restart));
    let final_committed = base.committed.last().cloned().unwrap_or_default();
    if has_restart_op && final_committed.iter().any(|c| !c.is_empty()) {
        match restart(&w, &c.heads) {
            Err(e) => o.fails.push(("C08.restart-failed".into(), e)),
            Ok(mut w2) => {
                let mut recommitted = 0usize;
                for (hi, k) in w2.keys.clone().iter().enumerate() {
                    for id in &final_committed[hi] {
                        let env = uni[id].real_unchecked(IngressTarget::ExactHead { key: *k });
                        match w2.runtime.ingest(env) {
                            Ok(IngressDisposition::Duplicate { .. }) => {}
                            Ok(IngressDisposition::Accepted { .. }) => recommitted += 1,
                            Err(RuntimeError::RejectedByPolicy(_)) => {}
                            Err(e) => o.fails.push(("C08.restart-retry-error".into(), format!("{e:?}").chars().take(80).collect())),
                        }
                    }
                }
                if recommitted > 0 {
                    let recs = SchedulerCoordinator::super_tick(&mut w2.runtime, &mut w2.provenance, &mut w2.engine)
                        .map_err(|e| format!("post-restart tick: {e:?}"))?;
                    let again: usize = recs.iter().map(|r| r.admitted_count).sum();
                    o.fails.push((
                        "C08.restart-recommit.plain-ingest".into(),
                        format!(
                            "after rebuild from provenance {recommitted} already-committed intents were Accepted again and {again} were committed a second time on the same head"
                        ),
                    ));
                }
                o.tags.push("restart-probe:plain".into());
            }
        }
    }
    if !has_restart_op {
        let mut wt = new_world(&c.heads)?;
        let auth = TicketedRuntimeIngressAuthority::assume_runtime_owner();
        let mut staged = 0usize;
        for op in &c.ops {
            match op {
                ROp::Ingest(tg, e) => {
                    let env = e.real(tg.real()?)?;
                    if let Ok(d) = wt.runtime.submit_intent(env.clone()) {
                        let sub = match d {
                            IntentSubmissionDisposition::Accepted { submission_id, .. }
                            | IntentSubmissionDisposition::Duplicate { submission_id, .. } => submission_id,
                        };
                        if wt.runtime.ingest_ticketed_invocation(&auth, sub, &ticket(sub), env).is_ok() {
                            staged += 1;
                        }
                    }
                }
                ROp::Tick => {
                    if let Err(e) = SchedulerCoordinator::super_tick(&mut wt.runtime, &mut wt.provenance, &mut wt.engine) {
                        o.fails.push(("C08.tick-error.ticketed".into(), format!("{e:?}").chars().take(80).collect()));
                    }
                }
                ROp::Restart => {}
            }
        }
        let committed_t: Vec<Vec<Id>> = wt.keys.iter().map(|k| rt_committed(&wt.runtime, k, &uni)).collect();
        // the ticketed path commits exactly what the plain path commits
        // (submit_intent refuses the reserved contract-inverse parent role, plain ingest does not)
        let inverse_role = uni.values().any(|e| e.parents.iter().any(|p| p.role == 1));
        if inverse_role {
            o.tags.push("inverse-role-parent".into());
        }
        if !inverse_role && committed_t != final_committed {
            o.fails.push((
                "C08.ticketed-path-differs".into(),
                "submit_intent + ingest_ticketed_invocation committed a different set than plain ingest".into(),
            ));
        }
        if committed_t.iter().any(|c| !c.is_empty()) {
            match restart(&wt, &c.heads) {
                Err(e) => o.fails.push(("C08.restart-failed.ticketed".into(), e)),
                Ok(mut w2) => {
                    for (hi, k) in w2.keys.clone().iter().enumerate() {
                        for id in &committed_t[hi] {
                            let env = uni[id].real_unchecked(IngressTarget::ExactHead { key: *k });
                            let a = w2.runtime.submit_intent(env.clone());
                            let b = w2.runtime.ingest(env);
                            let ok_a = matches!(a, Ok(IntentSubmissionDisposition::Duplicate { .. }));
                            let ok_b = matches!(b, Ok(IngressDisposition::Duplicate { .. }));
                            if !ok_a || !ok_b {
                                o.fails.push((
                                    "C08.restart-recommit.ticketed".into(),
                                    format!(
                                        "after restart a committed ticketed intent {} was not answered Duplicate (submit ok={ok_a}, ingest ok={ok_b})",
                                        &hex(id)[..8]
                                    ),
                                ));
                            }
                        }
                    }
                    let recs = SchedulerCoordinator::super_tick(&mut w2.runtime, &mut w2.provenance, &mut w2.engine)
                        .map_err(|e| format!("post-restart tick: {e:?}"))?;
                    if !recs.is_empty() && w2.keys.iter().all(|k| rt_pending(&wt.runtime, k).is_empty()) {
                        o.fails.push(("C08.restart-recommit.ticketed".into(), "a tick after restart+retries committed something".into()));
                    }
                    o.tags.push("restart-probe:ticketed".into());
                }
            }
        }
        if staged > 0 {
            o.tags.push("ticketed-staged".into());
        }
    }

    o.tags.push(format!("heads={nh}"));
    o.tags.push(format!("longest-segment={}", longest.min(9)));
    if exhaustive && longest >= 2 {
        o.tags.push("perms-exhaustive".into());
    }
    for h in &c.heads {
        o.tags.push(h.pol.tag().into());
    }
    for ev in &base.evs {
        if let REv::Ingest(_, s) = ev {
            o.tags.push(format!("disp:{}", s.split(' ').take(if s.starts_with("err") { 2 } else { 1 }).collect::<Vec<_>>().join("-")));
        }
    }
    if commits >= 2 {
        o.tags.push("multi-commit".into());
    }
    o.tags.sort();
    o.tags.dedup();
    o.nontrivial = uni.len() >= 2 && commits >= 1;
    Ok(o)
}

fn gen_runtime(rng: &mut Rng, tier: Tier) -> Vec<String> {
    let n = if tier == Tier::Thorough { 2500 } else { 400 };
    let mut out = Vec::new();
    for case in 0..n {
        let nu = if case % 11 == 0 { rng.range(5, 7) } else { rng.range(1, 4) } as usize;
        let uni = gen_env_universe(rng, nu);
        // topology: 1–2 worldlines, 1–3 heads; at most one default writer per worldline, unique names
        let nwl = rng.range(1, 2);
        let nheads = rng.range(1, 3);
        let mut heads: Vec<HeadSpec> = Vec::new();
        for h in 0..nheads {
            let wl = small_id(1 + rng.below(nwl));
            let default = !heads.iter().any(|x| x.wl == wl && x.default) && rng.chance(3, 4);
            let name: Vec<u8> = if rng.chance(1, 2) { format!("in{h}").into_bytes() } else { Vec::new() };
            heads.push(HeadSpec { wl, hd: small_id(10 + h * 7 % 5 + h), name, default, pol: gen_pol(rng, nu as u64) });
        }
        let mut targets: Vec<Tgt> = Vec::new();
        for h in &heads {
            targets.push(Tgt::Exact(h.wl, h.hd));
            if h.default {
                targets.push(Tgt::Default(h.wl));
                targets.push(Tgt::Default(h.wl));
            }
            if !h.name.is_empty() {
                targets.push(Tgt::Named(h.wl, h.name.clone()));
            }
        }
        // unroutable targets
        targets.push(Tgt::Default(small_id(3)));
        targets.push(Tgt::Named(small_id(1), b"nobody".to_vec()));
        targets.push(Tgt::Exact(small_id(1), small_id(99)));
        let nops = if case % 11 == 0 { rng.range(10, 18) } else { rng.range(2, 10) };
        let with_restart = case % 4 == 3;
        let mut ops: Vec<String> = Vec::new();
        for _ in 0..nops {
            if rng.chance(3, 4) {
                let ti = if rng.chance(9, 10) { rng.below(targets.len() as u64 - 3) } else { rng.below(targets.len() as u64) } as usize;
                ops.push(format!("i {} {}", targets[ti].tok(), rng.pick(&uni).tok()));
            } else if with_restart && rng.chance(1, 3) {
                ops.push("r".into());
            } else {
                ops.push("t".into());
            }
        }
        ops.push("t".into());
        let mut line = format!("{}", heads.len());
        for h in &heads {
            line.push_str(&format!(" {} {} {} {} {}", hex(&h.wl), hex(&h.hd), hex(&h.name), u8::from(h.default), h.pol.tok()));
        }
        line.push_str(&format!(" {} {}", ops.len(), ops.join(" ")));
        out.push(line);
    }
    out
}

