//! C14 — undeclared access never commits.
//! Real code: `FootprintGuard::{new, check_op, check_*_read}`, `op_write_targets`,
//! `GraphView::new_guarded` (through the `echo_verif::guard` seams), and the whole enforced tick:
//! `Engine::apply_in_warp` + `commit_with_receipt` (`execute_work_queue`, `execute_item_enforced`,
//! `merge_parallel_deltas`) with a data-driven interpreter rule.
use crate::graphio::*;
use crate::prng::Rng;
use crate::util::{hex, small_id, Toks};
use crate::{OracleOut, Stream, Tier};
use std::collections::{BTreeMap, BTreeSet};
use std::sync::Mutex;
use warp_core::echo_verif::guard as ghook;
use warp_core::echo_verif::state as hook;
use warp_core::{
    ApplyResult, AttachmentKey, AttachmentSet, ConflictPolicy, EdgeId, EdgeKey, EdgeSet, EngineBuilder, Footprint,
    FootprintViolation, FootprintViolationWithPanic, GraphStore, GraphView, NodeId, NodeKey, NodeSet, PatternGraph,
    PortSet, PortalInit, RewriteRule, TickDelta, ViolationKind, WarpId, WarpOp, WarpState,
};

pub fn streams() -> Vec<Stream> {
    vec![
        Stream { name: "C14.targets", gen: gen_targets, imp: imp_targets, oracle: oracle_targets },
        Stream { name: "C14.check", gen: gen_check, imp: imp_check, oracle: oracle_check },
        Stream { name: "C14.checkin", gen: gen_checkin, imp: imp_checkin, oracle: oracle_checkin },
        Stream { name: "C14.guard", gen: gen_guard, imp: imp_guard, oracle: oracle_guard },
        Stream { name: "C14.tick", gen: gen_tick, imp: imp_tick, oracle: oracle_tick },
    ]
}

// ====================================================================== shared: footprints, reads, programs

#[derive(Clone, Debug, Default)]
struct Fp {
    n_read: Vec<([u8; 32], [u8; 32])>,
    n_write: Vec<([u8; 32], [u8; 32])>,
    e_read: Vec<([u8; 32], [u8; 32])>,
    e_write: Vec<([u8; 32], [u8; 32])>,
    a_read: Vec<AttachmentKey>,
    a_write: Vec<AttachmentKey>,
}

fn parse_pairs(t: &mut Toks, kw: &str) -> Result<Vec<([u8; 32], [u8; 32])>, String> {
    let x = t.next()?;
    if x != kw {
        return Err(format!("expected {kw}, got {x}"));
    }
    let n = t.num()?;
    (0..n).map(|_| Ok((t.id()?, t.id()?))).collect()
}

fn parse_keys(t: &mut Toks, kw: &str) -> Result<Vec<AttachmentKey>, String> {
    let x = t.next()?;
    if x != kw {
        return Err(format!("expected {kw}, got {x}"));
    }
    let n = t.num()?;
    (0..n).map(|_| parse_key(t)).collect()
}

fn parse_fp(t: &mut Toks) -> Result<Fp, String> {
    let x = t.next()?;
    if x != "fp" {
        return Err(format!("expected fp, got {x}"));
    }
    Ok(Fp {
        n_read: parse_pairs(t, "nr")?,
        n_write: parse_pairs(t, "nw")?,
        e_read: parse_pairs(t, "er")?,
        e_write: parse_pairs(t, "ew")?,
        a_read: parse_keys(t, "ar")?,
        a_write: parse_keys(t, "aw")?,
    })
}

impl Fp {
    fn to_real(&self) -> Footprint {
        let mut n_read = NodeSet::default();
        let mut n_write = NodeSet::default();
        let mut e_read = EdgeSet::default();
        let mut e_write = EdgeSet::default();
        let mut a_read = AttachmentSet::default();
        let mut a_write = AttachmentSet::default();
        for (w, i) in &self.n_read {
            n_read.insert_with_warp(WarpId(*w), NodeId(*i));
        }
        for (w, i) in &self.n_write {
            n_write.insert_with_warp(WarpId(*w), NodeId(*i));
        }
        for (w, i) in &self.e_read {
            e_read.insert_with_warp(WarpId(*w), EdgeId(*i));
        }
        for (w, i) in &self.e_write {
            e_write.insert_with_warp(WarpId(*w), EdgeId(*i));
        }
        for k in &self.a_read {
            a_read.insert(*k);
        }
        for k in &self.a_write {
            a_write.insert(*k);
        }
        Footprint {
            n_read,
            n_write,
            e_read,
            e_write,
            a_read,
            a_write,
            b_in: PortSet::default(),
            b_out: PortSet::default(),
            factor_mask: 0,
        }
    }
}

#[derive(Clone, Copy, Debug)]
enum Rd {
    Node([u8; 32]),
    Adj([u8; 32]),
    NodeAtt([u8; 32]),
    EdgeAtt([u8; 32]),
    HasEdge([u8; 32]),
}

fn parse_read_tag(tag: &str, t: &mut Toks) -> Result<Option<Rd>, String> {
    Ok(Some(match tag {
        "RN" => Rd::Node(t.id()?),
        "RA" => Rd::Adj(t.id()?),
        "RNA" => Rd::NodeAtt(t.id()?),
        "REA" => Rd::EdgeAtt(t.id()?),
        "HE" => Rd::HasEdge(t.id()?),
        _ => return Ok(None),
    }))
}

impl Rd {
    fn to_hook(self) -> ghook::Read {
        match self {
            Rd::Node(i) => ghook::Read::Node(NodeId(i)),
            Rd::Adj(i) => ghook::Read::EdgesFrom(NodeId(i)),
            Rd::NodeAtt(i) => ghook::Read::NodeAttachment(NodeId(i)),
            Rd::EdgeAtt(i) => ghook::Read::EdgeAttachment(EdgeId(i)),
            Rd::HasEdge(i) => ghook::Read::HasEdge(EdgeId(i)),
        }
    }
    /// Performs the access on a (possibly guarded) real view; returns the boolean a condition uses.
    fn perform(self, view: GraphView<'_>) -> bool {
        match self {
            Rd::Node(i) => view.node(&NodeId(i)).is_some(),
            Rd::Adj(i) => view.edges_from(&NodeId(i)).count() > 0,
            Rd::NodeAtt(i) => view.node_attachment(&NodeId(i)).is_some(),
            Rd::EdgeAtt(i) => view.edge_attachment(&EdgeId(i)).is_some(),
            Rd::HasEdge(i) => view.has_edge(&EdgeId(i)),
        }
    }
    /// Is the access declared by the footprint (evaluated for a guard on `warp`)?
    fn declared(self, fp: &Fp, warp: [u8; 32]) -> bool {
        match self {
            Rd::Node(i) | Rd::Adj(i) => fp.n_read.contains(&(warp, i)),
            Rd::HasEdge(i) => fp.e_read.contains(&(warp, i)),
            Rd::NodeAtt(i) => fp
                .a_read
                .contains(&AttachmentKey::node_alpha(NodeKey { warp_id: WarpId(warp), local_id: NodeId(i) })),
            Rd::EdgeAtt(i) => fp
                .a_read
                .contains(&AttachmentKey::edge_beta(EdgeKey { warp_id: WarpId(warp), local_id: EdgeId(i) })),
        }
    }
}

#[derive(Clone, Debug)]
enum Instr {
    Read(Rd),
    Emit(WarpOp),
    /// condition is `Rd::Node` (node exists) or `Rd::HasEdge`
    EmitIf(Rd, WarpOp),
    Panic,
}

fn parse_prog(t: &mut Toks) -> Result<Vec<Instr>, String> {
    let n = t.num()?;
    let mut v = Vec::new();
    for _ in 0..n {
        let tag = t.next()?;
        if let Some(r) = parse_read_tag(tag, t)? {
            v.push(Instr::Read(r));
            continue;
        }
        match tag {
            "EM" => v.push(Instr::Emit(parse_op(t)?)),
            "EI" => {
                let c = match t.next()? {
                    "N" => Rd::Node(t.id()?),
                    "E" => Rd::HasEdge(t.id()?),
                    x => return Err(format!("bad cond {x}")),
                };
                v.push(Instr::EmitIf(c, parse_op(t)?));
            }
            "PANIC" => v.push(Instr::Panic),
            x => return Err(format!("bad instr {x}")),
        }
    }
    Ok(v)
}

fn kind_str(k: &ViolationKind) -> String {
    match k {
        ViolationKind::NodeReadNotDeclared(n) => format!("NodeReadNotDeclared {}", hex(&n.0)),
        ViolationKind::EdgeReadNotDeclared(e) => format!("EdgeReadNotDeclared {}", hex(&e.0)),
        ViolationKind::AttachmentReadNotDeclared(k) => format!("AttachmentReadNotDeclared {}", key_str(k)),
        ViolationKind::NodeWriteNotDeclared(n) => format!("NodeWriteNotDeclared {}", hex(&n.0)),
        ViolationKind::EdgeWriteNotDeclared(e) => format!("EdgeWriteNotDeclared {}", hex(&e.0)),
        ViolationKind::AttachmentWriteNotDeclared(k) => format!("AttachmentWriteNotDeclared {}", key_str(k)),
        ViolationKind::CrossWarpEmission { op_warp } => format!("CrossWarpEmission {}", hex(&op_warp.0)),
        ViolationKind::UnauthorizedInstanceOp => "UnauthorizedInstanceOp".to_string(),
        ViolationKind::OpWarpUnknown => "OpWarpUnknown".to_string(),
    }
}

fn violation_str(v: &FootprintViolation) -> String {
    format!("violation {} {}", kind_str(&v.kind), v.op_kind)
}

fn key_warp(k: &AttachmentKey) -> [u8; 32] {
    match k.owner {
        warp_core::AttachmentOwner::Node(n) => n.warp_id.0,
        warp_core::AttachmentOwner::Edge(e) => e.warp_id.0,
    }
}

/// Is the op within the declared writes of a guard on `warp` (real table, own membership test)?
fn op_within(fp: &Fp, warp: [u8; 32], is_system: bool, op: &WarpOp) -> Result<bool, String> {
    let t = ghook::op_write_targets(op).ok_or("enforcement compiled out")?;
    if t.is_instance_op && !is_system {
        return Ok(false);
    }
    match t.op_warp {
        Some(w) if w.0 != warp => return Ok(false),
        None if !t.is_instance_op => return Ok(false),
        _ => {}
    }
    Ok(t.nodes.iter().all(|n| fp.n_write.contains(&(warp, n.0)))
        && t.edges.iter().all(|e| fp.e_write.contains(&(warp, e.0)))
        && t.attachments.iter().all(|a| fp.a_write.contains(a)))
}

/// The previous source of an edge that `op` moves in `store` (real `moved_edge_previous_source`).
fn moved_prev(store: Option<&GraphStore>, op: &WarpOp) -> Result<Option<[u8; 32]>, String> {
    match store {
        None => Ok(None),
        Some(g) => Ok(ghook::moved_edge_previous_source(g, op).ok_or("enforcement compiled out")?.map(|n| n.0)),
    }
}

/// Own evaluation (no guard code): the source under which `op`'s edge id is stored, if it differs.
fn moved_prev_direct(store: Option<&GraphStore>, op: &WarpOp) -> Option<[u8; 32]> {
    let g = store?;
    if let WarpOp::UpsertEdge { warp_id, record } = op {
        if *warp_id != g.warp_id() {
            return None;
        }
        for (from, es) in g.iter_edges() {
            if es.iter().any(|e| e.id == record.id) && *from != record.from {
                return Some(from.0);
            }
        }
    }
    None
}

/// `op_within` plus the state-dependent target: the old source of a moved edge must be declared too.
fn op_within_in(fp: &Fp, warp: [u8; 32], is_system: bool, op: &WarpOp, store: Option<&GraphStore>) -> Result<bool, String> {
    if !op_within(fp, warp, is_system, op)? {
        return Ok(false);
    }
    Ok(match moved_prev_direct(store, op) {
        Some(old) => fp.n_write.contains(&(warp, old)),
        None => true,
    })
}

fn fp_single_warp(fp: &Fp, warp: [u8; 32]) -> bool {
    fp.n_read.iter().chain(&fp.n_write).chain(&fp.e_read).chain(&fp.e_write).all(|(w, _)| *w == warp)
        && fp.a_read.iter().chain(&fp.a_write).all(|k| key_warp(k) == warp)
}

// ====================================================================== observable locations

#[derive(Clone, Copy, Debug, PartialEq, Eq, PartialOrd, Ord)]
enum Loc {
    Node([u8; 32], [u8; 32]),
    Adj([u8; 32], [u8; 32]),
    Edge([u8; 32], [u8; 32]),
    NAtt([u8; 32], [u8; 32]),
    EAtt([u8; 32], [u8; 32]),
}

impl Loc {
    fn str(&self) -> String {
        let (t, w, i) = match self {
            Loc::Node(w, i) => ("N", w, i),
            Loc::Adj(w, i) => ("A", w, i),
            Loc::Edge(w, i) => ("E", w, i),
            Loc::NAtt(w, i) => ("NA", w, i),
            Loc::EAtt(w, i) => ("EA", w, i),
        };
        format!("{t} {} {}", hex(w), hex(i))
    }
    fn warp(&self) -> [u8; 32] {
        match self {
            Loc::Node(w, _) | Loc::Adj(w, _) | Loc::Edge(w, _) | Loc::NAtt(w, _) | Loc::EAtt(w, _) => *w,
        }
    }
    fn kind(&self) -> &'static str {
        match self {
            Loc::Node(..) => "node",
            Loc::Adj(..) => "adjacency",
            Loc::Edge(..) => "edge",
            Loc::NAtt(..) => "node-attachment",
            Loc::EAtt(..) => "edge-attachment",
        }
    }
}

/// What a `GraphView` over each store can observe, location by location (through the public
/// read API of the real `GraphStore`).
fn observe(st: &WarpState) -> BTreeMap<Loc, String> {
    let mut m = BTreeMap::new();
    for (w, g) in hook::stores(st) {
        let mut node_ids: BTreeSet<[u8; 32]> = BTreeSet::new();
        for (id, r) in g.iter_nodes() {
            node_ids.insert(id.0);
            m.insert(Loc::Node(w.0, id.0), hex(&r.ty.0));
        }
        for (id, v) in g.iter_node_attachments() {
            m.insert(Loc::NAtt(w.0, id.0), att_str(v));
        }
        for (from, es) in g.iter_edges() {
            node_ids.insert(from.0);
            for e in es {
                m.insert(
                    Loc::Edge(w.0, e.id.0),
                    format!("{} {} {}", hex(&e.from.0), hex(&e.to.0), hex(&e.ty.0)),
                );
            }
        }
        for n in node_ids {
            let mut es: Vec<String> = g
                .edges_from(&NodeId(n))
                .map(|e| format!("{}:{}:{}:{}", hex(&e.id.0), hex(&e.from.0), hex(&e.to.0), hex(&e.ty.0)))
                .collect();
            es.sort();
            if !es.is_empty() {
                m.insert(Loc::Adj(w.0, n), es.join(","));
            }
        }
        for (id, v) in g.iter_edge_attachments() {
            m.insert(Loc::EAtt(w.0, id.0), att_str(v));
        }
    }
    m
}

fn changed_locs(a: &WarpState, b: &WarpState) -> Vec<Loc> {
    let (oa, ob) = (observe(a), observe(b));
    let keys: BTreeSet<Loc> = oa.keys().chain(ob.keys()).copied().collect();
    keys.into_iter().filter(|k| oa.get(k) != ob.get(k)).collect()
}

/// Instance granularity: the instance an instance-level op creates / replaces / deletes.
fn inst_warps(op: &WarpOp) -> Vec<[u8; 32]> {
    match op {
        WarpOp::OpenPortal { child_warp, init: PortalInit::Empty { .. }, .. } => vec![child_warp.0],
        WarpOp::UpsertWarpInstance { instance } => vec![instance.warp_id.0],
        WarpOp::DeleteWarpInstance { warp_id } => vec![warp_id.0],
        _ => vec![],
    }
}

fn loc_covered_by_targets(t: &ghook::Targets, op: &WarpOp, l: &Loc) -> bool {
    let in_warp = |w: &[u8; 32]| t.op_warp.map(|x| x.0) == Some(*w);
    let direct = match l {
        Loc::Node(w, i) | Loc::Adj(w, i) => in_warp(w) && t.nodes.contains(&NodeId(*i)),
        Loc::Edge(w, e) => in_warp(w) && t.edges.contains(&EdgeId(*e)),
        Loc::NAtt(w, i) => t
            .attachments
            .contains(&AttachmentKey::node_alpha(NodeKey { warp_id: WarpId(*w), local_id: NodeId(*i) })),
        Loc::EAtt(w, e) => t
            .attachments
            .contains(&AttachmentKey::edge_beta(EdgeKey { warp_id: WarpId(*w), local_id: EdgeId(*e) })),
    };
    direct || (t.is_instance_op && inst_warps(op).contains(&l.warp()))
}

/// `Some(old from)` iff `op` is an `UpsertEdge` whose id is stored under a different `from`.
fn reparent_old_from(st: &WarpState, op: &WarpOp) -> Option<([u8; 32], [u8; 32])> {
    if let WarpOp::UpsertEdge { warp_id, record } = op {
        let g = st.store(warp_id)?;
        for (from, es) in g.iter_edges() {
            if es.iter().any(|e| e.id == record.id) && *from != record.from {
                return Some((warp_id.0, from.0));
            }
        }
    }
    None
}

fn op_tag(op: &WarpOp) -> &'static str {
    match op {
        WarpOp::OpenPortal { .. } => "OP",
        WarpOp::UpsertWarpInstance { .. } => "UI",
        WarpOp::DeleteWarpInstance { .. } => "DI",
        WarpOp::UpsertNode { .. } => "UN",
        WarpOp::DeleteNode { .. } => "DN",
        WarpOp::UpsertEdge { .. } => "UE",
        WarpOp::DeleteEdge { .. } => "DE",
        WarpOp::SetAttachment { .. } => "SA",
    }
}

// ====================================================================== C14.targets  <state> <op>

fn targets_line(op: &WarpOp) -> Result<String, String> {
    let t = ghook::op_write_targets(op).ok_or("enforcement compiled out")?;
    let mut s = format!(
        "t {} inst {} warp {}",
        t.kind_str,
        u8::from(t.is_instance_op),
        t.op_warp.map_or_else(|| "-".to_string(), |w| hex(&w.0))
    );
    s.push_str(&format!(" nodes {}", t.nodes.len()));
    for n in &t.nodes {
        s.push_str(&format!(" {}", hex(&n.0)));
    }
    s.push_str(&format!(" edges {}", t.edges.len()));
    for e in &t.edges {
        s.push_str(&format!(" {}", hex(&e.0)));
    }
    s.push_str(&format!(" atts {}", t.attachments.len()));
    for a in &t.attachments {
        s.push_str(&format!(" {}", key_str(a)));
    }
    Ok(s)
}

fn imp_targets(t: &mut Toks) -> Result<String, String> {
    let a = parse_state(t)?;
    let op = parse_op(t)?;
    if !t.done() {
        return Err("trailing tokens".into());
    }
    let mut out = targets_line(&op)?;
    let op_warp = ghook::op_write_targets(&op).and_then(|t| t.op_warp);
    let moved = moved_prev(op_warp.and_then(|w| a.store(&w)), &op)?;
    out.push_str(&format!(" moved {}", moved.map_or_else(|| "-".to_string(), |n| hex(&n))));
    let mut b = a.clone();
    match hook::apply_ops(&mut b, std::slice::from_ref(&op)) {
        Err(e) => out.push_str(&format!(" ; err {}", err_class(&e))),
        Ok(()) => {
            let ch = changed_locs(&a, &b);
            out.push_str(&format!(" ; changed {}", ch.len()));
            for l in ch {
                out.push(' ');
                out.push_str(&l.str());
            }
        }
    }
    Ok(out)
}

fn oracle_targets(t: &mut Toks, _tier: Tier) -> Result<OracleOut, String> {
    let a = parse_state(t)?;
    let op = parse_op(t)?;
    let mut o = OracleOut::default();
    let tg = ghook::op_write_targets(&op).ok_or("enforcement compiled out")?;
    o.tags.push(format!("op:{}", op_tag(&op)));
    let mut b = a.clone();
    match hook::apply_ops(&mut b, std::slice::from_ref(&op)) {
        Err(e) => o.tags.push(format!("apply-err:{}", err_class(&e))),
        Ok(()) => {
            let ch = changed_locs(&a, &b);
            o.nontrivial = !ch.is_empty();
            let rep = reparent_old_from(&a, &op);
            if rep.is_some() {
                o.tags.push("reparent".into());
            }
            let moved = moved_prev(tg.op_warp.and_then(|w| a.store(&w)), &op)?;
            if moved.is_some() != rep.is_some() {
                o.fails.push((
                    "C14.moved-target-wrong".into(),
                    format!("moved_edge_previous_source = {:?} but the edge is stored under {:?}", moved.map(|n| hex(&n)), rep.map(|r| hex(&r.1))),
                ));
            }
            for l in &ch {
                o.tags.push(format!("changed:{}", l.kind()));
                let by_moved = matches!((l, moved, tg.op_warp), (Loc::Adj(w, n), Some(m), Some(ow)) if *w == ow.0 && *n == m);
                if by_moved {
                    o.tags.push("covered-by-moved-target".into());
                }
                if !by_moved && !loc_covered_by_targets(&tg, &op, l) {
                    let key = match (rep, l) {
                        (Some((w, old)), Loc::Adj(lw, ln)) if *lw == w && *ln == old => {
                            "C14.targets-miss.upsert-edge-reparent-old-from".to_string()
                        }
                        _ => format!("C14.targets-miss.{}.{}", tg.kind_str, l.kind()),
                    };
                    o.fails.push((
                        key,
                        format!("applying the op changed [{}] which is not among its attributed write targets", l.str()),
                    ));
                }
            }
        }
    }
    o.tags.sort();
    o.tags.dedup();
    Ok(o)
}

fn gen_att(rng: &mut Rng) -> String {
    match rng.below(6) {
        0 => "-".to_string(),
        1 => format!("d {}", sid(0xA2 + rng.below(2))),
        _ => {
            let n = rng.below(3) as usize;
            format!("a {} {}", sid(0x70 + rng.below(2)), hex(&rng.bytes(n)))
        }
    }
}

/// An op aimed at the given state: mostly existing ids (so that it applies), all shapes.
fn gen_op_for(rng: &mut Rng, st: &GState) -> String {
    let wids: Vec<u64> = st.warps.keys().copied().collect();
    let wid = if rng.chance(1, 16) { 0xEE } else { *rng.pick(&wids) };
    let empty = GWarp::default();
    let w = st.warps.get(&wid).unwrap_or(&empty);
    let nids: Vec<u64> = w.nodes.keys().copied().collect();
    let eids: Vec<u64> = w.edges.keys().copied().collect();
    let node = |rng: &mut Rng| if !nids.is_empty() && rng.chance(4, 5) { *rng.pick(&nids) } else { rng.range(1, 6) };
    let edge = |rng: &mut Rng| if !eids.is_empty() && rng.chance(4, 5) { *rng.pick(&eids) } else { 0x20 + rng.range(1, 5) };
    match rng.below(12) {
        0 => format!("UN {} {} {}", sid(wid), sid(node(rng)), sid(0x10 + rng.below(3))),
        1 => format!("DN {} {}", sid(wid), sid(node(rng))),
        2 | 3 | 4 => {
            // upsert: fresh edge, same-from rewrite, or RE-PARENT of an existing edge
            let e = edge(rng);
            let from = match (w.edges.get(&e), rng.below(3)) {
                (Some((f, _, _)), 0) => *f,
                _ => node(rng),
            };
            format!("UE {} {} {} {} {}", sid(wid), sid(e), sid(from), sid(node(rng)), sid(0x30 + rng.below(2)))
        }
        5 | 6 => {
            let e = edge(rng);
            let from = match w.edges.get(&e) {
                Some((f, _, _)) if rng.chance(4, 5) => *f,
                _ => node(rng),
            };
            format!("DE {} {} {}", sid(wid), sid(from), sid(e))
        }
        7 | 8 => {
            let (tag, local) = match rng.below(8) {
                0 => ("nb", node(rng)),
                1 => ("ea", edge(rng)),
                2..=4 => ("na", node(rng)),
                _ => ("eb", edge(rng)),
            };
            format!("SA {tag} {} {} {}", sid(wid), sid(local), gen_att(rng))
        }
        9 => {
            let (tag, local) = if rng.chance(2, 3) { ("na", node(rng)) } else { ("eb", edge(rng)) };
            format!(
                "OP {tag} {} {} {} {} {}",
                sid(wid),
                sid(local),
                sid(0xA2 + rng.below(3)),
                sid(rng.range(1, 2)),
                if rng.chance(2, 3) { format!("E {}", sid(0x10 + rng.below(2))) } else { "R".into() }
            )
        }
        10 => format!(
            "UI {} {} {}",
            sid(0xA1 + rng.below(4)),
            sid(rng.range(1, 2)),
            if rng.chance(1, 2) { "-".to_string() } else { format!("na {} {}", sid(wid), sid(node(rng))) }
        ),
        _ => format!("DI {}", sid(0xA1 + rng.below(4))),
    }
}

fn gen_targets(rng: &mut Rng, tier: Tier) -> Vec<String> {
    let n = if tier == Tier::Thorough { 12000 } else { 1200 };
    (0..n)
        .map(|case| {
            let st = gen_state(rng, 4, 3, case % 2 == 0);
            format!("{} {}", st.dump(), gen_op_for(rng, &st))
        })
        .collect()
}

// ====================================================================== C14.check  <warp> <sys> <fp> (OP op | RD read)

enum Access {
    Op(WarpOp),
    Rd(Rd),
}

fn parse_check(t: &mut Toks) -> Result<([u8; 32], bool, Fp, Access), String> {
    let warp = t.id()?;
    let sys = t.num()? != 0;
    let fp = parse_fp(t)?;
    let acc = match t.next()? {
        "OP" => Access::Op(parse_op(t)?),
        "RD" => {
            let tag = t.next()?;
            Access::Rd(parse_read_tag(tag, t)?.ok_or_else(|| format!("bad read {tag}"))?)
        }
        x => return Err(format!("bad access {x}")),
    };
    if !t.done() {
        return Err("trailing tokens".into());
    }
    Ok((warp, sys, fp, acc))
}

fn run_check(warp: [u8; 32], sys: bool, fp: &Fp, acc: &Access) -> Result<Option<FootprintViolation>, String> {
    let real = fp.to_real();
    match acc {
        Access::Op(op) => ghook::check_op(&real, WarpId(warp), sys, op),
        Access::Rd(r) => {
            let store = GraphStore::new(WarpId(warp));
            ghook::check_read(&real, &store, r.to_hook())
        }
    }
}

fn imp_check(t: &mut Toks) -> Result<String, String> {
    let (warp, sys, fp, acc) = parse_check(t)?;
    Ok(match run_check(warp, sys, &fp, &acc) {
        Ok(None) => "ok".to_string(),
        Ok(Some(v)) => violation_str(&v),
        Err(e) if e == "guard-construction-panic" => "guard-panic".to_string(),
        Err(e) => return Err(e),
    })
}

fn oracle_check(t: &mut Toks, _tier: Tier) -> Result<OracleOut, String> {
    let (warp, sys, fp, acc) = parse_check(t)?;
    let mut o = OracleOut::default();
    if !fp_single_warp(&fp, warp) {
        o.tags.push("cross-warp-footprint".into());
        return Ok(o);
    }
    let honest = match &acc {
        Access::Op(op) => op_within(&fp, warp, sys, op)?,
        Access::Rd(r) => r.declared(&fp, warp),
    };
    let res = run_check(warp, sys, &fp, &acc)?;
    o.nontrivial = true;
    match (&res, honest) {
        (None, true) => o.tags.push("honest-accepted".into()),
        (Some(v), false) => o.tags.push(format!("flagged:{}", kind_str(&v.kind).split(' ').next().unwrap_or(""))),
        (Some(v), true) => o.fails.push((
            "C14.honest-flagged.single-access".into(),
            format!("an access inside the declared footprint was flagged: {}", violation_str(v)),
        )),
        (None, false) => o.fails.push((
            format!("C14.undeclared-accepted.{}", match &acc {
                Access::Op(op) => op_tag(op),
                Access::Rd(_) => "read",
            }),
            "an access outside the declared footprint was accepted by the guard".into(),
        )),
    }
    Ok(o)
}

// ====================================================================== C14.checkin  <state> <warp> <sys> <fp> OP op
// the check `execute_item_enforced` runs on every emitted op: `check_op_in(store of the guard's warp, op)`

fn parse_checkin(t: &mut Toks) -> Result<(WarpState, [u8; 32], bool, Fp, WarpOp), String> {
    let st = parse_state(t)?;
    let warp = t.id()?;
    let sys = t.num()? != 0;
    let fp = parse_fp(t)?;
    if t.next()? != "OP" {
        return Err("expected OP".into());
    }
    let op = parse_op(t)?;
    if !t.done() {
        return Err("trailing tokens".into());
    }
    Ok((st, warp, sys, fp, op))
}

fn run_checkin(st: &WarpState, warp: [u8; 32], sys: bool, fp: &Fp, op: &WarpOp) -> Result<Option<Option<FootprintViolation>>, String> {
    let Some(store) = st.store(&WarpId(warp)) else { return Ok(None) };
    ghook::check_op_in(&fp.to_real(), store, sys, op).map(Some)
}

fn imp_checkin(t: &mut Toks) -> Result<String, String> {
    let (st, warp, sys, fp, op) = parse_checkin(t)?;
    Ok(match run_checkin(&st, warp, sys, &fp, &op) {
        Ok(None) => "missing-store".to_string(),
        Ok(Some(None)) => "ok".to_string(),
        Ok(Some(Some(v))) => violation_str(&v),
        Err(e) if e == "guard-construction-panic" => "guard-panic".to_string(),
        Err(e) => return Err(e),
    })
}

fn oracle_checkin(t: &mut Toks, _tier: Tier) -> Result<OracleOut, String> {
    let (st, warp, sys, fp, op) = parse_checkin(t)?;
    let mut o = OracleOut::default();
    if !fp_single_warp(&fp, warp) {
        o.tags.push("cross-warp-footprint".into());
        return Ok(o);
    }
    let store = st.store(&WarpId(warp));
    let Some(res) = run_checkin(&st, warp, sys, &fp, &op)? else {
        o.tags.push("missing-store".into());
        return Ok(o);
    };
    let moved = moved_prev_direct(store, &op);
    let honest = op_within_in(&fp, warp, sys, &op, store)?;
    o.nontrivial = true;
    o.tags.push(format!("op:{}", op_tag(&op)));
    if moved.is_some() {
        o.tags.push(if honest { "move-declared".into() } else { "move".into() });
    }
    match (&res, honest) {
        (None, true) => o.tags.push("honest-accepted".into()),
        (Some(v), false) => o.tags.push(format!("flagged:{}", kind_str(&v.kind).split(' ').next().unwrap_or(""))),
        (Some(v), true) => o.fails.push((
            "C14.honest-flagged.single-op".into(),
            format!("an op inside the declared footprint (incl. the old source of a moved edge) was flagged: {}", violation_str(v)),
        )),
        (None, false) => {
            let key = if moved.is_some() && op_within(&fp, warp, sys, &op)? {
                "C14.targets-miss.upsert-edge-reparent-old-from.accepted".to_string()
            } else {
                format!("C14.undeclared-accepted.{}", op_tag(&op))
            };
            o.fails.push((key, "an op outside the declared footprint was accepted by check_op_in".into()));
        }
    }
    // the accepted op, applied to the state the guard saw, changes only declared locations
    if res.is_none() {
        let mut b = st.clone();
        if hook::apply_ops(&mut b, std::slice::from_ref(&op)).is_ok() {
            for l in changed_locs(&st, &b) {
                let declared = match &l {
                    Loc::Node(w, i) | Loc::Adj(w, i) => fp.n_write.contains(&(*w, *i)),
                    Loc::Edge(w, e) => fp.e_write.contains(&(*w, *e)),
                    Loc::NAtt(w, i) => fp.a_write.contains(&AttachmentKey::node_alpha(NodeKey { warp_id: WarpId(*w), local_id: NodeId(*i) })),
                    Loc::EAtt(w, e) => fp.a_write.contains(&AttachmentKey::edge_beta(EdgeKey { warp_id: WarpId(*w), local_id: EdgeId(*e) })),
                } || (sys && inst_warps(&op).contains(&l.warp()));
                if !declared {
                    o.fails.push((
                        format!("C14.accepted-op-undeclared-change.{}", l.kind()),
                        format!("check_op_in accepted the op but applying it changed [{}], which the footprint does not declare as a write", l.str()),
                    ));
                }
            }
        }
    }
    o.tags.sort();
    o.tags.dedup();
    Ok(o)
}

fn gen_checkin(rng: &mut Rng, tier: Tier) -> Vec<String> {
    let n = if tier == Tier::Thorough { 12000 } else { 1500 };
    let mut out = Vec::new();
    for case in 0..n {
        let st = gen_state(rng, 4, 4, case % 4 == 0);
        let warp = if rng.chance(1, 30) { 0xEE } else { 0xA1u64 };
        let empty = GWarp::default();
        let gw = st.warps.get(&warp).unwrap_or(&empty);
        // declared sets: each id of the tiny universe with p = 2/3 (so that "only the old source is missing" is frequent)
        let sub = |rng: &mut Rng, base: u64, hi: u64| -> Vec<(u64, u64)> { (1..=hi).filter(|_| rng.chance(2, 3)).map(|i| (warp, base + i)).collect() };
        let (nr, nw, er, ew) = (sub(rng, 0, 4), sub(rng, 0, 4), sub(rng, 0x20, 4), sub(rng, 0x20, 4));
        let mut ksets: Vec<Vec<String>> = Vec::new();
        for _ in 0..2 {
            let mut v = Vec::new();
            for i in 1..=4 {
                if rng.chance(2, 3) {
                    v.push(key_line("na", warp, i));
                }
                if rng.chance(2, 3) {
                    v.push(key_line("eb", warp, 0x20 + i));
                }
            }
            ksets.push(v);
        }
        let fp = fp_line(&nr, &nw, &er, &ew, &ksets[0], &ksets[1]);
        let sys = u8::from(rng.chance(1, 4));
        let eids: Vec<u64> = gw.edges.keys().copied().collect();
        let op = if !eids.is_empty() && rng.chance(3, 5) {
            // upsert of an existing edge: same source, or MOVED to another source (old source declared or not)
            let e = *rng.pick(&eids);
            let from = if rng.chance(1, 4) { gw.edges[&e].0 } else { rng.range(1, 4) };
            let ow = if rng.chance(1, 12) { 0xA2 } else { warp };
            format!("UE {} {} {} {} {}", sid(ow), sid(e), sid(from), sid(rng.range(1, 4)), sid(0x30 + rng.below(2)))
        } else {
            gen_op_for(rng, &st)
        };
        out.push(format!("{} {} {sys} {fp} OP {op}", st.dump(), sid(warp)));
    }
    out
}

fn key_line(tag: &str, w: u64, i: u64) -> String {
    format!("{tag} {} {}", sid(w), sid(i))
}

fn fp_line(nr: &[(u64, u64)], nw: &[(u64, u64)], er: &[(u64, u64)], ew: &[(u64, u64)], ar: &[String], aw: &[String]) -> String {
    let pairs = |kw: &str, v: &[(u64, u64)]| {
        let mut s = format!(" {kw} {}", v.len());
        for (w, i) in v {
            s.push_str(&format!(" {} {}", sid(*w), sid(*i)));
        }
        s
    };
    let keys = |kw: &str, v: &[String]| {
        let mut s = format!(" {kw} {}", v.len());
        for k in v {
            s.push(' ');
            s.push_str(k);
        }
        s
    };
    format!("fp{}{}{}{}{}{}", pairs("nr", nr), pairs("nw", nw), pairs("er", er), pairs("ew", ew), keys("ar", ar), keys("aw", aw))
}

fn gen_check(rng: &mut Rng, tier: Tier) -> Vec<String> {
    let n = if tier == Tier::Thorough { 20000 } else { 2500 };
    let mut out = Vec::new();
    for _ in 0..n {
        let warp = 0xA1u64;
        let other = 0xA2u64;
        // tiny universe: node ids 1..3, edge ids 0x21..0x23; each set contains each key with p=1/2
        let fw = |rng: &mut Rng| if rng.chance(1, 150) { other } else { warp };
        let mut sets: Vec<Vec<(u64, u64)>> = Vec::new();
        for s in 0..4 {
            let base = if s < 2 { 0 } else { 0x20 };
            let mut v = Vec::new();
            for i in 1..=3 {
                if rng.chance(1, 2) {
                    v.push((fw(rng), base + i));
                }
            }
            sets.push(v);
        }
        let mut ksets: Vec<Vec<String>> = Vec::new();
        for _ in 0..2 {
            let mut v = Vec::new();
            for i in 1..=3 {
                if rng.chance(1, 2) {
                    v.push(key_line("na", fw(rng), i));
                }
                if rng.chance(1, 2) {
                    v.push(key_line("eb", fw(rng), 0x20 + i));
                }
            }
            if rng.chance(1, 10) {
                v.push(key_line("nb", warp, 1)); // plane-invalid key, only matches itself
            }
            ksets.push(v);
        }
        let fp = fp_line(&sets[0], &sets[1], &sets[2], &sets[3], &ksets[0], &ksets[1]);
        let sys = u8::from(rng.chance(1, 3));
        let ow = if rng.chance(1, 8) { other } else { warp };
        let node = rng.range(1, 3);
        let edge = 0x20 + rng.range(1, 3);
        let acc = match rng.below(14) {
            0 => format!("RD RN {}", sid(node)),
            1 => format!("RD RA {}", sid(node)),
            2 => format!("RD RNA {}", sid(node)),
            3 => format!("RD REA {}", sid(edge)),
            4 => format!("RD HE {}", sid(edge)),
            5 => format!("OP UN {} {} {}", sid(ow), sid(node), sid(0x10)),
            6 => format!("OP DN {} {}", sid(ow), sid(node)),
            7 => format!("OP UE {} {} {} {} {}", sid(ow), sid(edge), sid(node), sid(rng.range(1, 3)), sid(0x30)),
            8 => format!("OP DE {} {} {}", sid(ow), sid(node), sid(edge)),
            9 | 10 => {
                let k = match rng.below(5) {
                    0 => key_line("nb", ow, node),
                    1 | 2 => key_line("na", ow, node),
                    _ => key_line("eb", ow, edge),
                };
                format!("OP SA {k} {}", gen_att(rng))
            }
            11 => format!(
                "OP OP {} {} {} {}",
                if rng.chance(1, 2) { key_line("na", ow, node) } else { key_line("eb", ow, edge) },
                sid(0xA3),
                sid(1),
                if rng.chance(1, 2) { format!("E {}", sid(0x10)) } else { "R".into() }
            ),
            12 => format!("OP UI {} {} -", sid(ow), sid(1)),
            _ => format!("OP DI {}", sid(ow)),
        };
        out.push(format!("{} {sys} {fp} {acc}", sid(warp)));
    }
    out
}

// ====================================================================== C14.guard  <workers> <state> <k> item…
// item := <U|S> <warp> <scope> <fp> <prog>

struct Item {
    system: bool,
    warp: [u8; 32],
    scope: [u8; 32],
    fp: Fp,
    prog: Vec<Instr>,
}

struct GuardCase {
    workers: usize,
    state: WarpState,
    items: Vec<Item>,
}

fn parse_guard(t: &mut Toks) -> Result<GuardCase, String> {
    let workers = t.num()? as usize;
    let state = parse_state(t)?;
    let k = t.num()?;
    let mut items = Vec::new();
    for _ in 0..k {
        let system = match t.next()? {
            "U" => false,
            "S" => true,
            x => return Err(format!("bad rule kind {x}")),
        };
        let warp = t.id()?;
        let scope = t.id()?;
        let fp = parse_fp(t)?;
        let prog = parse_prog(t)?;
        items.push(Item { system, warp, scope, fp, prog });
    }
    if !t.done() {
        return Err("trailing tokens".into());
    }
    Ok(GuardCase { workers, state, items })
}

type ProgTable = BTreeMap<([u8; 32], [u8; 32]), (Fp, Vec<Instr>)>;
static PROGS: Mutex<Option<ProgTable>> = Mutex::new(None);

fn lookup(warp: WarpId, scope: &NodeId) -> Option<(Fp, Vec<Instr>)> {
    let g = PROGS.lock().unwrap_or_else(|e| e.into_inner());
    g.as_ref().and_then(|m| m.get(&(warp.0, scope.0)).cloned())
}

fn rule_matcher(view: GraphView<'_>, scope: &NodeId) -> bool {
    lookup(view.warp_id(), scope).is_some()
}

fn rule_footprint(view: GraphView<'_>, scope: &NodeId) -> Footprint {
    lookup(view.warp_id(), scope).map(|(fp, _)| fp.to_real()).unwrap_or_default()
}

/// The interpreter rule: every access goes through the (guarded) view it is handed.
fn rule_executor(view: GraphView<'_>, scope: &NodeId, delta: &mut TickDelta) {
    let Some((_, prog)) = lookup(view.warp_id(), scope) else { return };
    for ins in prog {
        match ins {
            Instr::Read(r) => {
                let _ = r.perform(view);
            }
            Instr::Emit(op) => delta.push(op),
            Instr::EmitIf(c, op) => {
                if c.perform(view) {
                    delta.push(op);
                }
            }
            Instr::Panic => std::panic::panic_any("verif-interpreter-panic"),
        }
    }
}

const USER_RULE: &str = "verif/c14-user";
const SYSTEM_RULE: &str = "sys/ack_pending"; // one of the two names the engine treats as system rules

fn mk_rule(name: &'static str) -> RewriteRule {
    RewriteRule {
        id: *blake3::hash(name.as_bytes()).as_bytes(),
        name,
        left: PatternGraph { nodes: vec![] },
        matcher: rule_matcher,
        executor: rule_executor,
        compute_footprint: rule_footprint,
        factor_mask: 0,
        conflict_policy: ConflictPolicy::Abort,
        join_fn: None,
    }
}

enum Outcome {
    Committed,
    CommitErr(String),
    Violation(FootprintViolation, bool),
    Panicked(String),
}

struct GuardRun {
    outcome: Outcome,
    pre: WarpState,
    post: WarpState,
}

fn run_guard(c: &GuardCase) -> Result<GuardRun, String> {
    let root_inst = hook::instances(&c.state)
        .into_iter()
        .find(|i| i.parent.is_none())
        .ok_or("no root instance")?;
    let root = NodeKey { warp_id: root_inst.warp_id, local_id: root_inst.root_node };
    let mut engine = EngineBuilder::from_state(c.state.clone(), root)
        .workers(c.workers.max(1))
        .build()
        .map_err(|e| format!("engine build: {e:?}"))?;
    engine.register_rule(mk_rule(USER_RULE)).map_err(|e| format!("register: {e:?}"))?;
    engine.register_rule(mk_rule(SYSTEM_RULE)).map_err(|e| format!("register: {e:?}"))?;
    let mut table = ProgTable::new();
    for it in &c.items {
        if table.insert((it.warp, it.scope), (it.fp.clone(), it.prog.clone())).is_some() {
            return Err("duplicate (warp, scope)".into());
        }
    }
    *PROGS.lock().unwrap_or_else(|e| e.into_inner()) = Some(table);
    let tx = engine.begin();
    for it in &c.items {
        let name = if it.system { SYSTEM_RULE } else { USER_RULE };
        match engine.apply_in_warp(tx, WarpId(it.warp), name, &NodeId(it.scope), &[]) {
            Ok(ApplyResult::Applied) => {}
            Ok(ApplyResult::NoMatch) => return Err("rule did not match".into()),
            Err(e) => return Err(format!("apply: {e:?}")),
        }
    }
    let pre = engine.state().clone();
    let r = std::panic::catch_unwind(std::panic::AssertUnwindSafe(|| engine.commit_with_receipt(tx)));
    *PROGS.lock().unwrap_or_else(|e| e.into_inner()) = None;
    let outcome = match r {
        Ok(Ok((_snap, receipt, _patch))) => {
            if receipt.entries().iter().any(|e| !matches!(e.disposition, warp_core::TickReceiptDisposition::Applied)) {
                return Err("a candidate was rejected by the scheduler (footprints of a case must be disjoint)".into());
            }
            Outcome::Committed
        }
        Ok(Err(e)) => Outcome::CommitErr(format!("{e:?}").chars().take(60).collect()),
        Err(p) => match p.downcast::<FootprintViolation>() {
            Ok(v) => Outcome::Violation(*v, false),
            Err(p) => match p.downcast::<FootprintViolationWithPanic>() {
                Ok(v) => Outcome::Violation(v.violation.clone(), true),
                Err(p) => Outcome::Panicked(
                    p.downcast_ref::<&str>().map(|s| (*s).to_string()).or_else(|| p.downcast_ref::<String>().cloned()).unwrap_or_default(),
                ),
            },
        },
    };
    let post = engine.state().clone();
    Ok(GuardRun { outcome, pre, post })
}

fn imp_guard(t: &mut Toks) -> Result<String, String> {
    let c = parse_guard(t)?;
    let r = run_guard(&c)?;
    Ok(match r.outcome {
        Outcome::Committed | Outcome::CommitErr(_) => "ok".to_string(),
        Outcome::Violation(v, with_panic) => {
            format!("{}{}", violation_str(&v), if with_panic { " with-panic" } else { "" })
        }
        Outcome::Panicked(m) => {
            if m == "verif-interpreter-panic" {
                "panic".to_string()
            } else {
                format!("panic-other {}", m.replace(' ', "_").chars().take(80).collect::<String>())
            }
        }
    })
}

/// Direct evaluation of "the item stays inside its declaration" on the real pre-state.
fn item_honest(it: &Item, st: &WarpState) -> Result<bool, String> {
    let store = st.store(&WarpId(it.warp)).ok_or("item warp missing")?;
    let view = GraphView::new(store); // unguarded: only to evaluate conditions
    for ins in &it.prog {
        match ins {
            Instr::Read(r) => {
                if !r.declared(&it.fp, it.warp) {
                    return Ok(false);
                }
            }
            Instr::Emit(op) => {
                if !op_within_in(&it.fp, it.warp, it.system, op, Some(store))? {
                    return Ok(false);
                }
            }
            Instr::EmitIf(c, op) => {
                if !c.declared(&it.fp, it.warp) {
                    return Ok(false);
                }
                if c.perform(view) && !op_within_in(&it.fp, it.warp, it.system, op, Some(store))? {
                    return Ok(false);
                }
            }
            Instr::Panic => return Ok(false),
        }
    }
    Ok(true)
}

/// Did the item emit an op outside its declared writes before it stopped (undeclared read / panic / end)?
fn undeclared_write_before_halt(it: &Item, st: &WarpState) -> Result<bool, String> {
    let store = st.store(&WarpId(it.warp)).ok_or("item warp missing")?;
    let view = GraphView::new(store);
    for ins in &it.prog {
        match ins {
            Instr::Read(r) => {
                if !r.declared(&it.fp, it.warp) {
                    return Ok(false);
                }
            }
            Instr::Emit(op) => {
                if !op_within_in(&it.fp, it.warp, it.system, op, Some(store))? {
                    return Ok(true);
                }
            }
            Instr::EmitIf(c, op) => {
                if !c.declared(&it.fp, it.warp) {
                    return Ok(false);
                }
                if c.perform(view) && !op_within_in(&it.fp, it.warp, it.system, op, Some(store))? {
                    return Ok(true);
                }
            }
            Instr::Panic => return Ok(false),
        }
    }
    Ok(false)
}

fn oracle_guard(t: &mut Toks, _tier: Tier) -> Result<OracleOut, String> {
    let c = parse_guard(t)?;
    let mut o = OracleOut::default();
    let r = run_guard(&c)?;
    let mut dishonest = 0;
    for it in &c.items {
        if !item_honest(it, &c.state)? {
            dishonest += 1;
        }
    }
    o.tags.push(format!("items:{}", c.items.len()));
    o.tags.push(format!("workers:{}", c.workers));
    o.nontrivial = c.items.len() >= 2 || dishonest > 0;
    let same = state_str(&r.pre) == state_str(&r.post) && observe(&r.pre) == observe(&r.post);
    match &r.outcome {
        Outcome::Committed | Outcome::CommitErr(_) => {
            if dishonest > 0 {
                o.fails.push((
                    "C14.undeclared-access-not-flagged".into(),
                    "a rewrite left its declared footprint and the tick was not failed by enforcement".into(),
                ));
            }
            if let Outcome::CommitErr(e) = &r.outcome {
                o.tags.push("commit-err".into());
                let _ = e;
            } else {
                o.tags.push("committed".into());
                // every visible change must lie inside some admitted rewrite's declared writes
                let ch = changed_locs(&r.pre, &r.post);
                for l in &ch {
                    let declared = c.items.iter().any(|it| match l {
                        Loc::Node(w, i) | Loc::Adj(w, i) => it.fp.n_write.contains(&(*w, *i)),
                        Loc::Edge(w, e) => it.fp.e_write.contains(&(*w, *e)),
                        Loc::NAtt(w, i) => it.fp.a_write.contains(&AttachmentKey::node_alpha(NodeKey {
                            warp_id: WarpId(*w),
                            local_id: NodeId(*i),
                        })),
                        Loc::EAtt(w, e) => it.fp.a_write.contains(&AttachmentKey::edge_beta(EdgeKey {
                            warp_id: WarpId(*w),
                            local_id: EdgeId(*e),
                        })),
                    }) || c.items.iter().any(|it| {
                        it.system
                            && it.prog.iter().any(|ins| match ins {
                                Instr::Emit(op) | Instr::EmitIf(_, op) => inst_warps(op).contains(&l.warp()),
                                _ => false,
                            })
                    });
                    if !declared {
                        let rep = c.items.iter().flat_map(|it| it.prog.iter()).any(|ins| match ins {
                            Instr::Emit(op) | Instr::EmitIf(_, op) => {
                                matches!((reparent_old_from(&r.pre, op), l), (Some((w, old)), Loc::Adj(lw, ln)) if *lw == w && *ln == old)
                            }
                            _ => false,
                        });
                        let key = if rep {
                            "C14.targets-miss.upsert-edge-reparent-old-from.committed".to_string()
                        } else {
                            format!("C14.commit-undeclared-change.{}", l.kind())
                        };
                        o.fails.push((key, format!("the committed tick changed [{}] which no admitted rewrite declared as a write", l.str())));
                    }
                }
            }
        }
        Outcome::Violation(v, wp) => {
            o.tags.push(format!("flagged:{}", kind_str(&v.kind).split(' ').next().unwrap_or("")));
            if *wp {
                o.tags.push("with-panic".into());
            }
            if dishonest == 0 {
                o.fails.push((
                    "C14.honest-flagged.tick".into(),
                    format!("every rewrite stayed inside its declaration but the tick was flagged: {}", violation_str(v)),
                ));
            }
            if !same {
                o.fails.push(("C14.violation-partially-visible".into(), "engine state after the failed commit differs from the pre-state".into()));
            }
        }
        Outcome::Panicked(m) => {
            o.tags.push("executor-panic".into());
            // an undeclared write emitted before the executor panicked must still be reported as a violation
            for it in &c.items {
                if undeclared_write_before_halt(it, &c.state)? {
                    o.fails.push((
                        "C14.write-violation-masked-by-panic".into(),
                        "an op outside the declared writes was emitted before the executor panicked, but the tick failed with the executor's payload only".into(),
                    ));
                }
            }
            if m != "verif-interpreter-panic" {
                o.fails.push(("C14.unexpected-panic".into(), format!("commit panicked with a foreign payload: {m}")));
            }
            if !same {
                o.fails.push(("C14.violation-partially-visible".into(), "engine state after the failed commit differs from the pre-state".into()));
            }
        }
    }
    o.tags.sort();
    o.tags.dedup();
    Ok(o)
}

// ---------------------------------------------------------------------- generator

#[derive(Clone)]
struct GItem {
    system: bool,
    warp: u64,
    scope: String,
    nr: Vec<(u64, u64)>,
    nw: Vec<(u64, u64)>,
    er: Vec<(u64, u64)>,
    ew: Vec<(u64, u64)>,
    ar: Vec<String>,
    aw: Vec<String>,
    prog: Vec<String>,
    /// a fresh node id private to this item
    own_node: u64,
    /// old sources of edges the item's upserts move (declared in `nw`)
    moved_old: Vec<u64>,
}

impl GItem {
    fn line(&self) -> String {
        format!(
            "{} {} {} {} {} {}",
            if self.system { "S" } else { "U" },
            sid(self.warp),
            self.scope,
            fp_line(&self.nr, &self.nw, &self.er, &self.ew, &self.ar, &self.aw),
            self.prog.len(),
            self.prog.join(" ")
        )
    }
}

fn push_uniq<T: PartialEq>(v: &mut Vec<T>, x: T) {
    if !v.contains(&x) {
        v.push(x);
    }
}

/// One honest item over its private id pool (`nodes`, `edges` in warp `w`): the footprint is exactly
/// what the program reads and what the real table attributes to the ops it may emit. Ops are chosen
/// so that they mostly apply to the pre-state (the tick should commit when nobody misbehaves).
fn gen_honest_item(rng: &mut Rng, st: &GState, w: u64, nodes: &[u64], edges: &[u64], scope: String, system: bool) -> GItem {
    let mut it = GItem { system, warp: w, scope, nr: vec![], nw: vec![], er: vec![], ew: vec![], ar: vec![], aw: vec![], prog: vec![], own_node: *nodes.last().unwrap_or(&1), moved_old: vec![] };
    let gw = &st.warps[&w];
    let portal = |a: Option<&GAtt>| matches!(a, Some(GAtt::Descend(_)));
    let live_nodes: Vec<u64> = nodes.iter().copied().filter(|n| gw.nodes.contains_key(n)).collect();
    let live_edges: Vec<u64> = edges.iter().copied().filter(|e| gw.edges.contains_key(e)).collect();
    let mut used: BTreeSet<String> = BTreeSet::new();
    let n_instr = rng.range(1, 5);
    for _ in 0..n_instr {
        let n = *rng.pick(nodes);
        let e = *rng.pick(edges);
        let choice = rng.below(if system { 16 } else { 13 });
        // conditional wrapper for emits
        let emit = |it: &mut GItem, rng: &mut Rng, op: String| {
            match rng.below(4) {
                0 => {
                    let c = *rng.pick(nodes);
                    push_uniq(&mut it.nr, (w, c));
                    it.prog.push(format!("EI N {} {op}", sid(c)));
                }
                1 => {
                    let c = *rng.pick(edges);
                    push_uniq(&mut it.er, (w, c));
                    it.prog.push(format!("EI E {} {op}", sid(c)));
                }
                _ => it.prog.push(format!("EM {op}")),
            }
        };
        match choice {
            0 => {
                push_uniq(&mut it.nr, (w, n));
                it.prog.push(format!("RN {}", sid(n)));
            }
            1 => {
                push_uniq(&mut it.nr, (w, n));
                it.prog.push(format!("RA {}", sid(n)));
            }
            2 => {
                push_uniq(&mut it.ar, key_line("na", w, n));
                it.prog.push(format!("RNA {}", sid(n)));
            }
            3 => {
                push_uniq(&mut it.ar, key_line("eb", w, e));
                it.prog.push(format!("REA {}", sid(e)));
            }
            4 => {
                push_uniq(&mut it.er, (w, e));
                it.prog.push(format!("HE {}", sid(e)));
            }
            5 | 6 => {
                if used.insert(format!("n{n}")) {
                    push_uniq(&mut it.nw, (w, n));
                    let op = format!("UN {} {} {}", sid(w), sid(n), sid(0x10 + rng.below(3)));
                    emit(&mut it, rng, op);
                }
            }
            7 | 8 => {
                // upsert an own edge from an own node (may re-parent an existing edge: known finding)
                let old_from = gw.edges.get(&e).map(|x| x.0);
                let foreign = old_from.is_some_and(|f| !nodes.contains(&f));
                if !foreign && used.insert(format!("e{e}")) {
                    push_uniq(&mut it.nw, (w, n));
                    push_uniq(&mut it.ew, (w, e));
                    if let Some(f) = old_from {
                        if f != n {
                            // the upsert MOVES the edge: its old source is a write target too
                            push_uniq(&mut it.nw, (w, f));
                            it.moved_old.push(f);
                        }
                    }
                    let to = *rng.pick(nodes);
                    let op = format!("UE {} {} {} {} {}", sid(w), sid(e), sid(n), sid(to), sid(0x30 + rng.below(2)));
                    emit(&mut it, rng, op);
                }
            }
            9 => {
                // delete an own, non-portal edge under its current source when that source is ours
                let cands: Vec<u64> = live_edges
                    .iter()
                    .copied()
                    .filter(|e| nodes.contains(&gw.edges[e].0) && !portal(gw.eatts.get(e)))
                    .collect();
                if !cands.is_empty() {
                    let e = *rng.pick(&cands);
                    if used.insert(format!("e{e}")) && used.insert(format!("eb{e}")) {
                        let from = gw.edges[&e].0;
                        push_uniq(&mut it.nw, (w, from));
                        push_uniq(&mut it.ew, (w, e));
                        push_uniq(&mut it.aw, key_line("eb", w, e));
                        let op = format!("DE {} {} {}", sid(w), sid(from), sid(e));
                        emit(&mut it, rng, op);
                    }
                }
            }
            10 => {
                let cands: Vec<u64> = live_nodes.iter().copied().filter(|n| !portal(gw.natts.get(n))).collect();
                if !cands.is_empty() {
                    let n = *rng.pick(&cands);
                    if used.insert(format!("na{n}")) {
                        push_uniq(&mut it.aw, key_line("na", w, n));
                        let op = format!("SA na {} {} {}", sid(w), sid(n), gen_att_atom(rng));
                        emit(&mut it, rng, op);
                    }
                }
            }
            11 | 15 => {
                let cands: Vec<u64> = live_edges.iter().copied().filter(|e| !portal(gw.eatts.get(e))).collect();
                if !cands.is_empty() {
                    let e = *rng.pick(&cands);
                    if used.insert(format!("eb{e}")) {
                        push_uniq(&mut it.aw, key_line("eb", w, e));
                        let op = format!("SA eb {} {} {}", sid(w), sid(e), gen_att_atom(rng));
                        emit(&mut it, rng, op);
                    }
                }
            }
            12 => {
                // delete an own isolated, non-root, non-portal node
                let cands: Vec<u64> = live_nodes
                    .iter()
                    .copied()
                    .filter(|n| *n != gw.root && !portal(gw.natts.get(n)) && !gw.edges.values().any(|(f, t, _)| f == n || t == n))
                    .collect();
                if !cands.is_empty() {
                    let n = *rng.pick(&cands);
                    if used.insert(format!("n{n}")) && used.insert(format!("na{n}")) {
                        push_uniq(&mut it.nw, (w, n));
                        push_uniq(&mut it.aw, key_line("na", w, n));
                        let op = format!("DN {} {}", sid(w), sid(n));
                        emit(&mut it, rng, op);
                    }
                }
            }
            13 => {
                // system only: open a portal to a fresh child instance on an own, attachment-free node slot
                let cands: Vec<u64> = live_nodes.iter().copied().filter(|n| !gw.natts.contains_key(n)).collect();
                if !cands.is_empty() {
                    let n = *rng.pick(&cands);
                    let child = 0xC0 + (n % 8);
                    if used.insert(format!("na{n}")) {
                        push_uniq(&mut it.aw, key_line("na", w, n));
                        let op = format!("OP na {} {} {} {} E {}", sid(w), sid(n), sid(child), sid(1), sid(0x10));
                        emit(&mut it, rng, op);
                    }
                }
            }
            _ => {
                // system only: re-assert the own instance header (an instance op on the guard's warp)
                if used.insert("ui".to_string()) {
                    let parent = match gw.parent {
                        None => "-".to_string(),
                        Some((false, pw, pi)) => key_line("na", pw, pi),
                        Some((true, pw, pi)) => key_line("eb", pw, pi),
                    };
                    let op = format!("UI {} {} {parent}", sid(w), sid(gw.root));
                    emit(&mut it, rng, op);
                }
            }
        }
    }
    if it.prog.is_empty() {
        push_uniq(&mut it.nr, (w, nodes[0]));
        it.prog.push(format!("RN {}", sid(nodes[0])));
    }
    it
}

fn gen_att_atom(rng: &mut Rng) -> String {
    if rng.chance(1, 6) {
        return "-".to_string();
    }
    let n = rng.below(3) as usize;
    format!("a {} {}", sid(0x70 + rng.below(2)), hex(&rng.bytes(n)))
}

/// Turns an honest item into one that leaves its declaration in exactly one way.
fn make_dishonest(rng: &mut Rng, it: &mut GItem, foreign_node: u64, foreign_edge: u64) -> &'static str {
    let w = it.warp;
    let pos = rng.below(it.prog.len() as u64 + 1) as usize;
    for _ in 0..8 {
        match rng.below(14) {
            0 if !it.nr.is_empty() => {
                let i = rng.below(it.nr.len() as u64) as usize;
                it.nr.remove(i);
                return "drop-n_read";
            }
            1 if !it.er.is_empty() => {
                let i = rng.below(it.er.len() as u64) as usize;
                it.er.remove(i);
                return "drop-e_read";
            }
            2 if !it.ar.is_empty() => {
                let i = rng.below(it.ar.len() as u64) as usize;
                it.ar.remove(i);
                return "drop-a_read";
            }
            3 if !it.nw.is_empty() => {
                let i = rng.below(it.nw.len() as u64) as usize;
                it.nw.remove(i);
                return "drop-n_write";
            }
            4 if !it.ew.is_empty() => {
                let i = rng.below(it.ew.len() as u64) as usize;
                it.ew.remove(i);
                return "drop-e_write";
            }
            5 if !it.aw.is_empty() => {
                let i = rng.below(it.aw.len() as u64) as usize;
                it.aw.remove(i);
                return "drop-a_write";
            }
            6 => {
                // an extra undeclared read of somebody else's node / adjacency / attachment / edge
                let r = match rng.below(5) {
                    0 => format!("RN {}", sid(foreign_node)),
                    1 => format!("RA {}", sid(foreign_node)),
                    2 => format!("RNA {}", sid(foreign_node)),
                    3 => format!("REA {}", sid(foreign_edge)),
                    _ => format!("HE {}", sid(foreign_edge)),
                };
                it.prog.insert(pos, r);
                return "extra-read";
            }
            7 => {
                let op = match rng.below(5) {
                    0 => format!("UN {} {} {}", sid(w), sid(foreign_node), sid(0x12)),
                    1 => format!("SA na {} {} a {} 01", sid(w), sid(foreign_node), sid(0x70)),
                    2 => format!("UE {} {} {} {} {}", sid(w), sid(foreign_edge), sid(foreign_node), sid(foreign_node), sid(0x30)),
                    3 => format!("DE {} {} {}", sid(w), sid(foreign_node), sid(foreign_edge)),
                    _ => format!("DN {} {}", sid(w), sid(foreign_node)),
                };
                it.prog.insert(pos, format!("EM {op}"));
                return "extra-write";
            }
            8 => {
                // cross-instance write: the op names another warp (declared or not, it must be refused)
                let ow = if w == 0xA1 { 0xA2 } else { 0xA1 };
                let n = it.nw.first().map_or(1, |x| x.1);
                let op = match rng.below(3) {
                    0 => format!("UN {} {} {}", sid(ow), sid(n), sid(0x12)),
                    1 => format!("SA na {} {} -", sid(ow), sid(n)),
                    _ => format!("UE {} {} {} {} {}", sid(ow), sid(0x21), sid(n), sid(n), sid(0x30)),
                };
                it.prog.insert(pos, format!("EM {op}"));
                return "cross-warp";
            }
            9 if !it.system => {
                let n = it.own_node;
                let op = match rng.below(3) {
                    0 => {
                        push_uniq(&mut it.aw, key_line("na", w, n));
                        format!("OP na {} {} {} {} E {}", sid(w), sid(n), sid(0xC0), sid(1), sid(0x10))
                    }
                    1 => format!("UI {} {} -", sid(w), sid(1)),
                    _ => format!("DI {}", sid(w)),
                };
                it.prog.insert(pos, format!("EM {op}"));
                return "instance-op-by-user-rule";
            }
            10 => {
                it.prog.insert(pos, "PANIC".to_string());
                return "executor-panic";
            }
            13 if !it.moved_old.is_empty() => {
                // omit exactly the old source of a moved edge (when nothing else of the item needs it)
                let f = it.moved_old[rng.below(it.moved_old.len() as u64) as usize];
                it.nw.retain(|x| *x != (w, f));
                return "drop-moved-old-source";
            }
            11 => {
                // undeclared write, then a panic: FootprintViolationWithPanic
                it.prog.insert(pos, "PANIC".to_string());
                it.prog.insert(pos, format!("EM UN {} {} {}", sid(w), sid(foreign_node), sid(0x12)));
                return "write-then-panic";
            }
            12 => {
                // undeclared write, then an undeclared read (the read panics first, the write is found post hoc)
                it.prog.insert(pos, format!("RN {}", sid(foreign_node)));
                it.prog.insert(pos, format!("EM UN {} {} {}", sid(w), sid(foreign_node), sid(0x12)));
                return "write-then-bad-read";
            }
            _ => {}
        }
    }
    it.prog.insert(pos, "PANIC".to_string());
    "executor-panic"
}

fn gen_guard(rng: &mut Rng, tier: Tier) -> Vec<String> {
    let n = if tier == Tier::Thorough { 6000 } else { 700 };
    let mut out = Vec::new();
    for case in 0..n {
        let st = gen_state(rng, 5, 4, case % 3 == 0);
        let k = rng.range(1, 5) as usize;
        let workers = rng.range(1, 4);
        let wids: Vec<u64> = st.warps.keys().copied().collect();
        let mut items: Vec<GItem> = Vec::new();
        for i in 0..k {
            // private pools: state ids congruent to i mod k, plus two fresh ids
            let w = if rng.chance(3, 4) { 0xA1 } else { *rng.pick(&wids) };
            let nodes: Vec<u64> = (1..=6u64).filter(|x| (*x as usize) % k == i).chain([0x100 + i as u64]).collect();
            let edges: Vec<u64> = (0x21..=0x26u64).filter(|x| (*x as usize) % k == i).chain([0x200 + i as u64]).collect();
            // scope ids: byte 0 selects the shard (work unit); the tail keeps them distinct
            let mut sc = small_id(0x50 + i as u64);
            sc[0] = rng.below(3) as u8;
            let system = rng.chance(1, 6);
            items.push(gen_honest_item(rng, &st, w, &nodes, &edges, hex(&sc), system));
        }
        // two of three cases: exactly one rewrite leaves its declaration, at a random position
        if case % 3 != 1 {
            let bad = rng.below(k as u64) as usize;
            let other = (bad + 1) % k;
            let (fnode, fedge) = if k > 1 {
                ((1..=6u64).find(|x| (*x as usize) % k == other).unwrap_or(0x100 + other as u64), 0x200 + other as u64)
            } else {
                (0x1F0, 0x2F0)
            };
            let _ = make_dishonest(rng, &mut items[bad], fnode, fedge);
        }
        rng.shuffle(&mut items);
        let mut line = format!("{workers} {} {k}", st.dump());
        for it in &items {
            line.push(' ');
            line.push_str(&it.line());
        }
        out.push(line);
    }
    out
}

// ====================================================================== C14.tick  <workers> <state> <k> item…
// Engine level, systematic: real `Engine::apply_in_warp` + `commit_with_receipt` ticks whose rewrites are
// scoped at REAL nodes spread over shards (work units), read their own scope node, and whose footprint
// omits EXACTLY ONE access the program performs (every read accessor, every target of every op kind,
// the scope node itself, the old source of a moved edge), or which write into another instance /
// emit an instance-level op. The violator index, the shard layout and the worker count are enumerated.
// Output: the violation, or `ok changed …` = the locations the committed tick changed.

fn imp_tick(t: &mut Toks) -> Result<String, String> {
    let c = parse_guard(t)?;
    let r = run_guard(&c)?;
    Ok(match r.outcome {
        Outcome::Committed => {
            let ch = changed_locs(&r.pre, &r.post);
            let mut out = format!("ok changed {}", ch.len());
            for l in ch {
                out.push(' ');
                out.push_str(&l.str());
            }
            out
        }
        Outcome::CommitErr(_) => "ok commit-err".to_string(),
        Outcome::Violation(v, with_panic) => format!("{}{}", violation_str(&v), if with_panic { " with-panic" } else { "" }),
        Outcome::Panicked(m) => {
            if m == "verif-interpreter-panic" {
                "panic".to_string()
            } else {
                format!("panic-other {}", m.replace(' ', "_").chars().take(80).collect::<String>())
            }
        }
    })
}

/// The first access of the item that leaves the DECLARED footprint, named for the finding key.
fn first_undeclared(it: &Item, st: &WarpState) -> Result<Option<String>, String> {
    let store = st.store(&WarpId(it.warp)).ok_or("item warp missing")?;
    let view = GraphView::new(store);
    let rd_name = |r: &Rd| -> String {
        let (tag, id) = match r {
            Rd::Node(i) => ("node", i),
            Rd::Adj(i) => ("edges_from", i),
            Rd::NodeAtt(i) => ("node_attachment", i),
            Rd::EdgeAtt(i) => ("edge_attachment", i),
            Rd::HasEdge(i) => ("has_edge", i),
        };
        format!("read.{tag}{}", if *id == it.scope { ".scope-node" } else { "" })
    };
    let op_name = |op: &WarpOp| -> Result<String, String> {
        let t = ghook::op_write_targets(op).ok_or("enforcement compiled out")?;
        let why = if t.is_instance_op && !it.system {
            "instance-op-by-user-rule"
        } else if t.op_warp.map(|w| w.0) != Some(it.warp) {
            "cross-warp"
        } else if !op_within(&it.fp, it.warp, it.system, op)? {
            "target"
        } else {
            "moved-old-source"
        };
        Ok(format!("write.{}.{why}", op_tag(op)))
    };
    for ins in &it.prog {
        match ins {
            Instr::Read(r) => {
                if !r.declared(&it.fp, it.warp) {
                    return Ok(Some(rd_name(r)));
                }
            }
            Instr::Emit(op) => {
                if !op_within_in(&it.fp, it.warp, it.system, op, Some(store))? {
                    return Ok(Some(op_name(op)?));
                }
            }
            Instr::EmitIf(c, op) => {
                if !c.declared(&it.fp, it.warp) {
                    return Ok(Some(rd_name(c)));
                }
                if c.perform(view) && !op_within_in(&it.fp, it.warp, it.system, op, Some(store))? {
                    return Ok(Some(op_name(op)?));
                }
            }
            Instr::Panic => return Ok(Some("executor-panic".into())),
        }
    }
    Ok(None)
}

fn oracle_tick(t: &mut Toks, _tier: Tier) -> Result<OracleOut, String> {
    let c = parse_guard(t)?;
    let mut o = OracleOut::default();
    let r = run_guard(&c)?;
    let mut bad: Vec<(usize, String)> = Vec::new();
    for (ix, it) in c.items.iter().enumerate() {
        if let Some(w) = first_undeclared(it, &c.state)? {
            bad.push((ix, w));
        }
    }
    o.nontrivial = true;
    o.tags.push(format!("items:{}", c.items.len()));
    o.tags.push(format!("workers:{}", c.workers));
    let units: BTreeSet<([u8; 32], u8)> = c.items.iter().map(|it| (it.warp, it.scope[0])).collect();
    o.tags.push(format!("units:{}", units.len()));
    for (ix, w) in &bad {
        o.tags.push(format!("omit:{w}"));
        o.tags.push(format!("violator-at:{ix}/{}", c.items.len()));
        o.tags.push(format!("violator-shard:{}", c.items[*ix].scope[0]));
    }
    let same = state_str(&r.pre) == state_str(&r.post) && observe(&r.pre) == observe(&r.post);
    match &r.outcome {
        Outcome::Committed | Outcome::CommitErr(_) => {
            for (_, w) in &bad {
                o.fails.push((
                    format!("C14.tick.not-flagged.{w}"),
                    format!("a rewrite performed an access outside its declared footprint ({w}) and the tick was not failed by enforcement"),
                ));
            }
            if matches!(r.outcome, Outcome::Committed) {
                o.tags.push("committed".into());
                for l in &changed_locs(&r.pre, &r.post) {
                    let declared = c.items.iter().any(|it| match l {
                        Loc::Node(w, i) | Loc::Adj(w, i) => it.fp.n_write.contains(&(*w, *i)),
                        Loc::Edge(w, e) => it.fp.e_write.contains(&(*w, *e)),
                        Loc::NAtt(w, i) => it.fp.a_write.contains(&AttachmentKey::node_alpha(NodeKey { warp_id: WarpId(*w), local_id: NodeId(*i) })),
                        Loc::EAtt(w, e) => it.fp.a_write.contains(&AttachmentKey::edge_beta(EdgeKey { warp_id: WarpId(*w), local_id: EdgeId(*e) })),
                    }) || c.items.iter().any(|it| {
                        it.system
                            && it.prog.iter().any(|ins| match ins {
                                Instr::Emit(op) | Instr::EmitIf(_, op) => inst_warps(op).contains(&l.warp()),
                                _ => false,
                            })
                    });
                    if !declared {
                        o.fails.push((
                            format!("C14.tick.commit-undeclared-change.{}", l.kind()),
                            format!("the committed tick changed [{}] which no admitted rewrite declared as a write", l.str()),
                        ));
                    }
                }
            } else {
                o.tags.push("commit-err".into());
            }
        }
        Outcome::Violation(v, wp) => {
            o.tags.push(format!("flagged:{}", kind_str(&v.kind).split(' ').next().unwrap_or("")));
            if *wp {
                o.tags.push("with-panic".into());
            }
            if bad.is_empty() {
                o.fails.push((
                    "C14.tick.honest-flagged".into(),
                    format!("every rewrite stayed inside its declaration but the tick was flagged: {}", violation_str(v)),
                ));
            }
            if !same {
                o.fails.push(("C14.tick.violation-partially-visible".into(), "Engine::state() after the failed commit differs from the pre-state".into()));
            }
        }
        Outcome::Panicked(m) => {
            o.tags.push("executor-panic".into());
            for it in &c.items {
                if undeclared_write_before_halt(it, &c.state)? {
                    o.fails.push(("C14.tick.write-violation-masked-by-panic".into(), "an op outside the declared writes was emitted before the executor panicked, but the tick failed with the executor's payload only".into()));
                }
            }
            if m != "verif-interpreter-panic" {
                o.fails.push(("C14.tick.unexpected-panic".into(), format!("commit panicked with a foreign payload: {m}")));
            }
            if !same {
                o.fails.push(("C14.tick.violation-partially-visible".into(), "Engine::state() after the failed commit differs from the pre-state".into()));
            }
        }
    }
    o.tags.sort();
    o.tags.dedup();
    Ok(o)
}

// ---------------------------------------------------------------------- systematic generator

fn xid(b0: u8, b30: u8, b31: u8) -> String {
    let mut b = [0u8; 32];
    b[0] = b0;
    b[30] = b30;
    b[31] = b31;
    hex(&b)
}

/// One item's private pool in warp `w`: scope S (shard = first byte), N2, N3 (isolated), N4, edges
/// E1 = S→N2 (β atom), E2 = N4→N2, E3 (absent).
struct Pool {
    w: u64,
    s: String,
    n2: String,
    n3: String,
    n4: String,
    e1: String,
    e2: String,
    e3: String,
}

fn pool(w: u64, shard: u8, i: u8) -> Pool {
    let b = 0x10 * (i + 1);
    Pool {
        w,
        s: xid(shard, 0, b),
        n2: xid(shard, 0, b + 1),
        n3: xid(shard, 0, b + 2),
        n4: xid(shard, 0, b + 3),
        e1: xid(0, 2, b + 1),
        e2: xid(0, 2, b + 2),
        e3: xid(0, 2, b + 3),
    }
}

#[derive(Clone, Default)]
struct TFp {
    nr: Vec<String>,
    nw: Vec<String>,
    er: Vec<String>,
    ew: Vec<String>,
    ar: Vec<String>, // "na <id>" / "eb <id>" (warp added when printed)
    aw: Vec<String>,
}

impl TFp {
    fn line(&self, w: u64) -> String {
        let pairs = |kw: &str, v: &[String]| {
            let mut s = format!(" {kw} {}", v.len());
            for i in v {
                s.push_str(&format!(" {} {i}", sid(w)));
            }
            s
        };
        let keys = |kw: &str, v: &[String]| {
            let mut s = format!(" {kw} {}", v.len());
            for k in v {
                let (tag, id) = k.split_once(' ').unwrap_or(("na", ""));
                s.push_str(&format!(" {tag} {} {id}", sid(w)));
            }
            s
        };
        format!("fp{}{}{}{}{}{}", pairs("nr", &self.nr), pairs("nw", &self.nw), pairs("er", &self.er), pairs("ew", &self.ew), keys("ar", &self.ar), keys("aw", &self.aw))
    }
    fn entries(&self) -> usize {
        self.nr.len() + self.nw.len() + self.er.len() + self.ew.len() + self.ar.len() + self.aw.len()
    }
    /// removes the `ix`-th declared entry (over the six sets in order); returns its description
    fn omit(&mut self, mut ix: usize) -> String {
        for (name, v) in [("n_read", &mut self.nr), ("n_write", &mut self.nw), ("e_read", &mut self.er), ("e_write", &mut self.ew), ("a_read", &mut self.ar), ("a_write", &mut self.aw)] {
            if ix < v.len() {
                v.remove(ix);
                return name.to_string();
            }
            ix -= v.len();
        }
        "none".into()
    }
}

struct TItem {
    system: bool,
    p: Pool,
    fp: TFp,
    prog: Vec<String>,
}

impl TItem {
    fn line(&self) -> String {
        format!("{} {} {} {} {} {}", if self.system { "S" } else { "U" }, sid(self.p.w), self.p.s, self.fp.line(self.p.w), self.prog.len(), self.prog.join(" "))
    }
}

/// An honest item: every declared entry is needed by some access of the program, and the program
/// always reads its own scope node.
fn tick_item(rng: &mut Rng, p: Pool, system: bool, full: bool) -> TItem {
    let w = sid(p.w);
    let mut fp = TFp::default();
    let mut prog: Vec<String> = Vec::new();
    let take = |rng: &mut Rng| full || rng.chance(1, 2);
    // the scope node itself: record, adjacency, attachment
    match if full { 3 } else { rng.below(4) } {
        0 => prog.push(format!("RN {}", p.s)),
        1 => prog.push(format!("RA {}", p.s)),
        2 => prog.push(format!("EI N {} UN {w} {} {}", p.s, p.n2, sid(0x12))),
        _ => {
            prog.push(format!("RN {}", p.s));
            prog.push(format!("RA {}", p.s));
        }
    }
    push_uniq(&mut fp.nr, p.s.clone());
    if prog.iter().any(|x| x.starts_with("EI")) {
        push_uniq(&mut fp.nw, p.n2.clone());
    }
    if take(rng) {
        prog.push(format!("RNA {}", p.s));
        push_uniq(&mut fp.ar, format!("na {}", p.s));
    }
    if take(rng) {
        prog.push(format!("HE {}", p.e1));
        push_uniq(&mut fp.er, p.e1.clone());
    }
    if take(rng) {
        prog.push(format!("REA {}", p.e1));
        push_uniq(&mut fp.ar, format!("eb {}", p.e1));
    }
    if take(rng) {
        prog.push(format!("RA {}", p.n4));
        push_uniq(&mut fp.nr, p.n4.clone());
    }
    if take(rng) {
        prog.push(format!("EM UN {w} {} {}", p.n2, sid(0x12)));
        push_uniq(&mut fp.nw, p.n2.clone());
    }
    if take(rng) {
        prog.push(format!("EM SA na {w} {} a {} 01ff", p.n2, sid(0x70)));
        push_uniq(&mut fp.aw, format!("na {}", p.n2));
    }
    if take(rng) {
        // fresh edge S -> N2
        prog.push(format!("EM UE {w} {} {} {} {}", p.e3, p.s, p.n2, sid(0x30)));
        push_uniq(&mut fp.nw, p.s.clone());
        push_uniq(&mut fp.ew, p.e3.clone());
    }
    if take(rng) {
        // MOVE E2 from N4 to S: the old source N4 is a write target too
        prog.push(format!("EM UE {w} {} {} {} {}", p.e2, p.s, p.n2, sid(0x31)));
        push_uniq(&mut fp.nw, p.s.clone());
        push_uniq(&mut fp.nw, p.n4.clone());
        push_uniq(&mut fp.ew, p.e2.clone());
    } else if take(rng) {
        prog.push(format!("EM SA eb {w} {} a {} 02", p.e2, sid(0x71)));
        push_uniq(&mut fp.aw, format!("eb {}", p.e2));
    }
    if take(rng) {
        prog.push(format!("EM DE {w} {} {}", p.s, p.e1));
        push_uniq(&mut fp.nw, p.s.clone());
        push_uniq(&mut fp.ew, p.e1.clone());
        push_uniq(&mut fp.aw, format!("eb {}", p.e1));
    }
    if system && take(rng) {
        // instance-level op by a system rule: portal on N3's α slot to a fresh child instance
        let child = 0xC0 + u64::from(u8::from_str_radix(&p.s[62..64], 16).unwrap_or(0) >> 4);
        prog.push(format!("EM OP na {w} {} {} {} E {}", p.n3, sid(child), sid(1), sid(0x10)));
        push_uniq(&mut fp.aw, format!("na {}", p.n3));
    } else if take(rng) {
        prog.push(format!("EM DN {w} {}", p.n3));
        push_uniq(&mut fp.nw, p.n3.clone());
        push_uniq(&mut fp.aw, format!("na {}", p.n3));
    }
    TItem { system, p, fp, prog }
}

fn tick_state(items: &[TItem], with_child: bool) -> String {
    // warps 0xA1 (root, root node 00..01) and optionally 0xA2 hanging off node 00..02 of 0xA1
    let mut out = format!("warps {}", if with_child { 2 } else { 1 });
    for wid in [0xA1u64, 0xA2] {
        if wid == 0xA2 && !with_child {
            continue;
        }
        let parent = if wid == 0xA1 { "-".to_string() } else { format!("na {} {}", sid(0xA1), sid(2)) };
        let mut nodes: Vec<(String, String)> = vec![(sid(1), sid(0x10))];
        let mut natts: Vec<(String, String)> = Vec::new();
        let mut edges: Vec<(String, String)> = Vec::new();
        let mut eatts: Vec<(String, String)> = Vec::new();
        if wid == 0xA1 && with_child {
            nodes.push((sid(2), sid(0x10)));
            natts.push((sid(2), format!("d {}", sid(0xA2))));
        }
        for it in items.iter().filter(|it| it.p.w == wid) {
            let p = &it.p;
            for n in [&p.s, &p.n2, &p.n3, &p.n4] {
                nodes.push((n.clone(), sid(0x10)));
            }
            natts.push((p.s.clone(), format!("a {} 07", sid(0x70))));
            natts.push((p.n3.clone(), format!("a {} -", sid(0x70))));
            edges.push((p.e1.clone(), format!("{} {} {}", p.s, p.n2, sid(0x30))));
            edges.push((p.e2.clone(), format!("{} {} {}", p.n4, p.n2, sid(0x30))));
            eatts.push((p.e1.clone(), format!("a {} 09", sid(0x71))));
        }
        nodes.sort();
        natts.sort();
        edges.sort();
        eatts.sort();
        out.push_str(&format!(" {} {} {parent}", sid(wid), sid(1)));
        for (kw, v) in [("nodes", &nodes), ("natts", &natts), ("edges", &edges), ("eatts", &eatts)] {
            out.push_str(&format!(" {kw} {}", v.len()));
            for (a, b) in v {
                out.push_str(&format!(" {a} {b}"));
            }
        }
    }
    out
}

fn gen_tick(rng: &mut Rng, tier: Tier) -> Vec<String> {
    let n = if tier == Tier::Thorough { 6000 } else { 900 };
    let mut out = Vec::new();
    for case in 0..n {
        let k = 1 + (case % 5) as usize;
        let workers = 1 + (case / 5) % 4;
        let with_child = (case / 20) % 3 == 2;
        let layout = (case / 60) % 3; // 0: all items in one shard (one unit), 1: one shard each, 2: random of 3 shards
        let mut items: Vec<TItem> = Vec::new();
        for i in 0..k {
            let shard = match layout {
                0 => 7,
                1 => (i as u8) * 37 + 1,
                _ => [0u8, 1, 200][rng.below(3) as usize],
            };
            let w = if with_child && rng.chance(1, 3) { 0xA2 } else { 0xA1 };
            let system = rng.chance(1, 5);
            let full = rng.chance(1, 3);
            items.push(tick_item(rng, pool(w, shard, i as u8), system, full));
        }
        let state = tick_state(&items, with_child);
        // three of four cases have exactly one violator; its index is enumerated
        if case % 4 != 3 {
            let bad = (case / 4) % k;
            let other_w = if items[bad].p.w == 0xA1 { if with_child { 0xA2 } else { 0xAF } } else { 0xA1 };
            let it = &mut items[bad];
            let (w, ow) = (sid(it.p.w), sid(other_w));
            let pos = rng.below(it.prog.len() as u64 + 1) as usize;
            let mode = rng.below(10);
            if mode < 6 {
                // omit exactly one declared entry (enumerated over the item's entries)
                let ix = (case / 7) % it.fp.entries().max(1);
                let _ = it.fp.omit(ix);
            } else if mode == 6 {
                // an undeclared extra read, every accessor; target: the root node / a foreign pool's edge
                let r = match rng.below(5) {
                    0 => format!("RN {}", sid(1)),
                    1 => format!("RA {}", sid(1)),
                    2 => format!("RNA {}", sid(1)),
                    3 => format!("REA {}", xid(0, 2, 0xF1)),
                    _ => format!("HE {}", xid(0, 2, 0xF1)),
                };
                it.prog.insert(pos, r);
            } else if mode == 7 {
                // write into another instance: every op kind, the targets DECLARED-looking or not — must be refused
                let op = match rng.below(9) {
                    0 => format!("UN {ow} {} {}", it.p.n2, sid(0x12)),
                    1 => format!("DN {ow} {}", it.p.n3),
                    2 => format!("UE {ow} {} {} {} {}", it.p.e3, it.p.s, it.p.n2, sid(0x30)),
                    3 => format!("DE {ow} {} {}", it.p.s, it.p.e1),
                    4 => format!("SA na {ow} {} -", it.p.n2),
                    5 => format!("SA eb {ow} {} -", it.p.e1),
                    6 => format!("OP na {ow} {} {} {} E {}", it.p.n3, sid(0xCE), sid(1), sid(0x10)),
                    7 => format!("UI {ow} {} -", sid(1)),
                    _ => format!("DI {ow}"),
                };
                it.prog.insert(pos, format!("EM {op}"));
            } else if mode == 8 && !it.system {
                // instance-level op emitted by a rule (refused unless the rule is a system rule; a system
                // rule is refused only for what it did not declare)
                let op = match rng.below(3) {
                    0 => format!("OP na {w} {} {} {} E {}", it.p.n4, sid(0xCD), sid(1), sid(0x10)),
                    1 => format!("UI {w} {} -", sid(1)),
                    _ => format!("DI {w}"),
                };
                it.prog.insert(pos, format!("EM {op}"));
            } else if mode == 8 {
                it.prog.insert(pos, format!("RNA {}", sid(1)));
            } else {
                // undeclared write followed by an executor panic / an undeclared read
                it.prog.insert(pos, if rng.chance(1, 2) { "PANIC".to_string() } else { format!("RN {}", sid(1)) });
                if rng.chance(2, 3) {
                    it.prog.insert(pos, format!("EM UN {w} {} {}", sid(1), sid(0x12)));
                }
            }
        }
        let mut line = format!("{workers} {state} {k}");
        for it in &items {
            line.push(' ');
            line.push_str(&it.line());
        }
        out.push(line);
    }
    out
}
