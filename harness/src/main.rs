//! Correspondence harness: drives the REAL flyingrobots/echo code in-process.
//!
//!   harness gen <PROP> <tier> <seed>   -> case lines (one per line, first token = stream)
//!   harness impl     < cases > impl.out  (real code, one output line per case)
//!   harness oracle   < cases > oracle.out (property evaluated directly on the real code)
//!   harness hashx    < model.out          (evaluates `(h ..)`/`(s ..)` pre-image trees)
mod prng;
mod util;
mod graphio;
mod interp;
/// Counting global allocator (C13): counts bytes requested / live / peak and otherwise delegates to
/// `System`. Counters are process-wide; a child process resets them around each decode.
pub mod alloc_count {
    use std::alloc::{GlobalAlloc, Layout, System};
    use std::sync::atomic::{AtomicUsize, Ordering::Relaxed};
    pub static LIVE: AtomicUsize = AtomicUsize::new(0);
    pub static PEAK: AtomicUsize = AtomicUsize::new(0);
    pub static TOTAL: AtomicUsize = AtomicUsize::new(0);
    pub static MAXREQ: AtomicUsize = AtomicUsize::new(0);
    pub struct Counting;
    #[inline]
    fn add(n: usize) {
        TOTAL.fetch_add(n, Relaxed);
        MAXREQ.fetch_max(n, Relaxed);
        let live = LIVE.fetch_add(n, Relaxed).saturating_add(n);
        PEAK.fetch_max(live, Relaxed);
    }
    unsafe impl GlobalAlloc for Counting {
        unsafe fn alloc(&self, l: Layout) -> *mut u8 {
            add(l.size());
            System.alloc(l)
        }
        unsafe fn alloc_zeroed(&self, l: Layout) -> *mut u8 {
            add(l.size());
            System.alloc_zeroed(l)
        }
        unsafe fn dealloc(&self, p: *mut u8, l: Layout) {
            LIVE.fetch_sub(l.size(), Relaxed);
            System.dealloc(p, l)
        }
        unsafe fn realloc(&self, p: *mut u8, l: Layout, new: usize) -> *mut u8 {
            add(new);
            LIVE.fetch_sub(l.size(), Relaxed);
            System.realloc(p, l, new)
        }
    }
    /// Start a measurement window: peak := live, total := 0, maxreq := 0; returns the baseline.
    pub fn reset() -> usize {
        let live = LIVE.load(Relaxed);
        PEAK.store(live, Relaxed);
        TOTAL.store(0, Relaxed);
        MAXREQ.store(0, Relaxed);
        live
    }
    /// (peak above `baseline`, total bytes requested, largest single request) since `reset`.
    pub fn snapshot(baseline: usize) -> (usize, usize, usize) {
        (PEAK.load(Relaxed).saturating_sub(baseline), TOTAL.load(Relaxed), MAXREQ.load(Relaxed))
    }
}
#[global_allocator]
static GLOBAL: alloc_count::Counting = alloc_count::Counting;

include!(concat!(env!("OUT_DIR"), "/registry.rs"));

use prng::Rng;
use std::io::{BufRead, Write};
use util::Toks;

#[derive(Clone, Copy, PartialEq, Eq, Debug)]
pub enum Tier {
    Quick,
    Thorough,
}

#[derive(Default)]
pub struct OracleOut {
    /// (finding key, human description). Empty = the property held on this case.
    pub fails: Vec<(String, String)>,
    /// coverage labels aggregated into the evidence distribution
    pub tags: Vec<String>,
    pub nontrivial: bool,
}

pub struct Stream {
    pub name: &'static str,
    pub gen: fn(&mut Rng, Tier) -> Vec<String>,
    pub imp: fn(&mut Toks) -> Result<String, String>,
    pub oracle: fn(&mut Toks, Tier) -> Result<OracleOut, String>,
}

fn find<'a>(ss: &'a [Stream], name: &str) -> Option<&'a Stream> {
    ss.iter().find(|s| s.name == name)
}

fn panic_msg(e: Box<dyn std::any::Any + Send>) -> String {
    let s = if let Some(s) = e.downcast_ref::<&str>() {
        (*s).to_string()
    } else if let Some(s) = e.downcast_ref::<String>() {
        s.clone()
    } else {
        "non-string payload".to_string()
    };
    let s: String = s.chars().map(|c| if c.is_ascii_whitespace() { '_' } else { c }).take(120).collect();
    s
}

fn tier_of(s: &str) -> Tier {
    if s == "thorough" {
        Tier::Thorough
    } else {
        Tier::Quick
    }
}

fn main() {
    let args: Vec<String> = std::env::args().collect();
    let cmd = args.get(1).map(String::as_str).unwrap_or("");
    let ss = streams();
    std::panic::set_hook(Box::new(|_| {}));
    if cmd == "child" {
        // private sub-command: isolated decode worker (C13); never returns
        std::process::exit(c13::child_main(&args[2..]));
    }
    let stdout = std::io::stdout();
    let mut out = std::io::BufWriter::new(stdout.lock());
    match cmd {
        "gen" => {
            let prop = args.get(2).cloned().unwrap_or_default();
            let tier = tier_of(args.get(3).map(String::as_str).unwrap_or("quick"));
            let seed: u64 = args.get(4).and_then(|s| s.parse().ok()).unwrap_or(1);
            for s in ss.iter().filter(|s| s.name.starts_with(&prop)) {
                // one sub-seed per stream so adding a stream does not disturb the others
                let mut h = blake3::Hasher::new();
                h.update(s.name.as_bytes());
                h.update(&seed.to_le_bytes());
                let d = h.finalize();
                let sub = u64::from_le_bytes(d.as_bytes()[0..8].try_into().unwrap());
                let mut rng = Rng::new(sub);
                for payload in (s.gen)(&mut rng, tier) {
                    writeln!(out, "{} {}", s.name, payload).unwrap();
                }
            }
        }
        "impl" | "oracle" => {
            let tier = tier_of(args.get(2).map(String::as_str).unwrap_or("quick"));
            let stdin = std::io::stdin();
            for line in stdin.lock().lines() {
                let line = line.unwrap();
                if line.trim().is_empty() {
                    continue;
                }
                let mut t = Toks::new(&line);
                let name = t.next().unwrap_or("");
                let res = match find(&ss, name) {
                    None => format!("bad-stream {name}"),
                    Some(s) => {
                        if cmd == "impl" {
                            let r = std::panic::catch_unwind(std::panic::AssertUnwindSafe(|| (s.imp)(&mut t)));
                            match r {
                                Ok(Ok(o)) => o,
                                Ok(Err(e)) => format!("bad-case {}", e.replace(' ', "_")),
                                Err(p) => format!("panic {}", panic_msg(p)),
                            }
                        } else {
                            let r = std::panic::catch_unwind(std::panic::AssertUnwindSafe(|| (s.oracle)(&mut t, tier)));
                            match r {
                                Ok(Ok(o)) => {
                                    if o.fails.is_empty() {
                                        format!("ok nt={} {}", u8::from(o.nontrivial), o.tags.join(","))
                                    } else {
                                        let fs: Vec<String> =
                                            o.fails.iter().map(|(k, w)| format!("{k} :: {w}")).collect();
                                        format!("FAIL {}", fs.join(" || "))
                                    }
                                }
                                Ok(Err(e)) => format!("bad-case {}", e.replace(' ', "_")),
                                Err(p) => format!("FAIL oracle-panic :: {}", panic_msg(p)),
                            }
                        }
                    }
                };
                writeln!(out, "{res}").unwrap();
            }
        }
        "hashx" => {
            let stdin = std::io::stdin();
            for line in stdin.lock().lines() {
                let line = line.unwrap();
                writeln!(out, "{}", util::hashx_line(&line)).unwrap();
            }
        }
        _ => {
            eprintln!("usage: harness gen|impl|oracle|hashx");
            std::process::exit(2);
        }
    }
}
