//! C20 — retained content is returned intact or not at all.
//! Real code: `echo_cas::{MemoryTier, DiskTier, RetainedBlobIndex}`.
//!
//! Line: `[budget|-] nblobs (<bytes> <blake3>)* nops op*`; ops address blobs by index and hashes as
//! `h<i>` (hash of blob i) or 64 hex digits.  The hash column is produced by the generator with the
//! `blake3` crate and re-validated here, so the model (which never hashes) sees the real `H`.
use crate::prng::Rng;
use crate::util::{hex, small_id, Toks};
use crate::{OracleOut, Stream, Tier};
use echo_cas::{
    BlobHash, BlobStore, CasError, DiskTier, DiskTierError, MemoryTier, RetainedBlobDescriptor, RetainedBlobIndex,
    RetainedBlobRole, RetentionError, SemanticBlobCoordinate,
};
use std::collections::{BTreeMap, BTreeSet};
use std::path::{Path, PathBuf};
use std::sync::atomic::{AtomicU64, Ordering};

pub fn streams() -> Vec<Stream> {
    vec![
        Stream { name: "C20.mem", gen: gen_mem, imp: imp_mem, oracle: oracle_mem },
        Stream { name: "C20.disk", gen: gen_disk, imp: imp_disk, oracle: oracle_disk },
        Stream { name: "C20.ret", gen: gen_ret, imp: imp_ret, oracle: oracle_ret },
    ]
}

type H32 = [u8; 32];

/// Independent of the code under test on purpose (not `echo_cas::blob_hash`).
fn b3(b: &[u8]) -> H32 {
    *blake3::hash(b).as_bytes()
}

fn bh(h: &H32) -> BlobHash {
    BlobHash::from_bytes(*h)
}

#[derive(Clone, Debug)]
enum Cmd {
    Put(usize),
    PutV(H32, usize),
    Get(H32),
    Has(H32),
    Pin(H32),
    Unpin(H32),
    IsPin(H32),
    Stat,
    Reopen,
    List,
    AWrite(H32, usize),
    ADel(H32),
}

impl Cmd {
    fn hashes(&self) -> Vec<H32> {
        match self {
            Cmd::PutV(h, _) | Cmd::Get(h) | Cmd::Has(h) | Cmd::Pin(h) | Cmd::Unpin(h) | Cmd::IsPin(h) | Cmd::AWrite(h, _) | Cmd::ADel(h) => {
                vec![*h]
            }
            _ => vec![],
        }
    }
    fn tag(&self) -> &'static str {
        match self {
            Cmd::Put(_) => "op:put",
            Cmd::PutV(..) => "op:putv",
            Cmd::Get(_) => "op:get",
            Cmd::Has(_) => "op:has",
            Cmd::Pin(_) => "op:pin",
            Cmd::Unpin(_) => "op:unpin",
            Cmd::IsPin(_) => "op:ispin",
            Cmd::Stat => "op:stat",
            Cmd::Reopen => "op:reopen",
            Cmd::List => "op:list",
            Cmd::AWrite(..) => "op:adv-write",
            Cmd::ADel(_) => "op:adv-delete",
        }
    }
}

type Dict = Vec<(Vec<u8>, H32)>;

fn parse_dict(t: &mut Toks) -> Result<Dict, String> {
    let n = t.num()?;
    let mut d = Vec::new();
    for _ in 0..n {
        let b = t.bytes()?;
        let h = t.id()?;
        if b3(&b) != h {
            return Err("dictionary hash is not BLAKE3 of the bytes".into());
        }
        d.push((b, h));
    }
    Ok(d)
}

fn blob_ix(t: &mut Toks, d: &Dict) -> Result<usize, String> {
    let i = t.num()? as usize;
    if i < d.len() {
        Ok(i)
    } else {
        Err(format!("bad blob index {i}"))
    }
}

fn href(t: &mut Toks, d: &Dict) -> Result<H32, String> {
    let s = t.next()?;
    if let Some(rest) = s.strip_prefix('h') {
        let i: usize = rest.parse().map_err(|_| format!("bad hash ref {s}"))?;
        d.get(i).map(|p| p.1).ok_or_else(|| format!("bad hash index {s}"))
    } else {
        crate::util::id32(s)
    }
}

fn parse_cmds(t: &mut Toks, d: &Dict, disk: bool) -> Result<Vec<Cmd>, String> {
    let n = t.num()?;
    let mut v = Vec::new();
    for _ in 0..n {
        let c = match t.next()? {
            "put" => Cmd::Put(blob_ix(t, d)?),
            "putv" => {
                let h = href(t, d)?;
                Cmd::PutV(h, blob_ix(t, d)?)
            }
            "get" => Cmd::Get(href(t, d)?),
            "has" => Cmd::Has(href(t, d)?),
            "pin" => Cmd::Pin(href(t, d)?),
            "unpin" => Cmd::Unpin(href(t, d)?),
            "ispin" => Cmd::IsPin(href(t, d)?),
            "stat" => Cmd::Stat,
            "reopen" if disk => Cmd::Reopen,
            "list" if disk => Cmd::List,
            "awrite" if disk => {
                let h = href(t, d)?;
                Cmd::AWrite(h, blob_ix(t, d)?)
            }
            "adel" if disk => Cmd::ADel(href(t, d)?),
            o => return Err(format!("bad op {o}")),
        };
        v.push(c);
    }
    if !t.done() {
        return Err("trailing tokens".into());
    }
    Ok(v)
}

fn universe(d: &Dict, cs: &[Cmd]) -> Vec<H32> {
    let mut u: Vec<H32> = d.iter().map(|p| p.1).collect();
    for c in cs {
        u.extend(c.hashes());
    }
    u
}

fn b01(b: bool) -> &'static str {
    if b {
        "1"
    } else {
        "0"
    }
}

fn mismatch_s(e: &CasError) -> String {
    match e {
        CasError::HashMismatch { expected, computed } => {
            format!("mismatch {} {}", hex(expected.as_bytes()), hex(computed.as_bytes()))
        }
    }
}

// ------------------------------------------------------------------ C20.mem

struct MemCase {
    budget: Option<usize>,
    dict: Dict,
    cmds: Vec<Cmd>,
}

fn parse_mem(t: &mut Toks) -> Result<MemCase, String> {
    let b = t.next()?;
    let budget = if b == "-" { None } else { Some(b.parse::<usize>().map_err(|_| format!("bad budget {b}"))?) };
    let dict = parse_dict(t)?;
    let cmds = parse_cmds(t, &dict, false)?;
    Ok(MemCase { budget, dict, cmds })
}

fn new_mem(budget: Option<usize>) -> MemoryTier {
    match budget {
        Some(n) => MemoryTier::with_limits(n),
        None => MemoryTier::new(),
    }
}

fn mem_stat(s: &MemoryTier) -> String {
    format!("stat {} {} {} {}", s.len(), s.byte_count(), s.pinned_count(), b01(s.is_over_budget()))
}

fn opt_s(o: Option<std::sync::Arc<[u8]>>) -> String {
    match o {
        None => "none".into(),
        Some(b) => format!("some {}", hex(&b)),
    }
}

fn imp_mem(t: &mut Toks) -> Result<String, String> {
    let c = parse_mem(t)?;
    let mut s = new_mem(c.budget);
    let mut outs = Vec::new();
    for cmd in &c.cmds {
        outs.push(match cmd {
            Cmd::Put(i) => {
                let h = s.put(&c.dict[*i].0);
                format!("put {} {}", hex(h.as_bytes()), hex(h.as_bytes()))
            }
            Cmd::PutV(e, i) => match s.put_verified(bh(e), &c.dict[*i].0) {
                Ok(()) => "ok".into(),
                Err(e) => mismatch_s(&e),
            },
            Cmd::Get(h) => opt_s(s.get(&bh(h))),
            Cmd::Has(h) => b01(s.has(&bh(h))).into(),
            Cmd::Pin(h) => {
                s.pin(&bh(h));
                format!("pins {}", s.pinned_count())
            }
            Cmd::Unpin(h) => {
                s.unpin(&bh(h));
                format!("pins {}", s.pinned_count())
            }
            Cmd::IsPin(h) => b01(s.is_pinned(&bh(h))).into(),
            Cmd::Stat => mem_stat(&s),
            _ => return Err("op not available on the memory tier".into()),
        });
    }
    let fin: Vec<String> = universe(&c.dict, &c.cmds)
        .iter()
        .map(|h| format!("{} {}", opt_s(s.get(&bh(h))), b01(s.is_pinned(&bh(h)))))
        .collect();
    Ok(format!("{} ;; {} ; {}", outs.join(" ; "), mem_stat(&s), fin.join(" ; ")))
}

/// Everything observable about content (not pins): get on the whole universe, len, byte count.
fn mem_probe(s: &MemoryTier, uni: &[H32]) -> (Vec<Option<Vec<u8>>>, usize, usize) {
    (uni.iter().map(|h| s.get(&bh(h)).map(|b| b.to_vec())).collect(), s.len(), s.byte_count())
}

fn oracle_mem(t: &mut Toks, _tier: Tier) -> Result<OracleOut, String> {
    let c = parse_mem(t)?;
    let mut o = OracleOut::default();
    let uni = universe(&c.dict, &c.cmds);
    let mut s = new_mem(c.budget);
    let mut reference: BTreeMap<H32, Vec<u8>> = BTreeMap::new();
    let fail = |o: &mut OracleOut, k: &str, w: String| {
        if !o.fails.iter().any(|(kk, _)| kk == k) {
            o.fails.push((k.to_string(), w));
        }
    };
    let mut writes = 0;
    for (n, cmd) in c.cmds.iter().enumerate() {
        o.tags.push(cmd.tag().into());
        match cmd {
            Cmd::Put(i) => {
                let b = &c.dict[*i].0;
                let want = b3(b);
                let was_present = reference.contains_key(&want);
                let h = s.put(b);
                if *h.as_bytes() != want {
                    fail(&mut o, "C20.put-returned-wrong-hash.mem", format!("op {n}: put returned {} for bytes hashing to {}", hex(h.as_bytes()), hex(&want)));
                }
                reference.entry(want).or_insert_with(|| b.clone());
                writes += 1;
                let before = mem_probe(&s, &uni);
                let h2 = s.put(b);
                if h2 != h || mem_probe(&s, &uni) != before {
                    fail(&mut o, "C20.put-not-idempotent.mem", format!("op {n}: repeating put changed the store"));
                }
                if was_present {
                    o.tags.push("put-existing".into());
                }
            }
            Cmd::PutV(e, i) => {
                let b = &c.dict[*i].0;
                let hb = b3(b);
                let before = mem_probe(&s, &uni);
                let r = s.put_verified(bh(e), b);
                if hb != *e {
                    let existing = reference.contains_key(e);
                    o.tags.push(if existing { "putv-mismatch-existing".into() } else { "putv-mismatch-absent".into() });
                    match r {
                        Ok(()) => fail(
                            &mut o,
                            "C20.put-verified-accepts-mismatch.mem",
                            format!("op {n}: MemoryTier::put_verified({}, bytes hashing to {}) returned Ok (expected hash already stored: {existing})", hex(e), hex(&hb)),
                        ),
                        Err(CasError::HashMismatch { expected, computed }) => {
                            if expected.as_bytes() != e || *computed.as_bytes() != hb {
                                fail(&mut o, "C20.mismatch-error-wrong-fields.mem", format!("op {n}"));
                            }
                        }
                    }
                    if mem_probe(&s, &uni) != before {
                        fail(&mut o, "C20.put-verified-mismatch-mutates.mem", format!("op {n}: refused write changed the store"));
                    }
                } else {
                    o.tags.push("putv-match".into());
                    if r.is_err() {
                        fail(&mut o, "C20.put-verified-rejects-match.mem", format!("op {n}: matching bytes refused"));
                    }
                    reference.entry(hb).or_insert_with(|| b.clone());
                    writes += 1;
                    let before = mem_probe(&s, &uni);
                    let _ = s.put_verified(bh(e), b);
                    if mem_probe(&s, &uni) != before {
                        fail(&mut o, "C20.put-not-idempotent.mem", format!("op {n}: repeating put_verified changed the store"));
                    }
                }
            }
            Cmd::Get(h) => {
                let r = s.get(&bh(h)).map(|b| b.to_vec());
                if let Some(b) = &r {
                    if b3(b) != *h {
                        fail(&mut o, "C20.get-returned-wrong-bytes.mem", format!("op {n}: get({}) returned bytes hashing to {}", hex(h), hex(&b3(b))));
                    }
                    o.tags.push("get-hit".into());
                } else {
                    o.tags.push("get-miss".into());
                }
                if r.as_ref() != reference.get(h) {
                    fail(&mut o, "C20.get-disagrees-with-reference.mem", format!("op {n}: get({}) differs from the reference map", hex(h)));
                }
            }
            Cmd::Has(h) => {
                if s.has(&bh(h)) != reference.contains_key(h) {
                    fail(&mut o, "C20.has-disagrees-with-reference.mem", format!("op {n}"));
                }
            }
            Cmd::Pin(h) | Cmd::Unpin(h) => {
                let before = mem_probe(&s, &uni);
                if matches!(cmd, Cmd::Pin(_)) {
                    s.pin(&bh(h));
                } else {
                    s.unpin(&bh(h));
                }
                if mem_probe(&s, &uni) != before {
                    fail(&mut o, "C20.pin-changed-content.mem", format!("op {n}: pin/unpin changed what get returns"));
                }
            }
            Cmd::IsPin(_) | Cmd::Stat => {}
            _ => return Err("op not available on the memory tier".into()),
        }
    }
    // end state: the tier IS the reference map on the whole universe
    let mut total = 0usize;
    for h in &uni {
        let r = s.get(&bh(h)).map(|b| b.to_vec());
        if let Some(b) = &r {
            if b3(b) != *h {
                fail(&mut o, "C20.get-returned-wrong-bytes.mem", format!("final: get({}) returned bytes hashing to {}", hex(h), hex(&b3(b))));
            }
        }
        if r.as_ref() != reference.get(h) {
            fail(&mut o, "C20.get-disagrees-with-reference.mem", format!("final: get({}) differs from the reference map", hex(h)));
        }
    }
    for b in reference.values() {
        total += b.len();
    }
    if s.len() != reference.len() || s.byte_count() != total {
        fail(&mut o, "C20.accounting-disagrees-with-reference.mem", format!("len/byte_count {} {} vs reference {} {}", s.len(), s.byte_count(), reference.len(), total));
    }
    if let Some(m) = c.budget {
        if s.is_over_budget() != (total > m) {
            fail(&mut o, "C20.budget-flag-wrong.mem", format!("byte_count {total} budget {m}"));
        }
        o.tags.push(if total > m { "over-budget".into() } else { "within-budget".into() });
    }
    o.tags.sort();
    o.tags.dedup();
    o.nontrivial = writes >= 1 && c.cmds.len() >= 2;
    Ok(o)
}

fn gen_blobs(rng: &mut Rng) -> Dict {
    let n = rng.range(2, 6) as usize;
    let mut blobs: Vec<Vec<u8>> = Vec::new();
    for _ in 0..n {
        let b = if !blobs.is_empty() && rng.chance(2, 5) {
            // variant of an earlier blob: flipped bit, truncated, extended, or an exact duplicate
            let mut v = rng.pick(&blobs).clone();
            match rng.below(4) {
                0 if !v.is_empty() => {
                    let k = rng.below(v.len() as u64) as usize;
                    v[k] ^= 1 << rng.below(8);
                }
                1 if !v.is_empty() => {
                    v.pop();
                }
                2 => v.push(rng.next() as u8),
                _ => {}
            }
            v
        } else {
            let len = *rng.pick(&[0usize, 1, 2, 3, 5, 8, 13, 32, 33]);
            rng.bytes(len)
        };
        blobs.push(b);
    }
    blobs.into_iter().map(|b| { let h = b3(&b); (b, h) }).collect()
}

fn dict_s(d: &Dict) -> String {
    let mut s = format!("{}", d.len());
    for (b, h) in d {
        s.push_str(&format!(" {} {}", hex(b), hex(h)));
    }
    s
}

/// A hash token: mostly the hash of a dictionary blob, sometimes a near miss or a tiny id.
fn gen_href(rng: &mut Rng, d: &Dict) -> String {
    match rng.below(10) {
        0 => hex(&small_id(rng.below(3))),
        1 => {
            let mut h = rng.pick(d).1;
            h[rng.below(32) as usize] ^= 1 << rng.below(8);
            hex(&h)
        }
        2 => hex(&rng.pick(d).1), // the real hash spelled out raw
        _ => format!("h{}", rng.below(d.len() as u64)),
    }
}

fn gen_common_op(rng: &mut Rng, d: &Dict) -> String {
    let nb = d.len() as u64;
    match rng.below(16) {
        0..=3 => format!("put {}", rng.below(nb)),
        4 => {
            let i = rng.below(nb);
            format!("putv h{i} {i}")
        }
        5 | 6 => {
            // bytes of blob i offered under the hash of another blob (often already stored)
            let i = rng.below(nb);
            let j = rng.below(nb);
            format!("putv h{j} {i}")
        }
        7 => format!("putv {} {}", gen_href(rng, d), rng.below(nb)),
        8..=10 => format!("get {}", gen_href(rng, d)),
        11 => format!("has {}", gen_href(rng, d)),
        12 => format!("pin {}", gen_href(rng, d)),
        13 => format!("unpin {}", gen_href(rng, d)),
        14 => format!("ispin {}", gen_href(rng, d)),
        _ => "stat".into(),
    }
}

fn gen_mem(rng: &mut Rng, tier: Tier) -> Vec<String> {
    let n = if tier == Tier::Thorough { 4000 } else { 400 };
    let mut out = Vec::new();
    for case in 0..n {
        let d = gen_blobs(rng);
        let total: usize = d.iter().map(|p| p.0.len()).sum();
        let budget = if rng.chance(1, 2) { "-".to_string() } else { format!("{}", rng.below(total as u64 + 2)) };
        let nops = if case % 23 == 0 { rng.range(30, 60) } else { rng.range(2, 16) };
        let ops: Vec<String> = (0..nops).map(|_| gen_common_op(rng, &d)).collect();
        out.push(format!("{budget} {} {} {}", dict_s(&d), ops.len(), ops.join(" ")));
    }
    out
}

// ------------------------------------------------------------------ C20.disk

static TMP_COUNTER: AtomicU64 = AtomicU64::new(0);

/// Scratch directory (tmpfs or `<verif>/work/C20/tmp`; override: VERIF_C20_TMP), removed on drop. Paths never reach the output.
struct Scratch(PathBuf);
impl Scratch {
    fn new() -> Result<Self, String> {
        // tmpfs when there is one (the ext4 work dir costs ~100x per case), else `<verif>/work/C20/tmp`
        let base = std::env::var("VERIF_C20_TMP").map(PathBuf::from).unwrap_or_else(|_| {
            let shm = Path::new("/dev/shm");
            if shm.is_dir() {
                shm.join("echo-verif-c20")
            } else {
                Path::new(env!("CARGO_MANIFEST_DIR")).join("..").join("work").join("C20").join("tmp")
            }
        });
        let p = base.join(format!("{}-{}", std::process::id(), TMP_COUNTER.fetch_add(1, Ordering::Relaxed)));
        std::fs::create_dir_all(&p).map_err(|e| format!("scratch: {e}"))?;
        Ok(Scratch(p))
    }
}
impl Drop for Scratch {
    fn drop(&mut self) {
        let _ = std::fs::remove_dir_all(&self.0);
        if let Some(base) = self.0.parent() {
            let _ = std::fs::remove_dir(base); // only succeeds once the last scratch dir is gone
        }
    }
}

/// The on-disk layout of `DiskTier` as the adversary knows it: `<root>/blobs/<hex[..2]>/<hex>`.
fn blob_file(root: &Path, h: &H32) -> PathBuf {
    let hx = ::hex::encode(h);
    root.join("blobs").join(&hx[..2]).join(&hx)
}

fn adv_write(root: &Path, h: &H32, b: &[u8]) -> Result<(), String> {
    let p = blob_file(root, h);
    if let Some(par) = p.parent() {
        std::fs::create_dir_all(par).map_err(|e| format!("adv mkdir: {e}"))?;
    }
    std::fs::write(&p, b).map_err(|e| format!("adv write: {e}"))
}

fn adv_delete(root: &Path, h: &H32) -> Result<(), String> {
    match std::fs::remove_file(blob_file(root, h)) {
        Ok(()) => Ok(()),
        Err(e) if e.kind() == std::io::ErrorKind::NotFound => Ok(()),
        Err(e) => Err(format!("adv delete: {e}")),
    }
}

#[derive(Clone, PartialEq, Eq, Debug)]
enum DGet {
    Absent,
    Found(Vec<u8>),
    Corrupt(H32, H32),
    Other(String),
}

fn dget(s: &DiskTier, h: &H32) -> DGet {
    match s.get(&bh(h)) {
        Ok(None) => DGet::Absent,
        Ok(Some(b)) => DGet::Found(b.to_vec()),
        Err(DiskTierError::Cas(CasError::HashMismatch { expected, computed })) => DGet::Corrupt(*expected.as_bytes(), *computed.as_bytes()),
        Err(DiskTierError::Io { operation, .. }) => DGet::Other(format!("io-{operation}")),
        Err(DiskTierError::InvalidBlobPath { .. }) => DGet::Other("invalid-blob-path".into()),
    }
}

fn dget_s(g: &DGet) -> String {
    match g {
        DGet::Absent => "none".into(),
        DGet::Found(b) => format!("some {}", hex(b)),
        DGet::Corrupt(e, c) => format!("corrupt-mismatch {} {}", hex(e), hex(c)),
        DGet::Other(s) => s.clone(),
    }
}

fn derr_s(e: &DiskTierError) -> String {
    match e {
        DiskTierError::Cas(c) => mismatch_s(c),
        DiskTierError::Io { operation, .. } => format!("io-{operation}"),
        DiskTierError::InvalidBlobPath { .. } => "invalid-blob-path".into(),
    }
}

fn list_s(s: &DiskTier) -> String {
    match s.list() {
        Ok(v) => {
            let mut o = format!("list {}", v.len());
            for h in v {
                o.push_str(&format!(" {}", hex(h.as_bytes())));
            }
            o
        }
        Err(e) => format!("list-{}", derr_s(&e)),
    }
}

struct DiskCase {
    dict: Dict,
    cmds: Vec<Cmd>,
}

fn parse_disk(t: &mut Toks) -> Result<DiskCase, String> {
    let dict = parse_dict(t)?;
    let cmds = parse_cmds(t, &dict, true)?;
    Ok(DiskCase { dict, cmds })
}

fn open(root: &Path) -> Result<DiskTier, String> {
    DiskTier::open(root).map_err(|e| format!("open: {}", derr_s(&e)))
}

fn imp_disk(t: &mut Toks) -> Result<String, String> {
    let c = parse_disk(t)?;
    let scratch = Scratch::new()?;
    let root = scratch.0.join("tier");
    let mut s = open(&root)?;
    let mut outs = Vec::new();
    for cmd in &c.cmds {
        outs.push(match cmd {
            Cmd::Put(i) => match s.put(&c.dict[*i].0) {
                Ok(h) => format!("put {} {}", hex(h.as_bytes()), hex(h.as_bytes())),
                Err(e) => format!("put-{}", derr_s(&e)),
            },
            Cmd::PutV(e, i) => match s.put_verified(bh(e), &c.dict[*i].0) {
                Ok(()) => "ok".into(),
                Err(e) => derr_s(&e),
            },
            Cmd::Get(h) => dget_s(&dget(&s, h)),
            Cmd::Has(h) => match s.has(&bh(h)) {
                Ok(b) => b01(b).into(),
                Err(e) => derr_s(&e),
            },
            Cmd::Pin(h) => {
                s.pin(&bh(h));
                format!("pins {}", s.pinned_count())
            }
            Cmd::Unpin(h) => {
                s.unpin(&bh(h));
                format!("pins {}", s.pinned_count())
            }
            Cmd::IsPin(h) => b01(s.is_pinned(&bh(h))).into(),
            Cmd::Stat => format!("stat {}", s.pinned_count()),
            Cmd::Reopen => {
                drop(s);
                s = open(&root)?;
                "reopened".into()
            }
            Cmd::List => list_s(&s),
            Cmd::AWrite(h, i) => {
                adv_write(&root, h, &c.dict[*i].0)?;
                "adv".into()
            }
            Cmd::ADel(h) => {
                adv_delete(&root, h)?;
                "adv".into()
            }
        });
    }
    let fin: Vec<String> = universe(&c.dict, &c.cmds)
        .iter()
        .map(|h| {
            format!("{} {} {}", dget_s(&dget(&s, h)), s.has(&bh(h)).map(b01).unwrap_or("err"), b01(s.is_pinned(&bh(h))))
        })
        .collect();
    Ok(format!("{} ;; {} ; {}", outs.join(" ; "), list_s(&s), fin.join(" ; ")))
}

/// What a correct tier must answer for `h` given the true file contents.
fn expect_get(files: &BTreeMap<H32, Vec<u8>>, h: &H32) -> DGet {
    match files.get(h) {
        None => DGet::Absent,
        Some(b) => {
            let c = b3(b);
            if c == *h {
                DGet::Found(b.clone())
            } else {
                DGet::Corrupt(*h, c)
            }
        }
    }
}

fn disk_probe(s: &DiskTier, uni: &[H32]) -> Vec<DGet> {
    uni.iter().map(|h| dget(s, h)).collect()
}

fn oracle_disk(t: &mut Toks, tier: Tier) -> Result<OracleOut, String> {
    let c = parse_disk(t)?;
    let mut o = OracleOut::default();
    let uni = universe(&c.dict, &c.cmds);
    let scratch = Scratch::new()?;
    let root = scratch.0.join("tier");
    let mut s = open(&root)?;
    // true contents of the backing files (store writes and adversary writes alike)
    let mut files: BTreeMap<H32, Vec<u8>> = BTreeMap::new();
    let fail = |o: &mut OracleOut, k: &str, w: String| {
        if !o.fails.iter().any(|(kk, _)| kk == k) {
            o.fails.push((k.to_string(), w));
        }
    };
    let check_get = |o: &mut OracleOut, s: &DiskTier, files: &BTreeMap<H32, Vec<u8>>, h: &H32, at: &str| {
        let r = dget(s, h);
        if let DGet::Found(b) = &r {
            if b3(b) != *h {
                fail(o, "C20.get-returned-wrong-bytes.disk", format!("{at}: get({}) returned bytes hashing to {}", hex(h), hex(&b3(b))));
            }
        }
        let want = expect_get(files, h);
        if r != want {
            let key = if matches!(want, DGet::Corrupt(..)) { "C20.corruption-undetected.disk" } else { "C20.get-disagrees-with-reference.disk" };
            fail(o, key, format!("{at}: get({}) = {} but the backing file implies {}", hex(h), dget_s(&r), dget_s(&want)));
        }
        r
    };
    let mut writes = 0;
    let mut tampered = false;
    for (n, cmd) in c.cmds.iter().enumerate() {
        o.tags.push(cmd.tag().into());
        let at = format!("op {n}");
        match cmd {
            Cmd::Put(i) => {
                let b = &c.dict[*i].0;
                let want = b3(b);
                if matches!(expect_get(&files, &want), DGet::Corrupt(..)) {
                    o.tags.push("put-heals-corrupt".into());
                }
                match s.put(b) {
                    Ok(h) => {
                        if *h.as_bytes() != want {
                            fail(&mut o, "C20.put-returned-wrong-hash.disk", format!("{at}: put returned {}", hex(h.as_bytes())));
                        }
                    }
                    Err(e) => fail(&mut o, "C20.put-failed.disk", format!("{at}: {}", derr_s(&e))),
                }
                files.insert(want, b.clone());
                writes += 1;
                let before = disk_probe(&s, &uni);
                let _ = s.put(b);
                if disk_probe(&s, &uni) != before {
                    fail(&mut o, "C20.put-not-idempotent.disk", format!("{at}: repeating put changed the store"));
                }
                check_get(&mut o, &s, &files, &want, &at);
            }
            Cmd::PutV(e, i) => {
                let b = &c.dict[*i].0;
                let hb = b3(b);
                let before = disk_probe(&s, &uni);
                let r = s.put_verified(bh(e), b);
                if hb != *e {
                    let existing = files.contains_key(e);
                    o.tags.push(if existing { "putv-mismatch-existing".into() } else { "putv-mismatch-absent".into() });
                    match r {
                        Ok(()) => fail(
                            &mut o,
                            "C20.put-verified-accepts-mismatch.disk",
                            format!("{at}: DiskTier::put_verified({}, bytes hashing to {}) returned Ok", hex(e), hex(&hb)),
                        ),
                        Err(DiskTierError::Cas(CasError::HashMismatch { expected, computed })) => {
                            if expected.as_bytes() != e || *computed.as_bytes() != hb {
                                fail(&mut o, "C20.mismatch-error-wrong-fields.disk", at.clone());
                            }
                        }
                        Err(other) => fail(&mut o, "C20.put-verified-untyped-refusal.disk", format!("{at}: {}", derr_s(&other))),
                    }
                    if disk_probe(&s, &uni) != before {
                        fail(&mut o, "C20.put-verified-mismatch-mutates.disk", format!("{at}: refused write changed the store"));
                    }
                } else {
                    o.tags.push("putv-match".into());
                    if let Err(e) = r {
                        fail(&mut o, "C20.put-verified-rejects-match.disk", format!("{at}: matching bytes refused: {}", derr_s(&e)));
                    }
                    files.insert(hb, b.clone());
                    writes += 1;
                    check_get(&mut o, &s, &files, &hb, &at);
                }
            }
            Cmd::Get(h) => {
                let r = check_get(&mut o, &s, &files, h, &at);
                o.tags.push(match r {
                    DGet::Absent => "get-miss".into(),
                    DGet::Found(_) => "get-hit".into(),
                    DGet::Corrupt(..) => "get-corruption-detected".into(),
                    DGet::Other(_) => "get-other-error".into(),
                });
            }
            Cmd::Has(h) => match s.has(&bh(h)) {
                Ok(b) if b == files.contains_key(h) => {}
                _ => fail(&mut o, "C20.has-disagrees-with-reference.disk", at.clone()),
            },
            Cmd::Pin(h) | Cmd::Unpin(h) => {
                let before = disk_probe(&s, &uni);
                if matches!(cmd, Cmd::Pin(_)) {
                    s.pin(&bh(h));
                } else {
                    s.unpin(&bh(h));
                }
                if disk_probe(&s, &uni) != before {
                    fail(&mut o, "C20.pin-changed-content.disk", format!("{at}: pin/unpin changed what get returns"));
                }
            }
            Cmd::Reopen => {
                let before = disk_probe(&s, &uni);
                drop(s);
                s = open(&root)?;
                if disk_probe(&s, &uni) != before {
                    fail(&mut o, "C20.reopen-changed-content.disk", format!("{at}: reopening the tier changed what get returns"));
                }
            }
            Cmd::List => match s.list() {
                Ok(v) => {
                    let got: Vec<H32> = v.iter().map(|h| *h.as_bytes()).collect();
                    let want: Vec<H32> = files.keys().copied().collect();
                    if got != want {
                        fail(&mut o, "C20.list-disagrees-with-reference.disk", at.clone());
                    }
                }
                Err(e) => fail(&mut o, "C20.list-failed.disk", format!("{at}: {}", derr_s(&e))),
            },
            Cmd::AWrite(h, i) => {
                adv_write(&root, h, &c.dict[*i].0)?;
                files.insert(*h, c.dict[*i].0.clone());
                tampered = true;
                if b3(&c.dict[*i].0) != *h {
                    o.tags.push("adv-corrupts".into());
                } else {
                    o.tags.push("adv-plants-valid".into());
                }
                check_get(&mut o, &s, &files, h, &at);
            }
            Cmd::ADel(h) => {
                adv_delete(&root, h)?;
                files.remove(h);
                tampered = true;
                check_get(&mut o, &s, &files, h, &at);
            }
            Cmd::IsPin(_) | Cmd::Stat => {}
        }
    }
    for h in &uni {
        check_get(&mut o, &s, &files, h, "final");
    }
    // byte-level corruption and deletion of EVERY stored file
    let stored: Vec<(H32, Vec<u8>)> = files.iter().map(|(h, b)| (*h, b.clone())).collect();
    let mut mutants = 0usize;
    for (h, orig) in &stored {
        let baseline = dget(&s, h);
        let mut variants: Vec<Vec<u8>> = Vec::new();
        let positions: Vec<usize> = if tier == Tier::Thorough || orig.len() <= 4 {
            (0..orig.len()).collect()
        } else {
            vec![0, orig.len() / 2, orig.len() - 1]
        };
        for p in positions {
            for bit in [0x01u8, 0x80] {
                let mut v = orig.clone();
                v[p] ^= bit;
                variants.push(v);
            }
        }
        if !orig.is_empty() {
            variants.push(orig[..orig.len() - 1].to_vec());
            variants.push(Vec::new());
        }
        let mut ext = orig.clone();
        ext.push(0);
        variants.push(ext);
        for v in variants {
            adv_write(&root, h, &v)?;
            mutants += 1;
            let mut f2 = BTreeMap::new();
            f2.insert(*h, v);
            check_get(&mut o, &s, &f2, h, "sweep-corrupt");
        }
        adv_delete(&root, h)?;
        let none = BTreeMap::new();
        check_get(&mut o, &s, &none, h, "sweep-delete");
        if s.has(&bh(h)).unwrap_or(true) {
            fail(&mut o, "C20.has-disagrees-with-reference.disk", "sweep-delete: has() true after the file was removed".into());
        }
        adv_write(&root, h, orig)?;
        if dget(&s, h) != baseline {
            fail(&mut o, "C20.get-disagrees-with-reference.disk", "sweep-restore: get changed after the original bytes were restored".into());
        }
    }
    if mutants > 0 {
        o.tags.push("sweep-mutants".into());
    }
    if tampered {
        o.tags.push("tampered".into());
    }
    o.tags.sort();
    o.tags.dedup();
    o.nontrivial = writes >= 1 && c.cmds.len() >= 2;
    Ok(o)
}

fn gen_disk(rng: &mut Rng, tier: Tier) -> Vec<String> {
    let n = if tier == Tier::Thorough { 2500 } else { 300 };
    let mut out = Vec::new();
    for case in 0..n {
        let d = gen_blobs(rng);
        let nb = d.len() as u64;
        let nops = if case % 23 == 0 { rng.range(25, 50) } else { rng.range(2, 14) };
        let ops: Vec<String> = (0..nops)
            .map(|_| match rng.below(20) {
                0 | 1 => {
                    // corrupt (or re-plant) the file of a blob hash with some dictionary blob
                    format!("awrite h{} {}", rng.below(nb), rng.below(nb))
                }
                2 => format!("awrite {} {}", gen_href(rng, &d), rng.below(nb)),
                3 => format!("adel h{}", rng.below(nb)),
                4 => format!("adel {}", gen_href(rng, &d)),
                5 => "reopen".into(),
                6 => "list".into(),
                _ => gen_common_op(rng, &d),
            })
            .collect();
        out.push(format!("{} {} {}", dict_s(&d), ops.len(), ops.join(" ")));
    }
    out
}

// ------------------------------------------------------------------ C20.ret

const ROLES: [RetainedBlobRole; 6] = [
    RetainedBlobRole::ContractArtifact,
    RetainedBlobRole::ContractReceipt,
    RetainedBlobRole::Witness,
    RetainedBlobRole::ReadingPayload,
    RetainedBlobRole::ReadingEnvelope,
    RetainedBlobRole::ObserverArtifact,
];

#[derive(Clone, Debug)]
enum RCmd {
    Retain(usize, usize, usize),
    Desc(usize),
    Load(usize, usize),
    LoadH(usize, H32),
    Range(usize, usize, u64, u64, u64),
    Put(usize, usize),
}

struct RetCase {
    dict: Dict,
    coords: Vec<SemanticBlobCoordinate>,
    cmds: Vec<RCmd>,
}

fn ascii(b: Vec<u8>) -> Result<String, String> {
    String::from_utf8(b).map_err(|_| "coordinate string is not UTF-8".to_string())
}

fn parse_ret(t: &mut Toks) -> Result<RetCase, String> {
    let dict = parse_dict(t)?;
    let nc = t.num()?;
    let mut coords = Vec::new();
    for _ in 0..nc {
        let namespace = ascii(t.bytes()?)?;
        let schema_hash_hex = ascii(t.bytes()?)?;
        let artifact_hash_hex = ascii(t.bytes()?)?;
        let role = *ROLES.get(t.num()? as usize).ok_or("bad role")?;
        let semantic_digest = t.id()?;
        coords.push(SemanticBlobCoordinate { namespace, schema_hash_hex, artifact_hash_hex, role, semantic_digest });
    }
    let n = t.num()?;
    let mut cmds = Vec::new();
    let st = |t: &mut Toks| -> Result<usize, String> {
        let s = t.num()? as usize;
        if s < 2 {
            Ok(s)
        } else {
            Err(format!("bad store {s}"))
        }
    };
    let ci = |t: &mut Toks, n: usize| -> Result<usize, String> {
        let i = t.num()? as usize;
        if i < n {
            Ok(i)
        } else {
            Err(format!("bad coord index {i}"))
        }
    };
    for _ in 0..n {
        let c = match t.next()? {
            "retain" => {
                let s = st(t)?;
                let c = ci(t, coords.len())?;
                RCmd::Retain(s, c, blob_ix(t, &dict)?)
            }
            "desc" => RCmd::Desc(ci(t, coords.len())?),
            "load" => {
                let s = st(t)?;
                RCmd::Load(s, ci(t, coords.len())?)
            }
            "loadh" => {
                let s = st(t)?;
                RCmd::LoadH(s, href(t, &dict)?)
            }
            "range" => {
                let s = st(t)?;
                let c = ci(t, coords.len())?;
                RCmd::Range(s, c, t.num()?, t.num()?, t.num()?)
            }
            "put" => {
                let s = st(t)?;
                RCmd::Put(s, blob_ix(t, &dict)?)
            }
            o => return Err(format!("bad op {o}")),
        };
        cmds.push(c);
    }
    if !t.done() {
        return Err("trailing tokens".into());
    }
    Ok(RetCase { dict, coords, cmds })
}

fn rerr_s(e: &RetentionError) -> String {
    match e {
        RetentionError::MissingSemanticCoordinate { .. } => "missing-coord".into(),
        RetentionError::MissingBlob { content_hash } => format!("missing-blob {}", hex(content_hash.as_bytes())),
        RetentionError::RangeExceedsBudget { requested_bytes, max_bytes } => format!("budget {requested_bytes} {max_bytes}"),
        RetentionError::RangeOutOfBounds { offset, len, byte_len } => format!("oob {offset} {len} {byte_len}"),
        RetentionError::SemanticCoordinateConflict { existing_content_hash, new_content_hash, .. } => {
            format!("conflict {} {}", hex(existing_content_hash.as_bytes()), hex(new_content_hash.as_bytes()))
        }
    }
}

fn desc_s(c: &SemanticBlobCoordinate, d: &RetainedBlobDescriptor) -> String {
    format!("{} {} {}", hex(d.content_hash.as_bytes()), d.byte_len, b01(d.coordinate == *c))
}

fn imp_ret(t: &mut Toks) -> Result<String, String> {
    let c = parse_ret(t)?;
    let mut ix = RetainedBlobIndex::default();
    let mut stores = [MemoryTier::new(), MemoryTier::new()];
    let mut outs = Vec::new();
    for cmd in &c.cmds {
        outs.push(match cmd {
            RCmd::Retain(s, ci, bi) => match ix.retain(&mut stores[*s], c.coords[*ci].clone(), &c.dict[*bi].0) {
                Ok(d) => format!("ok {}", desc_s(&c.coords[*ci], &d)),
                Err(e) => rerr_s(&e),
            },
            RCmd::Desc(ci) => match ix.descriptor(&c.coords[*ci]) {
                None => "none".into(),
                Some(d) => format!("desc {}", desc_s(&c.coords[*ci], d)),
            },
            RCmd::Load(s, ci) => match ix.load(&stores[*s], &c.coords[*ci]) {
                Ok(r) => format!("ok {} {}", desc_s(&c.coords[*ci], &r.descriptor), hex(&r.bytes)),
                Err(e) => rerr_s(&e),
            },
            RCmd::LoadH(s, h) => match ix.load_by_hash(&stores[*s], bh(h)) {
                Ok(b) => format!("ok {}", hex(&b)),
                Err(e) => rerr_s(&e),
            },
            RCmd::Range(s, ci, off, len, max) => match ix.load_range(&stores[*s], &c.coords[*ci], *off, *len, *max) {
                Ok(r) => format!("ok {} {} {}", desc_s(&c.coords[*ci], &r.descriptor), r.offset, hex(&r.bytes)),
                Err(e) => rerr_s(&e),
            },
            RCmd::Put(s, bi) => format!("put {}", hex(stores[*s].put(&c.dict[*bi].0).as_bytes())),
        });
    }
    let mut fin: Vec<String> = c
        .coords
        .iter()
        .map(|co| match ix.descriptor(co) {
            None => "none".into(),
            Some(d) => format!("desc {}", desc_s(co, d)),
        })
        .collect();
    for s in &stores {
        let pins: String = c.dict.iter().map(|p| b01(s.is_pinned(&bh(&p.1)))).collect();
        fin.push(format!("stat {} {} {} {}", s.len(), s.byte_count(), s.pinned_count(), pins));
    }
    Ok(format!("{} ;; {}", outs.join(" ; "), fin.join(" ; ")))
}

fn oracle_ret(t: &mut Toks, _tier: Tier) -> Result<OracleOut, String> {
    let c = parse_ret(t)?;
    let mut o = OracleOut::default();
    let mut ix = RetainedBlobIndex::default();
    let mut stores = [MemoryTier::new(), MemoryTier::new()];
    // reference: coordinate index -> the bytes first retained there; per store: hashes it holds
    let mut named: BTreeMap<usize, Vec<u8>> = BTreeMap::new();
    let mut held: [BTreeSet<H32>; 2] = [BTreeSet::new(), BTreeSet::new()];
    let fail = |o: &mut OracleOut, k: &str, w: String| {
        if !o.fails.iter().any(|(kk, _)| kk == k) {
            o.fails.push((k.to_string(), w));
        }
    };
    // two coordinate indices may spell the same coordinate: canonical representative
    let canon = |i: usize| -> usize { (0..=i).find(|j| c.coords[*j] == c.coords[i]).unwrap_or(i) };
    for (n, cmd) in c.cmds.iter().enumerate() {
        let at = format!("op {n}");
        match cmd {
            RCmd::Retain(s, ci, bi) => {
                let co = &c.coords[*ci];
                let b = &c.dict[*bi].0;
                let k = canon(*ci);
                let r = ix.retain(&mut stores[*s], co.clone(), b);
                match named.get(&k) {
                    Some(first) if first != b => {
                        o.tags.push("retain-conflict".into());
                        match r {
                            Ok(_) => fail(&mut o, "C20.retention-alias", format!("{at}: a coordinate that names other bytes accepted different content")),
                            Err(RetentionError::SemanticCoordinateConflict { existing_content_hash, new_content_hash, coordinate }) => {
                                if *existing_content_hash.as_bytes() != b3(first) || *new_content_hash.as_bytes() != b3(b) || *coordinate != *co {
                                    fail(&mut o, "C20.retention-conflict-wrong-fields", at.clone());
                                }
                            }
                            Err(e) => fail(&mut o, "C20.retention-untyped-refusal", format!("{at}: {}", rerr_s(&e))),
                        }
                    }
                    prior => {
                        o.tags.push(if prior.is_some() { "retain-idempotent".into() } else { "retain-new".into() });
                        if prior.is_some() && !held[*s].contains(&b3(b)) {
                            o.tags.push("retain-restores-missing-blob".into());
                        }
                        match r {
                            Ok(d) => {
                                if *d.content_hash.as_bytes() != b3(b) || d.byte_len != b.len() as u64 || d.coordinate != *co {
                                    fail(&mut o, "C20.retention-descriptor-wrong", at.clone());
                                }
                            }
                            Err(e) => fail(&mut o, "C20.retention-refused-valid", format!("{at}: {}", rerr_s(&e))),
                        }
                        named.entry(k).or_insert_with(|| b.clone());
                        held[*s].insert(b3(b));
                        if !stores[*s].is_pinned(&bh(&b3(b))) {
                            fail(&mut o, "C20.retention-not-pinned", at.clone());
                        }
                    }
                }
            }
            RCmd::Put(s, bi) => {
                stores[*s].put(&c.dict[*bi].0);
                held[*s].insert(b3(&c.dict[*bi].0));
            }
            RCmd::Desc(_) => {}
            RCmd::Load(s, ci) => {
                let r = ix.load(&stores[*s], &c.coords[*ci]);
                check_load(&mut o, &fail, &at, r.map(|x| (x.descriptor, x.bytes.to_vec())), &c.coords[*ci], named.get(&canon(*ci)), &held[*s]);
            }
            RCmd::LoadH(s, h) => match ix.load_by_hash(&stores[*s], bh(h)) {
                Ok(b) => {
                    if b3(&b) != *h || !held[*s].contains(h) {
                        fail(&mut o, "C20.get-returned-wrong-bytes.ret", at.clone());
                    }
                }
                Err(RetentionError::MissingBlob { content_hash }) => {
                    if content_hash.as_bytes() != h || held[*s].contains(h) {
                        fail(&mut o, "C20.retention-wrong-obstruction", format!("{at}: MissingBlob for a held blob"));
                    }
                    o.tags.push("missing-blob".into());
                }
                Err(e) => fail(&mut o, "C20.retention-wrong-obstruction", format!("{at}: {}", rerr_s(&e))),
            },
            RCmd::Range(s, ci, off, len, max) => {
                let co = &c.coords[*ci];
                let r = ix.load_range(&stores[*s], co, *off, *len, *max);
                let first = named.get(&canon(*ci));
                let present = first.map(|b| held[*s].contains(&b3(b))).unwrap_or(false);
                if !present {
                    check_load(&mut o, &fail, &at, r.map(|x| (x.descriptor, x.bytes.to_vec())), co, first, &held[*s]);
                } else if let Some(b) = first {
                    let blen = b.len() as u64;
                    let want: Result<Vec<u8>, String> = if len > max {
                        Err(format!("budget {len} {max}"))
                    } else {
                        match off.checked_add(*len) {
                            Some(end) if end <= blen => Ok(b[*off as usize..end as usize].to_vec()),
                            _ => Err(format!("oob {off} {len} {blen}")),
                        }
                    };
                    let got = match &r {
                        Ok(x) => {
                            if x.offset != *off || x.descriptor.coordinate != *co || *x.descriptor.content_hash.as_bytes() != b3(b) {
                                fail(&mut o, "C20.retention-descriptor-wrong", at.clone());
                            }
                            Ok(x.bytes.to_vec())
                        }
                        Err(e) => Err(rerr_s(e)),
                    };
                    if got != want {
                        fail(&mut o, "C20.retention-range-wrong", format!("{at}: load_range gave {got:?}, expected {want:?}"));
                    }
                    o.tags.push(match &want {
                        Ok(_) => "range-ok".into(),
                        Err(e) if e.starts_with("budget") => "range-budget".into(),
                        Err(_) => "range-oob".into(),
                    });
                }
            }
        }
        // descriptors never change once set, and never appear for an un-retained coordinate
        for (i, co) in c.coords.iter().enumerate() {
            match (ix.descriptor(co), named.get(&canon(i))) {
                (None, None) => {}
                (Some(d), Some(b)) if *d.content_hash.as_bytes() == b3(b) && d.byte_len == b.len() as u64 && d.coordinate == *co => {}
                _ => fail(&mut o, "C20.retention-descriptor-changed", format!("{at}: descriptor of coordinate {i} is not the first retained content")),
            }
        }
    }
    // distinct coordinates never alias: every coordinate answers with its own bytes on both stores
    for (i, co) in c.coords.iter().enumerate() {
        for s in 0..2 {
            let r = ix.load(&stores[s], co);
            check_load(&mut o, &fail, "final", r.map(|x| (x.descriptor, x.bytes.to_vec())), co, named.get(&canon(i)), &held[s]);
        }
    }
    let distinct_named: BTreeSet<&Vec<u8>> = named.values().collect();
    if distinct_named.len() >= 2 {
        o.tags.push("distinct-content-coords".into());
    }
    o.tags.sort();
    o.tags.dedup();
    o.nontrivial = !named.is_empty() && c.cmds.len() >= 2;
    Ok(o)
}

#[allow(clippy::too_many_arguments)]
fn check_load(
    o: &mut OracleOut,
    fail: &dyn Fn(&mut OracleOut, &str, String),
    at: &str,
    r: Result<(RetainedBlobDescriptor, Vec<u8>), RetentionError>,
    co: &SemanticBlobCoordinate,
    first: Option<&Vec<u8>>,
    held: &BTreeSet<H32>,
) {
    match (first, r) {
        (None, Err(RetentionError::MissingSemanticCoordinate { coordinate })) => {
            if coordinate != *co {
                fail(o, "C20.retention-wrong-obstruction", format!("{at}: obstruction names another coordinate"));
            }
            o.tags.push("missing-coord".into());
        }
        (None, Ok(_)) => fail(o, "C20.retention-alias", format!("{at}: a coordinate that was never retained answered with bytes")),
        (Some(b), Ok((d, bytes))) => {
            if &bytes != b || *d.content_hash.as_bytes() != b3(b) || d.coordinate != *co {
                fail(o, "C20.retention-alias", format!("{at}: coordinate answered with bytes other than the ones retained under it"));
            }
            if !held.contains(&b3(b)) {
                fail(o, "C20.retention-wrong-obstruction", format!("{at}: bytes served from a store that never held them"));
            }
            o.tags.push("load-ok".into());
        }
        (Some(b), Err(RetentionError::MissingBlob { content_hash })) => {
            if *content_hash.as_bytes() != b3(b) || held.contains(&b3(b)) {
                fail(o, "C20.retention-wrong-obstruction", format!("{at}: MissingBlob although the store holds the content"));
            }
            o.tags.push("missing-blob".into());
        }
        (_, Err(e)) => fail(o, "C20.retention-wrong-obstruction", format!("{at}: {}", rerr_s(&e))),
    }
}

fn gen_ret(rng: &mut Rng, tier: Tier) -> Vec<String> {
    let n = if tier == Tier::Thorough { 3000 } else { 300 };
    let mut out = Vec::new();
    let nss = ["contract:a", "contract:b"];
    let schemas = ["00", "01"];
    let arts = ["aa", "ab"];
    for case in 0..n {
        let d = gen_blobs(rng);
        let nb = d.len() as u64;
        // coordinates differing in exactly one field from a base coordinate, plus an exact repeat
        let base = (rng.below(2) as usize, rng.below(2) as usize, rng.below(2) as usize, rng.below(6), rng.below(3));
        let nc = rng.range(2, 5);
        let mut coords = vec![base];
        for _ in 1..nc {
            let mut c = *rng.pick(&coords);
            match rng.below(6) {
                0 => c.0 ^= 1,
                1 => c.1 ^= 1,
                2 => c.2 ^= 1,
                3 => c.3 = (c.3 + 1 + rng.below(5)) % 6,
                4 => c.4 = (c.4 + 1 + rng.below(2)) % 3,
                _ => {}
            }
            coords.push(c);
        }
        let mut line = format!("{} {}", dict_s(&d), coords.len());
        for c in &coords {
            line.push_str(&format!(
                " {} {} {} {} {}",
                hex(nss[c.0].as_bytes()),
                hex(schemas[c.1].as_bytes()),
                hex(arts[c.2].as_bytes()),
                c.3,
                hex(&small_id(c.4))
            ));
        }
        let nops = if case % 19 == 0 { rng.range(20, 40) } else { rng.range(2, 12) };
        let ncs = coords.len() as u64;
        let ops: Vec<String> = (0..nops)
            .map(|_| {
                let s = if rng.chance(3, 4) { 0 } else { 1 };
                match rng.below(12) {
                    0..=4 => format!("retain {s} {} {}", rng.below(ncs), rng.below(nb)),
                    5 => format!("desc {}", rng.below(ncs)),
                    6 | 7 => format!("load {} {}", rng.below(2), rng.below(ncs)),
                    8 => format!("loadh {} {}", rng.below(2), gen_href(rng, &d)),
                    9 | 10 => {
                        let big = [u64::MAX, u64::MAX - 1, 1 << 63, 1 << 32];
                        // half of the ranges end exactly at (or one past) the end of some dictionary blob
                        let l = rng.pick(&d).0.len() as u64;
                        let (off, len) = if rng.chance(1, 2) {
                            let off = rng.below(l + 1);
                            (off, l - off + u64::from(rng.chance(1, 4)))
                        } else {
                            (
                                if rng.chance(1, 8) { *rng.pick(&big) } else { rng.below(10) },
                                if rng.chance(1, 8) { *rng.pick(&big) } else { rng.below(10) },
                            )
                        };
                        let max = match rng.below(6) {
                            0 => *rng.pick(&big),
                            1 => len.saturating_sub(1),
                            2 => len,
                            _ => rng.below(40),
                        };
                        format!("range {} {} {off} {len} {max}", rng.below(2), rng.below(ncs))
                    }
                    _ => format!("put {} {}", rng.below(2), rng.below(nb)),
                }
            })
            .collect();
        line.push_str(&format!(" {} {}", ops.len(), ops.join(" ")));
        out.push(line);
    }
    out
}
