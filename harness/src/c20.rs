//! C20 — retained content is returned intact or not at all.
//! Real code: `echo_cas::{MemoryTier, DiskTier, RetainedBlobIndex}`.
//!
//! Line: `[budget|-] nblobs (<bytes> <blake3>)* nops op*`; ops address blobs by index and hashes as
//! `h<i>` (hash of blob i) or 64 hex digits.  The hash column is produced by the generator with the
//! `blake3` crate and re-validated here, so the model (which never hashes) sees the real `H`.
use crate::prng::Rng;
use crate::util::{hex, small_id, Toks};
use crate::{OracleOut, Stream, Tier};
use echo_cas::{
    BlobHash, BlobStore, CasError, DiskTier, DiskTierError, MemoryTier, RetainedBlobDescriptor, RetainedBlobIndex,
    RetainedBlobRole, RetentionError, SemanticBlobCoordinate,
};
use std::collections::{BTreeMap, BTreeSet};
use std::path::{Path, PathBuf};
use std::sync::atomic::{AtomicU64, Ordering};

pub fn streams() -> Vec<Stream> {
    vec![
        Stream { name: "C20.mem", gen: gen_mem, imp: imp_mem, oracle: oracle_mem },
        Stream { name: "C20.disk", gen: gen_disk, imp: imp_disk, oracle: oracle_disk },
        Stream { name: "C20.ret", gen: gen_ret, imp: imp_ret, oracle: oracle_ret },
        Stream { name: "C20.wsc", gen: gen_wsc, imp: imp_wsc, oracle: oracle_wsc },
    ]
}

type H32 = [u8; 32];

/// Independent of the code under test on purpose (not `echo_cas::blob_hash`).
fn b3(b: &[u8]) -> H32 {
    *blake3::hash(b).as_bytes()
}

fn bh(h: &H32) -> BlobHash {
    BlobHash::from_bytes(*h)
}

#[derive(Clone, Debug)]
enum Cmd {
    Put(usize),
    PutV(H32, usize),
    Get(H32),
    Has(H32),
    Pin(H32),
    Unpin(H32),
    IsPin(H32),
    Stat,
    Reopen,
    List,
    AWrite(H32, usize),
    ADel(H32),
}

impl Cmd {
    fn hashes(&self) -> Vec<H32> {
        match self {
            Cmd::PutV(h, _) | Cmd::Get(h) | Cmd::Has(h) | Cmd::Pin(h) | Cmd::Unpin(h) | Cmd::IsPin(h) | Cmd::AWrite(h, _) | Cmd::ADel(h) => {
                vec![*h]
            }
            _ => vec![],
        }
    }
    fn tag(&self) -> &'static str {
        match self {
            Cmd::Put(_) => "op:put",
            Cmd::PutV(..) => "op:putv",
            Cmd::Get(_) => "op:get",
            Cmd::Has(_) => "op:has",
            Cmd::Pin(_) => "op:pin",
            Cmd::Unpin(_) => "op:unpin",
            Cmd::IsPin(_) => "op:ispin",
            Cmd::Stat => "op:stat",
            Cmd::Reopen => "op:reopen",
            Cmd::List => "op:list",
            Cmd::AWrite(..) => "op:adv-write",
            Cmd::ADel(_) => "op:adv-delete",
        }
    }
}

type Dict = Vec<(Vec<u8>, H32)>;

fn parse_dict(t: &mut Toks) -> Result<Dict, String> {
    let n = t.num()?;
    let mut d = Vec::new();
    for _ in 0..n {
        let b = t.bytes()?;
        let h = t.id()?;
        if b3(&b) != h {
            return Err("dictionary hash is not BLAKE3 of the bytes".into());
        }
        d.push((b, h));
    }
    Ok(d)
}

fn blob_ix(t: &mut Toks, d: &Dict) -> Result<usize, String> {
    let i = t.num()? as usize;
    if i < d.len() {
        Ok(i)
    } else {
        Err(format!("bad blob index {i}"))
    }
}

fn href(t: &mut Toks, d: &Dict) -> Result<H32, String> {
    let s = t.next()?;
    if let Some(rest) = s.strip_prefix('h') {
        let i: usize = rest.parse().map_err(|_| format!("bad hash ref {s}"))?;
        d.get(i).map(|p| p.1).ok_or_else(|| format!("bad hash index {s}"))
    } else {
        crate::util::id32(s)
    }
}

fn parse_cmds(t: &mut Toks, d: &Dict, disk: bool) -> Result<Vec<Cmd>, String> {
    let n = t.num()?;
    let mut v = Vec::new();
    for _ in 0..n {
        let c = match t.next()? {
            "put" => Cmd::Put(blob_ix(t, d)?),
            "putv" => {
                let h = href(t, d)?;
                Cmd::PutV(h, blob_ix(t, d)?)
            }
            "get" => Cmd::Get(href(t, d)?),
            "has" => Cmd::Has(href(t, d)?),
            "pin" => Cmd::Pin(href(t, d)?),
            "unpin" => Cmd::Unpin(href(t, d)?),
            "ispin" => Cmd::IsPin(href(t, d)?),
            "stat" => Cmd::Stat,
            "reopen" if disk => Cmd::Reopen,
            "list" if disk => Cmd::List,
            "awrite" if disk => {
                let h = href(t, d)?;
                Cmd::AWrite(h, blob_ix(t, d)?)
            }
            "adel" if disk => Cmd::ADel(href(t, d)?),
            o => return Err(format!("bad op {o}")),
        };
        v.push(c);
    }
    if !t.done() {
        return Err("trailing tokens".into());
    }
    Ok(v)
}

fn universe(d: &Dict, cs: &[Cmd]) -> Vec<H32> {
    let mut u: Vec<H32> = d.iter().map(|p| p.1).collect();
    for c in cs {
        u.extend(c.hashes());
    }
    u
}

fn b01(b: bool) -> &'static str {
    if b {
        "1"
    } else {
        "0"
    }
}

fn mismatch_s(e: &CasError) -> String {
    match e {
        CasError::HashMismatch { expected, computed } => {
            format!("mismatch {} {}", hex(expected.as_bytes()), hex(computed.as_bytes()))
        }
    }
}

// ------------------------------------------------------------------ C20.mem

struct MemCase {
    budget: Option<usize>,
    dict: Dict,
    cmds: Vec<Cmd>,
}

fn parse_mem(t: &mut Toks) -> Result<MemCase, String> {
    let b = t.next()?;
    let budget = if b == "-" { None } else { Some(b.parse::<usize>().map_err(|_| format!("bad budget {b}"))?) };
    let dict = parse_dict(t)?;
    let cmds = parse_cmds(t, &dict, false)?;
    Ok(MemCase { budget, dict, cmds })
}

fn new_mem(budget: Option<usize>) -> MemoryTier {
    match budget {
        Some(n) => MemoryTier::with_limits(n),
        None => MemoryTier::new(),
    }
}

fn mem_stat(s: &MemoryTier) -> String {
    format!("stat {} {} {} {}", s.len(), s.byte_count(), s.pinned_count(), b01(s.is_over_budget()))
}

fn opt_s(o: Option<std::sync::Arc<[u8]>>) -> String {
    match o {
        None => "none".into(),
        Some(b) => format!("some {}", hex(&b)),
    }
}

fn imp_mem(t: &mut Toks) -> Result<String, String> {
    let c = parse_mem(t)?;
    let mut s = new_mem(c.budget);
    let mut outs = Vec::new();
    for cmd in &c.cmds {
        outs.push(match cmd {
            Cmd::Put(i) => {
                let h = s.put(&c.dict[*i].0);
                format!("put {} {}", hex(h.as_bytes()), hex(h.as_bytes()))
            }
            Cmd::PutV(e, i) => match s.put_verified(bh(e), &c.dict[*i].0) {
                Ok(()) => "ok".into(),
                Err(e) => mismatch_s(&e),
            },
            Cmd::Get(h) => opt_s(s.get(&bh(h))),
            Cmd::Has(h) => b01(s.has(&bh(h))).into(),
            Cmd::Pin(h) => {
                s.pin(&bh(h));
                format!("pins {}", s.pinned_count())
            }
            Cmd::Unpin(h) => {
                s.unpin(&bh(h));
                format!("pins {}", s.pinned_count())
            }
            Cmd::IsPin(h) => b01(s.is_pinned(&bh(h))).into(),
            Cmd::Stat => mem_stat(&s),
            _ => return Err("op not available on the memory tier".into()),
        });
    }
    let fin: Vec<String> = universe(&c.dict, &c.cmds)
        .iter()
        .map(|h| format!("{} {}", opt_s(s.get(&bh(h))), b01(s.is_pinned(&bh(h)))))
        .collect();
    Ok(format!("{} ;; {} ; {}", outs.join(" ; "), mem_stat(&s), fin.join(" ; ")))
}

/// Everything observable about content (not pins): get on the whole universe, len, byte count.
fn mem_probe(s: &MemoryTier, uni: &[H32]) -> (Vec<Option<Vec<u8>>>, usize, usize) {
    (uni.iter().map(|h| s.get(&bh(h)).map(|b| b.to_vec())).collect(), s.len(), s.byte_count())
}

fn oracle_mem(t: &mut Toks, _tier: Tier) -> Result<OracleOut, String> {
    let c = parse_mem(t)?;
    let mut o = OracleOut::default();
    let uni = universe(&c.dict, &c.cmds);
    let mut s = new_mem(c.budget);
    let mut reference: BTreeMap<H32, Vec<u8>> = BTreeMap::new();
    let fail = |o: &mut OracleOut, k: &str, w: String| {
        if !o.fails.iter().any(|(kk, _)| kk == k) {
            o.fails.push((k.to_string(), w));
        }
    };
    let mut writes = 0;
    for (n, cmd) in c.cmds.iter().enumerate() {
        o.tags.push(cmd.tag().into());
        match cmd {
            Cmd::Put(i) => {
                let b = &c.dict[*i].0;
                let want = b3(b);
                let was_present = reference.contains_key(&want);
                let h = s.put(b);
                if *h.as_bytes() != want {
                    fail(&mut o, "C20.put-returned-wrong-hash.mem", format!("op {n}: put returned {} for bytes hashing to {}", hex(h.as_bytes()), hex(&want)));
                }
                reference.entry(want).or_insert_with(|| b.clone());
                writes += 1;
                let before = mem_probe(&s, &uni);
                let h2 = s.put(b);
                if h2 != h || mem_probe(&s, &uni) != before {
                    fail(&mut o, "C20.put-not-idempotent.mem", format!("op {n}: repeating put changed the store"));
                }
                if was_present {
                    o.tags.push("put-existing".into());
                }
            }
            Cmd::PutV(e, i) => {
                let b = &c.dict[*i].0;
                let hb = b3(b);
                let before = mem_probe(&s, &uni);
                let r = s.put_verified(bh(e), b);
                if hb != *e {
                    let existing = reference.contains_key(e);
                    o.tags.push(if existing { "putv-mismatch-existing".into() } else { "putv-mismatch-absent".into() });
                    match r {
                        Ok(()) => fail(
                            &mut o,
                            "C20.put-verified-accepts-mismatch.mem",
                            format!("op {n}: MemoryTier::put_verified({}, bytes hashing to {}) returned Ok (expected hash already stored: {existing})", hex(e), hex(&hb)),
                        ),
                        Err(CasError::HashMismatch { expected, computed }) => {
                            if expected.as_bytes() != e || *computed.as_bytes() != hb {
                                fail(&mut o, "C20.mismatch-error-wrong-fields.mem", format!("op {n}"));
                            }
                        }
                    }
                    if mem_probe(&s, &uni) != before {
                        fail(&mut o, "C20.put-verified-mismatch-mutates.mem", format!("op {n}: refused write changed the store"));
                    }
                } else {
                    o.tags.push("putv-match".into());
                    if r.is_err() {
                        fail(&mut o, "C20.put-verified-rejects-match.mem", format!("op {n}: matching bytes refused"));
                    }
                    reference.entry(hb).or_insert_with(|| b.clone());
                    writes += 1;
                    let before = mem_probe(&s, &uni);
                    let _ = s.put_verified(bh(e), b);
                    if mem_probe(&s, &uni) != before {
                        fail(&mut o, "C20.put-not-idempotent.mem", format!("op {n}: repeating put_verified changed the store"));
                    }
                }
            }
            Cmd::Get(h) => {
                let r = s.get(&bh(h)).map(|b| b.to_vec());
                if let Some(b) = &r {
                    if b3(b) != *h {
                        fail(&mut o, "C20.get-returned-wrong-bytes.mem", format!("op {n}: get({}) returned bytes hashing to {}", hex(h), hex(&b3(b))));
                    }
                    o.tags.push("get-hit".into());
                } else {
                    o.tags.push("get-miss".into());
                }
                if r.as_ref() != reference.get(h) {
                    fail(&mut o, "C20.get-disagrees-with-reference.mem", format!("op {n}: get({}) differs from the reference map", hex(h)));
                }
            }
            Cmd::Has(h) => {
                if s.has(&bh(h)) != reference.contains_key(h) {
                    fail(&mut o, "C20.has-disagrees-with-reference.mem", format!("op {n}"));
                }
            }
            Cmd::Pin(h) | Cmd::Unpin(h) => {
                let before = mem_probe(&s, &uni);
                if matches!(cmd, Cmd::Pin(_)) {
                    s.pin(&bh(h));
                } else {
                    s.unpin(&bh(h));
                }
                if mem_probe(&s, &uni) != before {
                    fail(&mut o, "C20.pin-changed-content.mem", format!("op {n}: pin/unpin changed what get returns"));
                }
            }
            Cmd::IsPin(_) | Cmd::Stat => {}
            _ => return Err("op not available on the memory tier".into()),
        }
    }
    // end state: the tier IS the reference map on the whole universe
    let mut total = 0usize;
    for h in &uni {
        let r = s.get(&bh(h)).map(|b| b.to_vec());
        if let Some(b) = &r {
            if b3(b) != *h {
                fail(&mut o, "C20.get-returned-wrong-bytes.mem", format!("final: get({}) returned bytes hashing to {}", hex(h), hex(&b3(b))));
            }
        }
        if r.as_ref() != reference.get(h) {
            fail(&mut o, "C20.get-disagrees-with-reference.mem", format!("final: get({}) differs from the reference map", hex(h)));
        }
    }
    for b in reference.values() {
        total += b.len();
    }
    if s.len() != reference.len() || s.byte_count() != total {
        fail(&mut o, "C20.accounting-disagrees-with-reference.mem", format!("len/byte_count {} {} vs reference {} {}", s.len(), s.byte_count(), reference.len(), total));
    }
    if let Some(m) = c.budget {
        if s.is_over_budget() != (total > m) {
            fail(&mut o, "C20.budget-flag-wrong.mem", format!("byte_count {total} budget {m}"));
        }
        o.tags.push(if total > m { "over-budget".into() } else { "within-budget".into() });
    }
    o.tags.sort();
    o.tags.dedup();
    o.nontrivial = writes >= 1 && c.cmds.len() >= 2;
    Ok(o)
}

fn gen_blobs(rng: &mut Rng) -> Dict {
    let n = rng.range(2, 6) as usize;
    let mut blobs: Vec<Vec<u8>> = Vec::new();
    for _ in 0..n {
        let b = if !blobs.is_empty() && rng.chance(2, 5) {
            // variant of an earlier blob: flipped bit, truncated, extended, or an exact duplicate
            let mut v = rng.pick(&blobs).clone();
            match rng.below(4) {
                0 if !v.is_empty() => {
                    let k = rng.below(v.len() as u64) as usize;
                    v[k] ^= 1 << rng.below(8);
                }
                1 if !v.is_empty() => {
                    v.pop();
                }
                2 => v.push(rng.next() as u8),
                _ => {}
            }
            v
        } else {
            let len = *rng.pick(&[0usize, 1, 2, 3, 5, 8, 13, 32, 33]);
            rng.bytes(len)
        };
        blobs.push(b);
    }
    blobs.into_iter().map(|b| { let h = b3(&b); (b, h) }).collect()
}

fn dict_s(d: &Dict) -> String {
    let mut s = format!("{}", d.len());
    for (b, h) in d {
        s.push_str(&format!(" {} {}", hex(b), hex(h)));
    }
    s
}

/// A hash token: mostly the hash of a dictionary blob, sometimes a near miss or a tiny id.
fn gen_href(rng: &mut Rng, d: &Dict) -> String {
    match rng.below(10) {
        0 => hex(&small_id(rng.below(3))),
        1 => {
            let mut h = rng.pick(d).1;
            h[rng.below(32) as usize] ^= 1 << rng.below(8);
            hex(&h)
        }
        2 => hex(&rng.pick(d).1), // the real hash spelled out raw
        _ => format!("h{}", rng.below(d.len() as u64)),
    }
}

fn gen_common_op(rng: &mut Rng, d: &Dict) -> String {
    let nb = d.len() as u64;
    match rng.below(16) {
        0..=3 => format!("put {}", rng.below(nb)),
        4 => {
            let i = rng.below(nb);
            format!("putv h{i} {i}")
        }
        5 | 6 => {
            // bytes of blob i offered under the hash of another blob (often already stored)
            let i = rng.below(nb);
            let j = rng.below(nb);
            format!("putv h{j} {i}")
        }
        7 => format!("putv {} {}", gen_href(rng, d), rng.below(nb)),
        8..=10 => format!("get {}", gen_href(rng, d)),
        11 => format!("has {}", gen_href(rng, d)),
        12 => format!("pin {}", gen_href(rng, d)),
        13 => format!("unpin {}", gen_href(rng, d)),
        14 => format!("ispin {}", gen_href(rng, d)),
        _ => "stat".into(),
    }
}

fn gen_mem(rng: &mut Rng, tier: Tier) -> Vec<String> {
    let n = if tier == Tier::Thorough { 4000 } else { 400 };
    let mut out = Vec::new();
    for case in 0..n {
        let d = gen_blobs(rng);
        let total: usize = d.iter().map(|p| p.0.len()).sum();
        let budget = if rng.chance(1, 2) { "-".to_string() } else { format!("{}", rng.below(total as u64 + 2)) };
        let nops = if case % 23 == 0 { rng.range(30, 60) } else { rng.range(2, 16) };
        let ops: Vec<String> = (0..nops).map(|_| gen_common_op(rng, &d)).collect();
        out.push(format!("{budget} {} {} {}", dict_s(&d), ops.len(), ops.join(" ")));
    }
    out
}

// ------------------------------------------------------------------ C20.disk

static TMP_COUNTER: AtomicU64 = AtomicU64::new(0);

/// Scratch directory (tmpfs or `<verif>/work/C20/tmp`; override: VERIF_C20_TMP), removed on drop. Paths never reach the output.
struct Scratch(PathBuf);
impl Scratch {
    fn new() -> Result<Self, String> {
        // tmpfs when there is one (the ext4 work dir costs ~100x per case), else `<verif>/work/C20/tmp`
        let base = std::env::var("VERIF_C20_TMP").map(PathBuf::from).unwrap_or_else(|_| {
            let shm = Path::new("/dev/shm");
            if shm.is_dir() {
                shm.join("echo-verif-c20")
            } else {
                Path::new(env!("CARGO_MANIFEST_DIR")).join("..").join("work").join("C20").join("tmp")
            }
        });
        let p = base.join(format!("{}-{}", std::process::id(), TMP_COUNTER.fetch_add(1, Ordering::Relaxed)));
        std::fs::create_dir_all(&p).map_err(|e| format!("scratch: {e}"))?;
        Ok(Scratch(p))
    }
}
impl Drop for Scratch {
    fn drop(&mut self) {
        let _ = std::fs::remove_dir_all(&self.0);
        if let Some(base) = self.0.parent() {
            let _ = std::fs::remove_dir(base); // only succeeds once the last scratch dir is gone
        }
    }
}

/// The on-disk layout of `DiskTier` as the adversary knows it: `<root>/blobs/<hex[..2]>/<hex>`.
fn blob_file(root: &Path, h: &H32) -> PathBuf {
    let hx = ::hex::encode(h);
    root.join("blobs").join(&hx[..2]).join(&hx)
}

fn adv_write(root: &Path, h: &H32, b: &[u8]) -> Result<(), String> {
    let p = blob_file(root, h);
    if let Some(par) = p.parent() {
        std::fs::create_dir_all(par).map_err(|e| format!("adv mkdir: {e}"))?;
    }
    std::fs::write(&p, b).map_err(|e| format!("adv write: {e}"))
}

fn adv_delete(root: &Path, h: &H32) -> Result<(), String> {
    match std::fs::remove_file(blob_file(root, h)) {
        Ok(()) => Ok(()),
        Err(e) if e.kind() == std::io::ErrorKind::NotFound => Ok(()),
        Err(e) => Err(format!("adv delete: {e}")),
    }
}

#[derive(Clone, PartialEq, Eq, Debug)]
enum DGet {
    Absent,
    Found(Vec<u8>),
    Corrupt(H32, H32),
    Other(String),
}

fn dget(s: &DiskTier, h: &H32) -> DGet {
    match s.get(&bh(h)) {
        Ok(None) => DGet::Absent,
        Ok(Some(b)) => DGet::Found(b.to_vec()),
        Err(DiskTierError::Cas(CasError::HashMismatch { expected, computed })) => DGet::Corrupt(*expected.as_bytes(), *computed.as_bytes()),
        Err(DiskTierError::Io { operation, .. }) => DGet::Other(format!("io-{operation}")),
        Err(DiskTierError::InvalidBlobPath { .. }) => DGet::Other("invalid-blob-path".into()),
    }
}

fn dget_s(g: &DGet) -> String {
    match g {
        DGet::Absent => "none".into(),
        DGet::Found(b) => format!("some {}", hex(b)),
        DGet::Corrupt(e, c) => format!("corrupt-mismatch {} {}", hex(e), hex(c)),
        DGet::Other(s) => s.clone(),
    }
}

fn derr_s(e: &DiskTierError) -> String {
    match e {
        DiskTierError::Cas(c) => mismatch_s(c),
        DiskTierError::Io { operation, .. } => format!("io-{operation}"),
        DiskTierError::InvalidBlobPath { .. } => "invalid-blob-path".into(),
    }
}

fn list_s(s: &DiskTier) -> String {
    match s.list() {
        Ok(v) => {
            let mut o = format!("list {}", v.len());
            for h in v {
                o.push_str(&format!(" {}", hex(h.as_bytes())));
            }
            o
        }
        Err(e) => format!("list-{}", derr_s(&e)),
    }
}

struct DiskCase {
    dict: Dict,
    cmds: Vec<Cmd>,
}

fn parse_disk(t: &mut Toks) -> Result<DiskCase, String> {
    let dict = parse_dict(t)?;
    let cmds = parse_cmds(t, &dict, true)?;
    Ok(DiskCase { dict, cmds })
}

fn open(root: &Path) -> Result<DiskTier, String> {
    DiskTier::open(root).map_err(|e| format!("open: {}", derr_s(&e)))
}

fn imp_disk(t: &mut Toks) -> Result<String, String> {
    let c = parse_disk(t)?;
    let scratch = Scratch::new()?;
    let root = scratch.0.join("tier");
    let mut s = open(&root)?;
    let mut outs = Vec::new();
    for cmd in &c.cmds {
        outs.push(match cmd {
            Cmd::Put(i) => match s.put(&c.dict[*i].0) {
                Ok(h) => format!("put {} {}", hex(h.as_bytes()), hex(h.as_bytes())),
                Err(e) => format!("put-{}", derr_s(&e)),
            },
            Cmd::PutV(e, i) => match s.put_verified(bh(e), &c.dict[*i].0) {
                Ok(()) => "ok".into(),
                Err(e) => derr_s(&e),
            },
            Cmd::Get(h) => dget_s(&dget(&s, h)),
            Cmd::Has(h) => match s.has(&bh(h)) {
                Ok(b) => b01(b).into(),
                Err(e) => derr_s(&e),
            },
            Cmd::Pin(h) => {
                s.pin(&bh(h));
                format!("pins {}", s.pinned_count())
            }
            Cmd::Unpin(h) => {
                s.unpin(&bh(h));
                format!("pins {}", s.pinned_count())
            }
            Cmd::IsPin(h) => b01(s.is_pinned(&bh(h))).into(),
            Cmd::Stat => format!("stat {}", s.pinned_count()),
            Cmd::Reopen => {
                drop(s);
                s = open(&root)?;
                "reopened".into()
            }
            Cmd::List => list_s(&s),
            Cmd::AWrite(h, i) => {
                adv_write(&root, h, &c.dict[*i].0)?;
                "adv".into()
            }
            Cmd::ADel(h) => {
                adv_delete(&root, h)?;
                "adv".into()
            }
        });
    }
    let fin: Vec<String> = universe(&c.dict, &c.cmds)
        .iter()
        .map(|h| {
            format!("{} {} {}", dget_s(&dget(&s, h)), s.has(&bh(h)).map(b01).unwrap_or("err"), b01(s.is_pinned(&bh(h))))
        })
        .collect();
    Ok(format!("{} ;; {} ; {}", outs.join(" ; "), list_s(&s), fin.join(" ; ")))
}

/// What a correct tier must answer for `h` given the true file contents.
fn expect_get(files: &BTreeMap<H32, Vec<u8>>, h: &H32) -> DGet {
    match files.get(h) {
        None => DGet::Absent,
        Some(b) => {
            let c = b3(b);
            if c == *h {
                DGet::Found(b.clone())
            } else {
                DGet::Corrupt(*h, c)
            }
        }
    }
}

fn disk_probe(s: &DiskTier, uni: &[H32]) -> Vec<DGet> {
    uni.iter().map(|h| dget(s, h)).collect()
}

fn oracle_disk(t: &mut Toks, tier: Tier) -> Result<OracleOut, String> {
    let c = parse_disk(t)?;
    let mut o = OracleOut::default();
    let uni = universe(&c.dict, &c.cmds);
    let scratch = Scratch::new()?;
    let root = scratch.0.join("tier");
    let mut s = open(&root)?;
    // true contents of the backing files (store writes and adversary writes alike)
    let mut files: BTreeMap<H32, Vec<u8>> = BTreeMap::new();
    let fail = |o: &mut OracleOut, k: &str, w: String| {
        if !o.fails.iter().any(|(kk, _)| kk == k) {
            o.fails.push((k.to_string(), w));
        }
    };
    let check_get = |o: &mut OracleOut, s: &DiskTier, files: &BTreeMap<H32, Vec<u8>>, h: &H32, at: &str| {
        let r = dget(s, h);
        if let DGet::Found(b) = &r {
            if b3(b) != *h {
                fail(o, "C20.get-returned-wrong-bytes.disk", format!("{at}: get({}) returned bytes hashing to {}", hex(h), hex(&b3(b))));
            }
        }
        let want = expect_get(files, h);
        if r != want {
            let key = if matches!(want, DGet::Corrupt(..)) { "C20.corruption-undetected.disk" } else { "C20.get-disagrees-with-reference.disk" };
            fail(o, key, format!("{at}: get({}) = {} but the backing file implies {}", hex(h), dget_s(&r), dget_s(&want)));
        }
        r
    };
    let mut writes = 0;
    let mut tampered = false;
    for (n, cmd) in c.cmds.iter().enumerate() {
        o.tags.push(cmd.tag().into());
        let at = format!("op {n}");
        match cmd {
            Cmd::Put(i) => {
                let b = &c.dict[*i].0;
                let want = b3(b);
                if matches!(expect_get(&files, &want), DGet::Corrupt(..)) {
                    o.tags.push("put-heals-corrupt".into());
                }
                match s.put(b) {
                    Ok(h) => {
                        if *h.as_bytes() != want {
                            fail(&mut o, "C20.put-returned-wrong-hash.disk", format!("{at}: put returned {}", hex(h.as_bytes())));
                        }
                    }
                    Err(e) => fail(&mut o, "C20.put-failed.disk", format!("{at}: {}", derr_s(&e))),
                }
                files.insert(want, b.clone());
                writes += 1;
                let before = disk_probe(&s, &uni);
                let _ = s.put(b);
                if disk_probe(&s, &uni) != before {
                    fail(&mut o, "C20.put-not-idempotent.disk", format!("{at}: repeating put changed the store"));
                }
                check_get(&mut o, &s, &files, &want, &at);
            }
            Cmd::PutV(e, i) => {
                let b = &c.dict[*i].0;
                let hb = b3(b);
                let before = disk_probe(&s, &uni);
                let r = s.put_verified(bh(e), b);
                if hb != *e {
                    let existing = files.contains_key(e);
                    o.tags.push(if existing { "putv-mismatch-existing".into() } else { "putv-mismatch-absent".into() });
                    match r {
                        Ok(()) => fail(
                            &mut o,
                            "C20.put-verified-accepts-mismatch.disk",
                            format!("{at}: DiskTier::put_verified({}, bytes hashing to {}) returned Ok", hex(e), hex(&hb)),
                        ),
                        Err(DiskTierError::Cas(CasError::HashMismatch { expected, computed })) => {
                            if expected.as_bytes() != e || *computed.as_bytes() != hb {
                                fail(&mut o, "C20.mismatch-error-wrong-fields.disk", at.clone());
                            }
                        }
                        Err(other) => fail(&mut o, "C20.put-verified-untyped-refusal.disk", format!("{at}: {}", derr_s(&other))),
                    }
                    if disk_probe(&s, &uni) != before {
                        fail(&mut o, "C20.put-verified-mismatch-mutates.disk", format!("{at}: refused write changed the store"));
                    }
                } else {
                    o.tags.push("putv-match".into());
                    if let Err(e) = r {
                        fail(&mut o, "C20.put-verified-rejects-match.disk", format!("{at}: matching bytes refused: {}", derr_s(&e)));
                    }
                    files.insert(hb, b.clone());
                    writes += 1;
                    check_get(&mut o, &s, &files, &hb, &at);
                }
            }
            Cmd::Get(h) => {
                let r = check_get(&mut o, &s, &files, h, &at);
                o.tags.push(match r {
                    DGet::Absent => "get-miss".into(),
                    DGet::Found(_) => "get-hit".into(),
                    DGet::Corrupt(..) => "get-corruption-detected".into(),
                    DGet::Other(_) => "get-other-error".into(),
                });
            }
            Cmd::Has(h) => match s.has(&bh(h)) {
                Ok(b) if b == files.contains_key(h) => {}
                _ => fail(&mut o, "C20.has-disagrees-with-reference.disk", at.clone()),
            },
            Cmd::Pin(h) | Cmd::Unpin(h) => {
                let before = disk_probe(&s, &uni);
                if matches!(cmd, Cmd::Pin(_)) {
                    s.pin(&bh(h));
                } else {
                    s.unpin(&bh(h));
                }
                if disk_probe(&s, &uni) != before {
                    fail(&mut o, "C20.pin-changed-content.disk", format!("{at}: pin/unpin changed what get returns"));
                }
            }
            Cmd::Reopen => {
                let before = disk_probe(&s, &uni);
                drop(s);
                s = open(&root)?;
                if disk_probe(&s, &uni) != before {
                    fail(&mut o, "C20.reopen-changed-content.disk", format!("{at}: reopening the tier changed what get returns"));
                }
            }
            Cmd::List => match s.list() {
                Ok(v) => {
                    let got: Vec<H32> = v.iter().map(|h| *h.as_bytes()).collect();
                    let want: Vec<H32> = files.keys().copied().collect();
                    if got != want {
                        fail(&mut o, "C20.list-disagrees-with-reference.disk", at.clone());
                    }
                }
                Err(e) => fail(&mut o, "C20.list-failed.disk", format!("{at}: {}", derr_s(&e))),
            },
            Cmd::AWrite(h, i) => {
                adv_write(&root, h, &c.dict[*i].0)?;
                files.insert(*h, c.dict[*i].0.clone());
                tampered = true;
                if b3(&c.dict[*i].0) != *h {
                    o.tags.push("adv-corrupts".into());
                } else {
                    o.tags.push("adv-plants-valid".into());
                }
                check_get(&mut o, &s, &files, h, &at);
            }
            Cmd::ADel(h) => {
                adv_delete(&root, h)?;
                files.remove(h);
                tampered = true;
                check_get(&mut o, &s, &files, h, &at);
            }
            Cmd::IsPin(_) | Cmd::Stat => {}
        }
    }
    for h in &uni {
        check_get(&mut o, &s, &files, h, "final");
    }
    // byte-level corruption and deletion of EVERY stored file
    let stored: Vec<(H32, Vec<u8>)> = files.iter().map(|(h, b)| (*h, b.clone())).collect();
    let mut mutants = 0usize;
    for (h, orig) in &stored {
        let baseline = dget(&s, h);
        let mut variants: Vec<Vec<u8>> = Vec::new();
        let positions: Vec<usize> = if tier == Tier::Thorough || orig.len() <= 4 {
            (0..orig.len()).collect()
        } else {
            vec![0, orig.len() / 2, orig.len() - 1]
        };
        for p in positions {
            for bit in [0x01u8, 0x80] {
                let mut v = orig.clone();
                v[p] ^= bit;
                variants.push(v);
            }
        }
        if !orig.is_empty() {
            variants.push(orig[..orig.len() - 1].to_vec());
            variants.push(Vec::new());
        }
        let mut ext = orig.clone();
        ext.push(0);
        variants.push(ext);
        for v in variants {
            adv_write(&root, h, &v)?;
            mutants += 1;
            let mut f2 = BTreeMap::new();
            f2.insert(*h, v);
            check_get(&mut o, &s, &f2, h, "sweep-corrupt");
        }
        adv_delete(&root, h)?;
        let none = BTreeMap::new();
        check_get(&mut o, &s, &none, h, "sweep-delete");
        if s.has(&bh(h)).unwrap_or(true) {
            fail(&mut o, "C20.has-disagrees-with-reference.disk", "sweep-delete: has() true after the file was removed".into());
        }
        adv_write(&root, h, orig)?;
        if dget(&s, h) != baseline {
            fail(&mut o, "C20.get-disagrees-with-reference.disk", "sweep-restore: get changed after the original bytes were restored".into());
        }
    }
    if mutants > 0 {
        o.tags.push("sweep-mutants".into());
    }
    if tampered {
        o.tags.push("tampered".into());
    }
    o.tags.sort();
    o.tags.dedup();
    o.nontrivial = writes >= 1 && c.cmds.len() >= 2;
    Ok(o)
}

fn gen_disk(rng: &mut Rng, tier: Tier) -> Vec<String> {
    let n = if tier == Tier::Thorough { 2500 } else { 300 };
    let mut out = Vec::new();
    for case in 0..n {
        let d = gen_blobs(rng);
        let nb = d.len() as u64;
        let nops = if case % 23 == 0 { rng.range(25, 50) } else { rng.range(2, 14) };
        let ops: Vec<String> = (0..nops)
            .map(|_| match rng.below(20) {
                0 | 1 => {
                    // corrupt (or re-plant) the file of a blob hash with some dictionary blob
                    format!("awrite h{} {}", rng.below(nb), rng.below(nb))
                }
                2 => format!("awrite {} {}", gen_href(rng, &d), rng.below(nb)),
                3 => format!("adel h{}", rng.below(nb)),
                4 => format!("adel {}", gen_href(rng, &d)),
                5 => "reopen".into(),
                6 => "list".into(),
                _ => gen_common_op(rng, &d),
            })
            .collect();
        out.push(format!("{} {} {}", dict_s(&d), ops.len(), ops.join(" ")));
    }
    out
}

// ------------------------------------------------------------------ C20.ret

const ROLES: [RetainedBlobRole; 6] = [
    RetainedBlobRole::ContractArtifact,
    RetainedBlobRole::ContractReceipt,
    RetainedBlobRole::Witness,
    RetainedBlobRole::ReadingPayload,
    RetainedBlobRole::ReadingEnvelope,
    RetainedBlobRole::ObserverArtifact,
];

#[derive(Clone, Debug)]
enum RCmd {
    Retain(usize, usize, usize),
    Desc(usize),
    Load(usize, usize),
    LoadH(usize, H32),
    Range(usize, usize, u64, u64, u64),
    Put(usize, usize),
}

struct RetCase {
    dict: Dict,
    coords: Vec<SemanticBlobCoordinate>,
    cmds: Vec<RCmd>,
}

fn ascii(b: Vec<u8>) -> Result<String, String> {
    String::from_utf8(b).map_err(|_| "coordinate string is not UTF-8".to_string())
}

fn parse_ret(t: &mut Toks) -> Result<RetCase, String> {
    let dict = parse_dict(t)?;
    let nc = t.num()?;
    let mut coords = Vec::new();
    for _ in 0..nc {
        let namespace = ascii(t.bytes()?)?;
        let schema_hash_hex = ascii(t.bytes()?)?;
        let artifact_hash_hex = ascii(t.bytes()?)?;
        let role = *ROLES.get(t.num()? as usize).ok_or("bad role")?;
        let semantic_digest = t.id()?;
        coords.push(SemanticBlobCoordinate { namespace, schema_hash_hex, artifact_hash_hex, role, semantic_digest });
    }
    let n = t.num()?;
    let mut cmds = Vec::new();
    let st = |t: &mut Toks| -> Result<usize, String> {
        let s = t.num()? as usize;
        if s < 2 {
            Ok(s)
        } else {
            Err(format!("bad store {s}"))
        }
    };
    let ci = |t: &mut Toks, n: usize| -> Result<usize, String> {
        let i = t.num()? as usize;
        if i < n {
            Ok(i)
        } else {
            Err(format!("bad coord index {i}"))
        }
    };
    for _ in 0..n {
        let c = match t.next()? {
            "retain" => {
                let s = st(t)?;
                let c = ci(t, coords.len())?;
                RCmd::Retain(s, c, blob_ix(t, &dict)?)
            }
            "desc" => RCmd::Desc(ci(t, coords.len())?),
            "load" => {
                let s = st(t)?;
                RCmd::Load(s, ci(t, coords.len())?)
            }
            "loadh" => {
                let s = st(t)?;
                RCmd::LoadH(s, href(t, &dict)?)
            }
            "range" => {
                let s = st(t)?;
                let c = ci(t, coords.len())?;
                RCmd::Range(s, c, t.num()?, t.num()?, t.num()?)
            }
            "put" => {
                let s = st(t)?;
                RCmd::Put(s, blob_ix(t, &dict)?)
            }
            o => return Err(format!("bad op {o}")),
        };
        cmds.push(c);
    }
    if !t.done() {
        return Err("trailing tokens".into());
    }
    Ok(RetCase { dict, coords, cmds })
}

fn rerr_s(e: &RetentionError) -> String {
    match e {
        RetentionError::MissingSemanticCoordinate { .. } => "missing-coord".into(),
        RetentionError::MissingBlob { content_hash } => format!("missing-blob {}", hex(content_hash.as_bytes())),
        RetentionError::RangeExceedsBudget { requested_bytes, max_bytes } => format!("budget {requested_bytes} {max_bytes}"),
        RetentionError::RangeOutOfBounds { offset, len, byte_len } => format!("oob {offset} {len} {byte_len}"),
        RetentionError::SemanticCoordinateConflict { existing_content_hash, new_content_hash, .. } => {
            format!("conflict {} {}", hex(existing_content_hash.as_bytes()), hex(new_content_hash.as_bytes()))
        }
    }
}

fn desc_s(c: &SemanticBlobCoordinate, d: &RetainedBlobDescriptor) -> String {
    format!("{} {} {}", hex(d.content_hash.as_bytes()), d.byte_len, b01(d.coordinate == *c))
}

fn imp_ret(t: &mut Toks) -> Result<String, String> {
    let c = parse_ret(t)?;
    let mut ix = RetainedBlobIndex::default();
    let mut stores = [MemoryTier::new(), MemoryTier::new()];
    let mut outs = Vec::new();
    for cmd in &c.cmds {
        outs.push(match cmd {
            RCmd::Retain(s, ci, bi) => match ix.retain(&mut stores[*s], c.coords[*ci].clone(), &c.dict[*bi].0) {
                Ok(d) => format!("ok {}", desc_s(&c.coords[*ci], &d)),
                Err(e) => rerr_s(&e),
            },
            RCmd::Desc(ci) => match ix.descriptor(&c.coords[*ci]) {
                None => "none".into(),
                Some(d) => format!("desc {}", desc_s(&c.coords[*ci], d)),
            },
            RCmd::Load(s, ci) => match ix.load(&stores[*s], &c.coords[*ci]) {
                Ok(r) => format!("ok {} {}", desc_s(&c.coords[*ci], &r.descriptor), hex(&r.bytes)),
                Err(e) => rerr_s(&e),
            },
            RCmd::LoadH(s, h) => match ix.load_by_hash(&stores[*s], bh(h)) {
                Ok(b) => format!("ok {}", hex(&b)),
                Err(e) => rerr_s(&e),
            },
            RCmd::Range(s, ci, off, len, max) => match ix.load_range(&stores[*s], &c.coords[*ci], *off, *len, *max) {
                Ok(r) => format!("ok {} {} {}", desc_s(&c.coords[*ci], &r.descriptor), r.offset, hex(&r.bytes)),
                Err(e) => rerr_s(&e),
            },
            RCmd::Put(s, bi) => format!("put {}", hex(stores[*s].put(&c.dict[*bi].0).as_bytes())),
        });
    }
    let mut fin: Vec<String> = c
        .coords
        .iter()
        .map(|co| match ix.descriptor(co) {
            None => "none".into(),
            Some(d) => format!("desc {}", desc_s(co, d)),
        })
        .collect();
    for s in &stores {
        let pins: String = c.dict.iter().map(|p| b01(s.is_pinned(&bh(&p.1)))).collect();
        fin.push(format!("stat {} {} {} {}", s.len(), s.byte_count(), s.pinned_count(), pins));
    }
    Ok(format!("{} ;; {}", outs.join(" ; "), fin.join(" ; ")))
}

fn oracle_ret(t: &mut Toks, _tier: Tier) -> Result<OracleOut, String> {
    let c = parse_ret(t)?;
    let mut o = OracleOut::default();
    let mut ix = RetainedBlobIndex::default();
    let mut stores = [MemoryTier::new(), MemoryTier::new()];
    // reference: coordinate index -> the bytes first retained there; per store: hashes it holds
    let mut named: BTreeMap<usize, Vec<u8>> = BTreeMap::new();
    let mut held: [BTreeSet<H32>; 2] = [BTreeSet::new(), BTreeSet::new()];
    let fail = |o: &mut OracleOut, k: &str, w: String| {
        if !o.fails.iter().any(|(kk, _)| kk == k) {
            o.fails.push((k.to_string(), w));
        }
    };
    // two coordinate indices may spell the same coordinate: canonical representative
    let canon = |i: usize| -> usize { (0..=i).find(|j| c.coords[*j] == c.coords[i]).unwrap_or(i) };
    for (n, cmd) in c.cmds.iter().enumerate() {
        let at = format!("op {n}");
        match cmd {
            RCmd::Retain(s, ci, bi) => {
                let co = &c.coords[*ci];
                let b = &c.dict[*bi].0;
                let k = canon(*ci);
                let r = ix.retain(&mut stores[*s], co.clone(), b);
                match named.get(&k) {
                    Some(first) if first != b => {
                        o.tags.push("retain-conflict".into());
                        match r {
                            Ok(_) => fail(&mut o, "C20.retention-alias", format!("{at}: a coordinate that names other bytes accepted different content")),
                            Err(RetentionError::SemanticCoordinateConflict { existing_content_hash, new_content_hash, coordinate }) => {
                                if *existing_content_hash.as_bytes() != b3(first) || *new_content_hash.as_bytes() != b3(b) || *coordinate != *co {
                                    fail(&mut o, "C20.retention-conflict-wrong-fields", at.clone());
                                }
                            }
                            Err(e) => fail(&mut o, "C20.retention-untyped-refusal", format!("{at}: {}", rerr_s(&e))),
                        }
                    }
                    prior => {
                        o.tags.push(if prior.is_some() { "retain-idempotent".into() } else { "retain-new".into() });
                        if prior.is_some() && !held[*s].contains(&b3(b)) {
                            o.tags.push("retain-restores-missing-blob".into());
                        }
                        match r {
                            Ok(d) => {
                                if *d.content_hash.as_bytes() != b3(b) || d.byte_len != b.len() as u64 || d.coordinate != *co {
                                    fail(&mut o, "C20.retention-descriptor-wrong", at.clone());
                                }
                            }
                            Err(e) => fail(&mut o, "C20.retention-refused-valid", format!("{at}: {}", rerr_s(&e))),
                        }
                        named.entry(k).or_insert_with(|| b.clone());
                        held[*s].insert(b3(b));
                        if !stores[*s].is_pinned(&bh(&b3(b))) {
                            fail(&mut o, "C20.retention-not-pinned", at.clone());
                        }
                    }
                }
            }
            RCmd::Put(s, bi) => {
                stores[*s].put(&c.dict[*bi].0);
                held[*s].insert(b3(&c.dict[*bi].0));
            }
            RCmd::Desc(_) => {}
            RCmd::Load(s, ci) => {
                let r = ix.load(&stores[*s], &c.coords[*ci]);
                check_load(&mut o, &fail, &at, r.map(|x| (x.descriptor, x.bytes.to_vec())), &c.coords[*ci], named.get(&canon(*ci)), &held[*s]);
            }
            RCmd::LoadH(s, h) => match ix.load_by_hash(&stores[*s], bh(h)) {
                Ok(b) => {
                    if b3(&b) != *h || !held[*s].contains(h) {
                        fail(&mut o, "C20.get-returned-wrong-bytes.ret", at.clone());
                    }
                }
                Err(RetentionError::MissingBlob { content_hash }) => {
                    if content_hash.as_bytes() != h || held[*s].contains(h) {
                        fail(&mut o, "C20.retention-wrong-obstruction", format!("{at}: MissingBlob for a held blob"));
                    }
                    o.tags.push("missing-blob".into());
                }
                Err(e) => fail(&mut o, "C20.retention-wrong-obstruction", format!("{at}: {}", rerr_s(&e))),
            },
            RCmd::Range(s, ci, off, len, max) => {
                let co = &c.coords[*ci];
                let r = ix.load_range(&stores[*s], co, *off, *len, *max);
                let first = named.get(&canon(*ci));
                let present = first.map(|b| held[*s].contains(&b3(b))).unwrap_or(false);
                if !present {
                    check_load(&mut o, &fail, &at, r.map(|x| (x.descriptor, x.bytes.to_vec())), co, first, &held[*s]);
                } else if let Some(b) = first {
                    let blen = b.len() as u64;
                    let want: Result<Vec<u8>, String> = if len > max {
                        Err(format!("budget {len} {max}"))
                    } else {
                        match off.checked_add(*len) {
                            Some(end) if end <= blen => Ok(b[*off as usize..end as usize].to_vec()),
                            _ => Err(format!("oob {off} {len} {blen}")),
                        }
                    };
                    let got = match &r {
                        Ok(x) => {
                            if x.offset != *off || x.descriptor.coordinate != *co || *x.descriptor.content_hash.as_bytes() != b3(b) {
                                fail(&mut o, "C20.retention-descriptor-wrong", at.clone());
                            }
                            Ok(x.bytes.to_vec())
                        }
                        Err(e) => Err(rerr_s(e)),
                    };
                    if got != want {
                        fail(&mut o, "C20.retention-range-wrong", format!("{at}: load_range gave {got:?}, expected {want:?}"));
                    }
                    o.tags.push(match &want {
                        Ok(_) => "range-ok".into(),
                        Err(e) if e.starts_with("budget") => "range-budget".into(),
                        Err(_) => "range-oob".into(),
                    });
                }
            }
        }
        // descriptors never change once set, and never appear for an un-retained coordinate
        for (i, co) in c.coords.iter().enumerate() {
            match (ix.descriptor(co), named.get(&canon(i))) {
                (None, None) => {}
                (Some(d), Some(b)) if *d.content_hash.as_bytes() == b3(b) && d.byte_len == b.len() as u64 && d.coordinate == *co => {}
                _ => fail(&mut o, "C20.retention-descriptor-changed", format!("{at}: descriptor of coordinate {i} is not the first retained content")),
            }
        }
    }
    // distinct coordinates never alias: every coordinate answers with its own bytes on both stores
    for (i, co) in c.coords.iter().enumerate() {
        for s in 0..2 {
            let r = ix.load(&stores[s], co);
            check_load(&mut o, &fail, "final", r.map(|x| (x.descriptor, x.bytes.to_vec())), co, named.get(&canon(i)), &held[s]);
        }
    }
    let distinct_named: BTreeSet<&Vec<u8>> = named.values().collect();
    if distinct_named.len() >= 2 {
        o.tags.push("distinct-content-coords".into());
    }
    o.tags.sort();
    o.tags.dedup();
    o.nontrivial = !named.is_empty() && c.cmds.len() >= 2;
    Ok(o)
}

#[allow(clippy::too_many_arguments)]
fn check_load(
    o: &mut OracleOut,
    fail: &dyn Fn(&mut OracleOut, &str, String),
    at: &str,
    r: Result<(RetainedBlobDescriptor, Vec<u8>), RetentionError>,
    co: &SemanticBlobCoordinate,
    first: Option<&Vec<u8>>,
    held: &BTreeSet<H32>,
) {
    match (first, r) {
        (None, Err(RetentionError::MissingSemanticCoordinate { coordinate })) => {
            if coordinate != *co {
                fail(o, "C20.retention-wrong-obstruction", format!("{at}: obstruction names another coordinate"));
            }
            o.tags.push("missing-coord".into());
        }
        (None, Ok(_)) => fail(o, "C20.retention-alias", format!("{at}: a coordinate that was never retained answered with bytes")),
        (Some(b), Ok((d, bytes))) => {
            if &bytes != b || *d.content_hash.as_bytes() != b3(b) || d.coordinate != *co {
                fail(o, "C20.retention-alias", format!("{at}: coordinate answered with bytes other than the ones retained under it"));
            }
            if !held.contains(&b3(b)) {
                fail(o, "C20.retention-wrong-obstruction", format!("{at}: bytes served from a store that never held them"));
            }
            o.tags.push("load-ok".into());
        }
        (Some(b), Err(RetentionError::MissingBlob { content_hash })) => {
            if *content_hash.as_bytes() != b3(b) || held.contains(&b3(b)) {
                fail(o, "C20.retention-wrong-obstruction", format!("{at}: MissingBlob although the store holds the content"));
            }
            o.tags.push("missing-blob".into());
        }
        (_, Err(e)) => fail(o, "C20.retention-wrong-obstruction", format!("{at}: {}", rerr_s(&e))),
    }
}

fn gen_ret(rng: &mut Rng, tier: Tier) -> Vec<String> {
    let n = if tier == Tier::Thorough { 3000 } else { 300 };
    let mut out = Vec::new();
    let nss = ["contract:a", "contract:b"];
    let schemas = ["00", "01"];
    let arts = ["aa", "ab"];
    for case in 0..n {
        let d = gen_blobs(rng);
        let nb = d.len() as u64;
        // coordinates differing in exactly one field from a base coordinate, plus an exact repeat
        let base = (rng.below(2) as usize, rng.below(2) as usize, rng.below(2) as usize, rng.below(6), rng.below(3));
        let nc = rng.range(2, 5);
        let mut coords = vec![base];
        for _ in 1..nc {
            let mut c = *rng.pick(&coords);
            match rng.below(6) {
                0 => c.0 ^= 1,
                1 => c.1 ^= 1,
                2 => c.2 ^= 1,
                3 => c.3 = (c.3 + 1 + rng.below(5)) % 6,
                4 => c.4 = (c.4 + 1 + rng.below(2)) % 3,
                _ => {}
            }
            coords.push(c);
        }
        let mut line = format!("{} {}", dict_s(&d), coords.len());
        for c in &coords {
            line.push_str(&format!(
                " {} {} {} {} {}",
                hex(nss[c.0].as_bytes()),
                hex(schemas[c.1].as_bytes()),
                hex(arts[c.2].as_bytes()),
                c.3,
                hex(&small_id(c.4))
            ));
        }
        let nops = if case % 19 == 0 { rng.range(20, 40) } else { rng.range(2, 12) };
        let ncs = coords.len() as u64;
        let ops: Vec<String> = (0..nops)
            .map(|_| {
                let s = if rng.chance(3, 4) { 0 } else { 1 };
                match rng.below(12) {
                    0..=4 => format!("retain {s} {} {}", rng.below(ncs), rng.below(nb)),
                    5 => format!("desc {}", rng.below(ncs)),
                    6 | 7 => format!("load {} {}", rng.below(2), rng.below(ncs)),
                    8 => format!("loadh {} {}", rng.below(2), gen_href(rng, &d)),
                    9 | 10 => {
                        let big = [u64::MAX, u64::MAX - 1, 1 << 63, 1 << 32];
                        // half of the ranges end exactly at (or one past) the end of some dictionary blob
                        let l = rng.pick(&d).0.len() as u64;
                        let (off, len) = if rng.chance(1, 2) {
                            let off = rng.below(l + 1);
                            (off, l - off + u64::from(rng.chance(1, 4)))
                        } else {
                            (
                                if rng.chance(1, 8) { *rng.pick(&big) } else { rng.below(10) },
                                if rng.chance(1, 8) { *rng.pick(&big) } else { rng.below(10) },
                            )
                        };
                        let max = match rng.below(6) {
                            0 => *rng.pick(&big),
                            1 => len.saturating_sub(1),
                            2 => len,
                            _ => rng.below(40),
                        };
                        format!("range {} {} {off} {len} {max}", rng.below(2), rng.below(ncs))
                    }
                    _ => format!("put {} {}", rng.below(2), rng.below(nb)),
                }
            })
            .collect();
        line.push_str(&format!(" {} {}", ops.len(), ops.join(" ")));
        out.push(line);
    }
    out
}

// ------------------------------------------------------------------ C20.wsc
// Retained-evidence records -> WSC envelope -> FilesystemWscStore (envelope file + commit marker,
// both attacked) -> re-import.  Line: `nsets (<envelope id|-> nm material* nr reading*)* nops op*`.

use warp_core::causal_wal::{EvidenceMaterialPosture, ReadingRefRecord, RetainedMaterialKind, RetainedMaterialRecord};
use warp_core::wsc::{
    retention_records_from_wsc_envelope, retention_records_from_wsc_store, retention_records_to_wsc_envelope, FilesystemWscStore,
    WscRetentionRecords, WscStoreEnvelope, WscStoreObstruction, WscStoreObstructionKind, WscStorePort,
};

const KINDS: [RetainedMaterialKind; 7] = [
    RetainedMaterialKind::SubmissionPayload,
    RetainedMaterialKind::TickReceipt,
    RetainedMaterialKind::RuntimeStateDelta,
    RetainedMaterialKind::RuntimeControl,
    RetainedMaterialKind::ReadingPayload,
    RetainedMaterialKind::ReadingEnvelope,
    RetainedMaterialKind::Diagnostic,
];
const POSTURES: [EvidenceMaterialPosture; 6] = [
    EvidenceMaterialPosture::Present,
    EvidenceMaterialPosture::RedactedByPolicy,
    EvidenceMaterialPosture::EncryptedKeyUnavailable,
    EvidenceMaterialPosture::Missing,
    EvidenceMaterialPosture::Corrupt,
    EvidenceMaterialPosture::Obstructed,
];
const ENV_HEADER_LEN: u64 = 124;
const MARKER_LEN: u64 = 188;

fn kind_code(k: RetainedMaterialKind) -> usize {
    KINDS.iter().position(|x| *x == k).map_or(0, |p| p + 1)
}
fn posture_code(k: EvidenceMaterialPosture) -> usize {
    POSTURES.iter().position(|x| *x == k).map_or(0, |p| p + 1)
}

struct WSet {
    id: Option<H32>,
    ms: Vec<RetainedMaterialRecord>,
    rs: Vec<ReadingRefRecord>,
}

#[derive(Clone, Debug)]
enum WCmd {
    Write(usize),
    Stage(usize),
    Commit(usize),
    Read(usize),
    DelEnv(usize),
    DelMark(usize),
    FlipEnv(usize, u64),
    FlipMark(usize, u64),
    PlantEnv(usize, usize),
    List,
    Import,
    Reopen,
}

struct WCase {
    sets: Vec<WSet>,
    cmds: Vec<WCmd>,
}

fn parse_wsc(t: &mut Toks) -> Result<WCase, String> {
    let ns = t.num()?;
    let mut sets = Vec::new();
    for _ in 0..ns {
        let idt = t.next()?;
        let id = if idt == "-" { None } else { Some(crate::util::id32(idt)?) };
        let nm = t.num()?;
        let mut ms = Vec::new();
        for _ in 0..nm {
            let material_digest = t.id()?;
            let semantic_coordinate_digest = t.id()?;
            let kind = *KINDS.get((t.num()? as usize).wrapping_sub(1)).ok_or("bad kind")?;
            let posture = *POSTURES.get((t.num()? as usize).wrapping_sub(1)).ok_or("bad posture")?;
            ms.push(RetainedMaterialRecord { material_digest, semantic_coordinate_digest, kind, posture });
        }
        let nr = t.num()?;
        let mut rs = Vec::new();
        for _ in 0..nr {
            let reading_id = t.id()?;
            let semantic_coordinate_digest = t.id()?;
            let payload_digest = t.id()?;
            let envelope_digest = t.id()?;
            let posture = *POSTURES.get((t.num()? as usize).wrapping_sub(1)).ok_or("bad posture")?;
            rs.push(ReadingRefRecord { reading_id, semantic_coordinate_digest, payload_digest, envelope_digest, posture });
        }
        sets.push(WSet { id, ms, rs });
    }
    let n = t.num()?;
    let mut cmds = Vec::new();
    let six = |t: &mut Toks, n: usize| -> Result<usize, String> {
        let i = t.num()? as usize;
        if i < n {
            Ok(i)
        } else {
            Err(format!("bad set index {i}"))
        }
    };
    for _ in 0..n {
        let c = match t.next()? {
            "write" => WCmd::Write(six(t, sets.len())?),
            "stage" => WCmd::Stage(six(t, sets.len())?),
            "commit" => WCmd::Commit(six(t, sets.len())?),
            "read" => WCmd::Read(six(t, sets.len())?),
            "delenv" => WCmd::DelEnv(six(t, sets.len())?),
            "delmark" => WCmd::DelMark(six(t, sets.len())?),
            "flipenv" => {
                let i = six(t, sets.len())?;
                WCmd::FlipEnv(i, t.num()?)
            }
            "flipmark" => {
                let i = six(t, sets.len())?;
                let k = t.num()?;
                if k >= MARKER_LEN {
                    return Err("marker offset out of range".into());
                }
                WCmd::FlipMark(i, k)
            }
            "plantenv" => {
                let i = six(t, sets.len())?;
                WCmd::PlantEnv(i, six(t, sets.len())?)
            }
            "list" => WCmd::List,
            "import" => WCmd::Import,
            "reopen" => WCmd::Reopen,
            o => return Err(format!("bad op {o}")),
        };
        cmds.push(c);
    }
    if !t.done() {
        return Err("trailing tokens".into());
    }
    Ok(WCase { sets, cmds })
}

fn res_class(e: &WscStoreObstruction) -> &'static str {
    match e.kind {
        WscStoreObstructionKind::MissingEnvelope => "missing",
        WscStoreObstructionKind::IncompleteEnvelopeWrite => "incomplete",
        WscStoreObstructionKind::FilesystemIo => "io",
        _ => "obstructed",
    }
}

fn recs_s(r: &WscRetentionRecords) -> String {
    let mut s = format!("m {}", r.materials.len());
    for m in &r.materials {
        s.push_str(&format!(" {} {} {} {}", hex(&m.material_digest), hex(&m.semantic_coordinate_digest), kind_code(m.kind), posture_code(m.posture)));
    }
    s.push_str(&format!(" r {}", r.readings.len()));
    for x in &r.readings {
        s.push_str(&format!(
            " {} {} {} {} {}",
            hex(&x.reading_id),
            hex(&x.semantic_coordinate_digest),
            hex(&x.payload_digest),
            hex(&x.envelope_digest),
            posture_code(x.posture)
        ));
    }
    s
}

/// Flip bit 0 of byte `k` of the file (k >= header length addresses the LAST byte); no-op if absent.
fn flip_file(path: &Path, k: u64, header_len: u64) -> Result<(), String> {
    let mut b = match std::fs::read(path) {
        Ok(b) => b,
        Err(e) if e.kind() == std::io::ErrorKind::NotFound => return Ok(()),
        Err(e) => return Err(format!("adv read: {e}")),
    };
    if b.is_empty() {
        return Ok(());
    }
    let ix = if k >= header_len { b.len() - 1 } else { (k as usize).min(b.len() - 1) };
    b[ix] ^= 1;
    std::fs::write(path, b).map_err(|e| format!("adv write: {e}"))
}

fn rm_file(path: &Path) -> Result<(), String> {
    match std::fs::remove_file(path) {
        Ok(()) => Ok(()),
        Err(e) if e.kind() == std::io::ErrorKind::NotFound => Ok(()),
        Err(e) => Err(format!("adv delete: {e}")),
    }
}

fn wopen(root: &Path) -> Result<FilesystemWscStore, String> {
    FilesystemWscStore::open(root).map_err(|e| format!("open: {}", res_class(&e)))
}

fn list_w(s: &FilesystemWscStore) -> String {
    let v = s.list_envelopes();
    let mut o = format!("list {}", v.len());
    for id in v {
        o.push_str(&format!(" {}", hex(&id.as_hash())));
    }
    o
}

fn read_s(s: &FilesystemWscStore, env: &WscStoreEnvelope) -> String {
    match s.read_envelope(env.id()) {
        Ok(e) if e == *env => format!("ok {}", hex(&e.id().as_hash())),
        Ok(_) => "ok-but-different-envelope".into(),
        Err(e) => res_class(&e).into(),
    }
}

fn imp_wsc(t: &mut Toks) -> Result<String, String> {
    let c = parse_wsc(t)?;
    let mut heads = Vec::new();
    let mut envs: Vec<Option<WscStoreEnvelope>> = Vec::new();
    for x in &c.sets {
        match retention_records_to_wsc_envelope(&x.ms, &x.rs) {
            Ok(env) => {
                if x.id != Some(env.id().as_hash()) {
                    return Err("envelope id annotation does not match the exported envelope".into());
                }
                let re = match retention_records_from_wsc_envelope(&env) {
                    Ok(r) => recs_s(&r),
                    Err(e) => format!("reimport-{}", res_class(&e)),
                };
                heads.push(format!("ok {} {} {}", hex(&env.id().as_hash()), hex(env.basis_digest()), re));
                envs.push(Some(env));
            }
            Err(e) if e.kind == WscStoreObstructionKind::DuplicateEnvelopeMismatch => {
                if x.id.is_some() {
                    return Err("envelope id annotation present but the export is refused".into());
                }
                heads.push("conflict".into());
                envs.push(None);
            }
            Err(e) => {
                heads.push(format!("export-{}", res_class(&e)));
                envs.push(None);
            }
        }
    }
    let scratch = Scratch::new()?;
    let root = scratch.0.join("wsc");
    let mut s = wopen(&root)?;
    let mut outs: Vec<String> = Vec::new();
    let r2s = |r: Result<(), WscStoreObstruction>| -> String {
        match r {
            Ok(()) => "ok".into(),
            Err(e) => res_class(&e).into(),
        }
    };
    for cmd in &c.cmds {
        let o = match cmd {
            WCmd::Write(i) | WCmd::Stage(i) | WCmd::Commit(i) | WCmd::Read(i) | WCmd::DelEnv(i) | WCmd::DelMark(i) | WCmd::FlipEnv(i, _) | WCmd::FlipMark(i, _)
                if envs[*i].is_none() =>
            {
                "no-envelope".to_string()
            }
            WCmd::PlantEnv(i, j) if envs[*i].is_none() || envs[*j].is_none() => "no-envelope".to_string(),
            WCmd::Write(i) => r2s(s.write_envelope(envs[*i].clone().ok_or("env")?).map(|_| ())),
            WCmd::Stage(i) => r2s(s.stage_envelope_without_commit_marker(envs[*i].clone().ok_or("env")?).map(|_| ())),
            WCmd::Commit(i) => r2s(s.commit_staged_envelope(envs[*i].as_ref().ok_or("env")?.id()).map(|_| ())),
            WCmd::Read(i) => read_s(&s, envs[*i].as_ref().ok_or("env")?),
            WCmd::DelEnv(i) => {
                rm_file(&s.envelope_path(envs[*i].as_ref().ok_or("env")?.id()))?;
                "adv".into()
            }
            WCmd::DelMark(i) => {
                rm_file(&s.commit_marker_path(envs[*i].as_ref().ok_or("env")?.id()))?;
                "adv".into()
            }
            WCmd::FlipEnv(i, k) => {
                flip_file(&s.envelope_path(envs[*i].as_ref().ok_or("env")?.id()), *k, ENV_HEADER_LEN)?;
                "adv".into()
            }
            WCmd::FlipMark(i, k) => {
                flip_file(&s.commit_marker_path(envs[*i].as_ref().ok_or("env")?.id()), *k, MARKER_LEN)?;
                "adv".into()
            }
            WCmd::PlantEnv(i, j) => {
                let bytes = envs[*j].as_ref().ok_or("env")?.encode();
                std::fs::write(s.envelope_path(envs[*i].as_ref().ok_or("env")?.id()), bytes).map_err(|e| format!("adv plant: {e}"))?;
                "adv".into()
            }
            WCmd::List => list_w(&s),
            WCmd::Import => match retention_records_from_wsc_store(&s) {
                Ok(r) => format!("records {}", recs_s(&r)),
                Err(e) if e.kind == WscStoreObstructionKind::DuplicateEnvelopeMismatch && matches!(e.subject, warp_core::wsc::WscStoreSubject::Envelope { envelope_id } if !envs.iter().flatten().any(|x| x.id() == envelope_id)) => {
                    // the subject is a record identity, not an envelope of this case: cross-envelope record conflict
                    "conflict".into()
                }
                Err(e) => format!("blocked {}", res_class(&e)),
            },
            WCmd::Reopen => {
                s = wopen(&root)?;
                "reopened".into()
            }
        };
        outs.push(o);
    }
    let fin: Vec<String> = envs
        .iter()
        .map(|e| match e {
            Some(env) => read_s(&s, env),
            None => "no-envelope".into(),
        })
        .collect();
    Ok(format!("{} ;; {} ;; {} ; {}", heads.join(" ; "), outs.join(" ; "), list_w(&s), fin.join(" ; ")))
}

/// Reference canonicalisation, written independently of the code: sorted, duplicate-free, `None`
/// when two different records share an identity.
fn ref_canon<T: Clone + PartialEq, K: Ord, I: Ord + Clone>(xs: &[T], key: impl Fn(&T) -> K, ident: impl Fn(&T) -> I) -> Option<Vec<T>> {
    for a in xs {
        for b in xs {
            if ident(a) == ident(b) && a != b {
                return None;
            }
        }
    }
    let mut v: Vec<T> = Vec::new();
    for x in xs {
        if !v.contains(x) {
            v.push(x.clone());
        }
    }
    v.sort_by_key(|x| key(x));
    Some(v)
}

fn ref_records(ms: &[RetainedMaterialRecord], rs: &[ReadingRefRecord]) -> Option<WscRetentionRecords> {
    let materials = ref_canon(ms, |m| (m.material_digest, m.semantic_coordinate_digest, kind_code(m.kind), posture_code(m.posture)), |m| m.material_digest)?;
    let readings = ref_canon(
        rs,
        |r| (r.reading_id, r.semantic_coordinate_digest, r.payload_digest, r.envelope_digest, posture_code(r.posture)),
        |r| r.reading_id,
    )?;
    Some(WscRetentionRecords { materials, readings })
}

fn oracle_wsc(t: &mut Toks, tier: Tier) -> Result<OracleOut, String> {
    let c = parse_wsc(t)?;
    let mut o = OracleOut::default();
    let fail = |o: &mut OracleOut, k: &str, w: String| {
        if !o.fails.iter().any(|(kk, _)| kk == k) {
            o.fails.push((k.to_string(), w));
        }
    };
    // ---- export / re-import of every record set
    let mut envs: Vec<Option<WscStoreEnvelope>> = Vec::new();
    for (i, x) in c.sets.iter().enumerate() {
        let want = ref_records(&x.ms, &x.rs);
        match (retention_records_to_wsc_envelope(&x.ms, &x.rs), &want) {
            (Ok(env), Some(w)) => {
                match retention_records_from_wsc_envelope(&env) {
                    Ok(r) if r == *w => {}
                    Ok(_) => fail(&mut o, "C20.wsc-reimport-differs", format!("set {i}: re-imported records differ from the exported set")),
                    Err(e) => fail(&mut o, "C20.wsc-reimport-refused", format!("set {i}: {:?}", e.kind)),
                }
                // order and duplication of the input must not matter
                let mut ms2 = x.ms.clone();
                ms2.reverse();
                ms2.extend(x.ms.iter().copied());
                let mut rs2 = x.rs.clone();
                rs2.reverse();
                match retention_records_to_wsc_envelope(&ms2, &rs2) {
                    Ok(e2) if e2 == env => {}
                    _ => fail(&mut o, "C20.wsc-export-order-dependent", format!("set {i}: reversed/duplicated input exported a different envelope")),
                }
                // encode / decode and byte-level corruption of the encoding
                let enc = env.encode();
                match WscStoreEnvelope::decode(&enc) {
                    Ok(d) if d == env => {}
                    _ => fail(&mut o, "C20.wsc-envelope-roundtrip", format!("set {i}: decode(encode(e)) != e")),
                }
                let positions: Vec<usize> = if tier == Tier::Thorough {
                    (0..enc.len()).collect()
                } else {
                    let mut p: Vec<usize> = (0..ENV_HEADER_LEN as usize).step_by(3).collect();
                    p.extend([10, 11, 12, 44, 76, 108, 116, 123, 124, enc.len() / 2, enc.len() - 1]);
                    p
                };
                for p in positions {
                    let mut bad = enc.clone();
                    bad[p] ^= 1 << (p % 8);
                    if let Ok(d) = WscStoreEnvelope::decode(&bad) {
                        if d.id() == env.id() {
                            fail(&mut o, "C20.wsc-corrupt-envelope-accepted", format!("set {i}: flipping byte {p} still decodes to the same envelope id"));
                        }
                    }
                }
                if WscStoreEnvelope::decode(&enc[..enc.len() - 1]).is_ok() || WscStoreEnvelope::decode(&[enc.clone(), vec![0]].concat()).is_ok() {
                    fail(&mut o, "C20.wsc-corrupt-envelope-accepted", format!("set {i}: truncated/extended encoding accepted"));
                }
                o.tags.push("export-ok".into());
                envs.push(Some(env));
            }
            (Err(e), None) => {
                if e.kind != WscStoreObstructionKind::DuplicateEnvelopeMismatch {
                    fail(&mut o, "C20.wsc-untyped-conflict", format!("set {i}: {:?}", e.kind));
                }
                o.tags.push("export-conflict".into());
                envs.push(None);
            }
            (Ok(_), None) => {
                fail(&mut o, "C20.wsc-alias-exported", format!("set {i}: two different records under one identity were exported"));
                envs.push(None);
            }
            (Err(e), Some(_)) => {
                fail(&mut o, "C20.wsc-export-refused-valid", format!("set {i}: {:?}", e.kind));
                envs.push(None);
            }
        }
    }
    // ---- the store under attack: reference = actual bytes of both files per envelope id
    let scratch = Scratch::new()?;
    let root = scratch.0.join("wsc");
    let mut s = wopen(&root)?;
    let mut committed_once = false;
    // marker bytes as first published by the store itself, per envelope id
    let mut pristine_marker: BTreeMap<H32, Vec<u8>> = BTreeMap::new();
    let check_all = |o: &mut OracleOut, s: &FilesystemWscStore, pristine_marker: &BTreeMap<H32, Vec<u8>>, at: &str| {
        use WscStoreObstructionKind as K;
        for env in envs.iter().flatten() {
            let ef = std::fs::read(s.envelope_path(env.id())).ok();
            let mf = std::fs::read(s.commit_marker_path(env.id())).ok();
            let pristine_env = ef.as_deref() == Some(env.encode().as_slice());
            let pristine_mark = mf.is_some() && mf.as_ref() == pristine_marker.get(&env.id().as_hash());
            let r = s.read_envelope(env.id());
            // corrupt material is answered with the obstruction family of the corrupt file
            if let (Err(e), Some(_)) = (&r, &ef) {
                if !pristine_env && !matches!(e.kind, K::InvalidEnvelope | K::InvalidWsc | K::DigestMismatch | K::DuplicateEnvelopeMismatch) {
                    fail(o, "C20.wsc-wrong-obstruction", format!("{at}: corrupted envelope file reported as {:?}", e.kind));
                }
            }
            if let (Err(e), Some(_)) = (&r, &mf) {
                if (pristine_env || ef.is_none()) && !pristine_mark && !matches!(e.kind, K::InvalidCommitMarker | K::CommitMarkerMismatch) {
                    fail(o, "C20.wsc-wrong-obstruction", format!("{at}: corrupted commit marker reported as {:?}", e.kind));
                }
            }
            if pristine_env && pristine_mark && r.is_err() {
                fail(o, "C20.wsc-intact-unreadable", format!("{at}: both files intact but read_envelope is obstructed"));
            }
            match (&r, &ef, &mf) {
                (Ok(e), _, _) => {
                    if e != env || !pristine_env || !pristine_mark {
                        fail(o, "C20.wsc-read-not-intact", format!("{at}: read_envelope returned Ok although the stored material is not the committed envelope"));
                    }
                }
                (Err(e), None, None) => {
                    if e.kind != WscStoreObstructionKind::MissingEnvelope {
                        fail(o, "C20.wsc-wrong-obstruction", format!("{at}: both files absent but {:?}", e.kind));
                    }
                }
                (Err(e), Some(_), None) | (Err(e), None, Some(_)) => {
                    if e.kind == WscStoreObstructionKind::MissingEnvelope || e.kind == WscStoreObstructionKind::FilesystemIo {
                        fail(o, "C20.wsc-wrong-obstruction", format!("{at}: half-written envelope reported as {:?}", e.kind));
                    }
                }
                (Err(e), Some(_), Some(_)) => {
                    if matches!(e.kind, WscStoreObstructionKind::MissingEnvelope | WscStoreObstructionKind::FilesystemIo) {
                        fail(o, "C20.wsc-wrong-obstruction", format!("{at}: {:?}", e.kind));
                    }
                }
            }
        }
    };
    for (n, cmd) in c.cmds.iter().enumerate() {
        let at = format!("op {n}");
        let env_of = |i: &usize| envs[*i].as_ref();
        match cmd {
            WCmd::Write(i) => {
                if let Some(env) = env_of(i) {
                    let r = s.write_envelope(env.clone());
                    if r.is_ok() {
                        committed_once = true;
                        if let Ok(mb) = std::fs::read(s.commit_marker_path(env.id())) {
                            pristine_marker.entry(env.id().as_hash()).or_insert(mb);
                        }
                        match s.read_envelope(env.id()) {
                            Ok(e) if e == *env => {}
                            _ => fail(&mut o, "C20.wsc-acknowledged-write-unreadable", format!("{at}: write_envelope returned Ok but read_envelope does not return it")),
                        }
                        let again = s.write_envelope(env.clone());
                        if again != r {
                            fail(&mut o, "C20.wsc-write-not-idempotent", at.clone());
                        }
                    }
                    o.tags.push(if r.is_ok() { "write-ok".into() } else { "write-obstructed".into() });
                }
            }
            WCmd::Stage(i) => {
                if let Some(env) = env_of(i) {
                    let had_marker = s.commit_marker_path(env.id()).exists();
                    if s.stage_envelope_without_commit_marker(env.clone()).is_ok() && !had_marker {
                        if s.read_envelope(env.id()).is_ok() {
                            fail(&mut o, "C20.wsc-staged-visible", format!("{at}: a staged, uncommitted envelope is readable"));
                        }
                        o.tags.push("staged-invisible".into());
                    }
                }
            }
            WCmd::Commit(i) => {
                if let Some(env) = env_of(i) {
                    if s.commit_staged_envelope(env.id()).is_ok() {
                        committed_once = true;
                        if let Ok(mb) = std::fs::read(s.commit_marker_path(env.id())) {
                            pristine_marker.entry(env.id().as_hash()).or_insert(mb);
                        }
                        match s.read_envelope(env.id()) {
                            Ok(e) if e == *env => {}
                            _ => fail(&mut o, "C20.wsc-acknowledged-write-unreadable", format!("{at}: commit_staged_envelope returned Ok but read_envelope does not return the envelope")),
                        }
                    }
                }
            }
            WCmd::Read(_) | WCmd::List => {}
            WCmd::DelEnv(i) => {
                if let Some(env) = env_of(i) {
                    rm_file(&s.envelope_path(env.id()))?;
                    o.tags.push("adv-del-env".into());
                }
            }
            WCmd::DelMark(i) => {
                if let Some(env) = env_of(i) {
                    rm_file(&s.commit_marker_path(env.id()))?;
                    o.tags.push("adv-del-marker".into());
                }
            }
            WCmd::FlipEnv(i, k) => {
                if let Some(env) = env_of(i) {
                    flip_file(&s.envelope_path(env.id()), *k, ENV_HEADER_LEN)?;
                    o.tags.push("adv-flip-env".into());
                }
            }
            WCmd::FlipMark(i, k) => {
                if let Some(env) = env_of(i) {
                    flip_file(&s.commit_marker_path(env.id()), *k, MARKER_LEN)?;
                    o.tags.push("adv-flip-marker".into());
                }
            }
            WCmd::PlantEnv(i, j) => {
                if let (Some(a), Some(b)) = (env_of(i), env_of(j)) {
                    std::fs::write(s.envelope_path(a.id()), b.encode()).map_err(|e| format!("adv plant: {e}"))?;
                    o.tags.push("adv-plant-env".into());
                }
            }
            WCmd::Import => {
                // what is readable right now, pooled and canonicalised by the reference
                let ids = s.list_envelopes();
                let mut blocked = false;
                let mut ms = Vec::new();
                let mut rs = Vec::new();
                for id in &ids {
                    match envs.iter().flatten().find(|e| e.id() == *id) {
                        Some(env) if s.read_envelope(*id).is_ok() => {
                            if let Some(x) = c.sets.iter().zip(envs.iter()).find(|(_, e)| e.as_ref() == Some(env)) {
                                ms.extend(x.0.ms.iter().copied());
                                rs.extend(x.0.rs.iter().copied());
                            }
                        }
                        _ => blocked = true,
                    }
                }
                let got = retention_records_from_wsc_store(&s);
                if blocked {
                    if got.is_ok() {
                        fail(&mut o, "C20.wsc-import-ignores-obstruction", format!("{at}: import succeeded although a listed envelope is unreadable"));
                    }
                    o.tags.push("import-blocked".into());
                } else {
                    match (got, ref_records(&ms, &rs)) {
                        (Ok(g), Some(w)) => {
                            if g != w {
                                fail(&mut o, "C20.wsc-reimport-differs", format!("{at}: store import differs from the union of the committed sets"));
                            }
                            o.tags.push("import-ok".into());
                        }
                        (Err(e), None) => {
                            if e.kind != WscStoreObstructionKind::DuplicateEnvelopeMismatch {
                                fail(&mut o, "C20.wsc-untyped-conflict", format!("{at}: {:?}", e.kind));
                            }
                            o.tags.push("import-conflict".into());
                        }
                        (Ok(_), None) => fail(&mut o, "C20.wsc-alias-exported", format!("{at}: conflicting records across envelopes were merged")),
                        (Err(e), Some(_)) => fail(&mut o, "C20.wsc-export-refused-valid", format!("{at}: import refused: {:?}", e.kind)),
                    }
                }
            }
            WCmd::Reopen => s = wopen(&root)?,
        }
        check_all(&mut o, &s, &pristine_marker, &at);
    }
    // ---- withhold / corrupt every committed envelope in turn
    for env in envs.iter().flatten() {
        let (ep, mp) = (s.envelope_path(env.id()), s.commit_marker_path(env.id()));
        if s.read_envelope(env.id()).is_err() {
            continue;
        }
        let (eb, mb) = (std::fs::read(&ep).map_err(|e| e.to_string())?, std::fs::read(&mp).map_err(|e| e.to_string())?);
        let step = if tier == Tier::Thorough { 1 } else { 7 };
        for p in (0..eb.len()).step_by(step) {
            let mut bad = eb.clone();
            bad[p] ^= 0x10;
            std::fs::write(&ep, &bad).map_err(|e| e.to_string())?;
            if s.read_envelope(env.id()).is_ok() {
                fail(&mut o, "C20.wsc-read-not-intact", format!("sweep: envelope byte {p} corrupted, read_envelope still Ok"));
            }
        }
        std::fs::write(&ep, &eb).map_err(|e| e.to_string())?;
        for p in (0..mb.len()).step_by(step.min(3)) {
            let mut bad = mb.clone();
            bad[p] ^= 0x10;
            std::fs::write(&mp, &bad).map_err(|e| e.to_string())?;
            if s.read_envelope(env.id()).is_ok() {
                fail(&mut o, "C20.wsc-read-not-intact", format!("sweep: marker byte {p} corrupted, read_envelope still Ok"));
            }
        }
        std::fs::write(&mp, &mb).map_err(|e| e.to_string())?;
        rm_file(&ep)?;
        match s.read_envelope(env.id()) {
            Err(e) if e.kind == WscStoreObstructionKind::IncompleteEnvelopeWrite => {}
            _ => fail(&mut o, "C20.wsc-wrong-obstruction", "sweep: withheld envelope file not reported as IncompleteEnvelopeWrite".into()),
        }
        rm_file(&mp)?;
        match s.read_envelope(env.id()) {
            Err(e) if e.kind == WscStoreObstructionKind::MissingEnvelope => {}
            _ => fail(&mut o, "C20.wsc-wrong-obstruction", "sweep: fully withheld envelope not reported as MissingEnvelope".into()),
        }
        std::fs::write(&ep, &eb).map_err(|e| e.to_string())?;
        std::fs::write(&mp, &mb).map_err(|e| e.to_string())?;
        if s.read_envelope(env.id()).ok().as_ref() != Some(env) {
            fail(&mut o, "C20.wsc-read-not-intact", "sweep: restored material not readable".into());
        }
        o.tags.push("sweep-withhold-corrupt".into());
    }
    o.tags.sort();
    o.tags.dedup();
    o.nontrivial = committed_once && c.cmds.len() >= 2;
    Ok(o)
}

/// 0 mostly, 1 with probability 1/(2p): a rare variation of an otherwise shared field.
fn rare(rng: &mut Rng, p: u64) -> u64 {
    if rng.chance(1, p) {
        rng.below(2)
    } else {
        0
    }
}

fn gen_wsc(rng: &mut Rng, tier: Tier) -> Vec<String> {
    let n = if tier == Tier::Thorough { 1500 } else { 200 };
    let mut out = Vec::new();
    for case in 0..n {
        let nsets = rng.range(1, 3) as usize;
        // a small pool of records; sets draw from it so that envelopes overlap, repeat and conflict
        let mut pool_m: Vec<RetainedMaterialRecord> = Vec::new();
        for _ in 0..rng.range(2, 5) {
            pool_m.push(RetainedMaterialRecord {
                material_digest: small_id(rng.below(4)),
                semantic_coordinate_digest: small_id(10 + rare(rng, 6)),
                kind: KINDS[if rng.chance(1, 8) { rng.below(7) as usize } else { 0 }],
                posture: POSTURES[if rng.chance(1, 8) { rng.below(6) as usize } else { 0 }],
            });
        }
        let mut pool_r: Vec<ReadingRefRecord> = Vec::new();
        for _ in 0..rng.range(1, 4) {
            pool_r.push(ReadingRefRecord {
                reading_id: small_id(20 + rng.below(3)),
                semantic_coordinate_digest: small_id(30 + rare(rng, 6)),
                payload_digest: small_id(40),
                envelope_digest: small_id(50 + rare(rng, 8)),
                posture: POSTURES[if rng.chance(1, 8) { rng.below(6) as usize } else { 0 }],
            });
        }
        let mut line = format!("{nsets}");
        let mut ok_sets = 0;
        let mut prev_m: Vec<RetainedMaterialRecord> = Vec::new();
        for si in 0..nsets {
            let (ms, rs): (Vec<_>, Vec<_>) = if si > 0 && !prev_m.is_empty() && rng.chance(1, 4) {
                // a twin of an earlier set: one material re-filed under another semantic coordinate, so
                // each envelope is fine alone and the pooled import must refuse to alias them
                let mut m: Vec<RetainedMaterialRecord> = prev_m.clone();
                let k = rng.below(m.len() as u64) as usize;
                m[k].semantic_coordinate_digest = small_id(12);
                (m, Vec::new())
            } else if si > 0 && rng.chance(1, 5) {
                // same records as a previous draw would give, in another order: same envelope id
                let mut m = pool_m.clone();
                rng.shuffle(&mut m);
                (m, pool_r.clone())
            } else {
                let km = rng.below(pool_m.len() as u64 + 1) as usize;
                let kr = rng.below(pool_r.len() as u64 + 1) as usize;
                let mut m: Vec<_> = (0..km).map(|_| *rng.pick(&pool_m)).collect();
                let r: Vec<_> = (0..kr).map(|_| *rng.pick(&pool_r)).collect();
                rng.shuffle(&mut m);
                (m, r)
            };
            let idt = match retention_records_to_wsc_envelope(&ms, &rs) {
                Ok(e) => {
                    ok_sets += 1;
                    if prev_m.is_empty() {
                        prev_m = ms.clone();
                    }
                    hex(&e.id().as_hash())
                }
                Err(_) => "-".to_string(),
            };
            let r = WscRetentionRecords { materials: ms, readings: rs };
            line.push_str(&format!(" {idt} {}", recs_s(&r).replacen("m ", "", 1).replacen(" r ", " ", 1)));
        }
        let _ = ok_sets;
        let nops = if case % 17 == 0 { rng.range(20, 35) } else { rng.range(2, 12) };
        let ns = nsets as u64;
        let ops: Vec<String> = (0..nops)
            .map(|_| match rng.below(24) {
                0..=5 => format!("write {}", rng.below(ns)),
                6 | 7 => format!("stage {}", rng.below(ns)),
                8 | 9 => format!("commit {}", rng.below(ns)),
                10..=12 => format!("read {}", rng.below(ns)),
                13 => format!("delenv {}", rng.below(ns)),
                14 => format!("delmark {}", rng.below(ns)),
                15 | 16 => {
                    // header field starts, boundaries, and the last payload byte (offset >= 124)
                    let k = if rng.chance(1, 3) { 1_000_000 } else if rng.chance(1, 2) { *rng.pick(&[0u64, 8, 10, 12, 44, 76, 108, 116, 123]) } else { rng.below(ENV_HEADER_LEN) };
                    format!("flipenv {} {k}", rng.below(ns))
                }
                17 | 18 => {
                    let k = if rng.chance(1, 2) { *rng.pick(&[0u64, 8, 10, 12, 44, 76, 108, 140, 148, 156, 187]) } else { rng.below(MARKER_LEN) };
                    format!("flipmark {} {k}", rng.below(ns))
                }
                19 => format!("plantenv {} {}", rng.below(ns), rng.below(ns)),
                20 => "list".into(),
                21 | 22 => "import".into(),
                _ => "reopen".into(),
            })
            .collect();
        line.push_str(&format!(" {} {}", ops.len(), ops.join(" ")));
        out.push(line);
    }
    out
}
