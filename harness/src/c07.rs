//! C07 — replay is path-independent.
//! Real code: `ProvenanceService` / `LocalProvenanceStore` (`append_local_commit`, `add_checkpoint`,
//! `fork`, `replay_worldline_state_at`), `PlaybackCursor::{seek_to, step}`,
//! `WorldlineTickPatchV1::apply_to_worldline_state`, `WorldlineState::state_root`.
//! The history/mutation plumbing here is shared with c05.rs.
use crate::prng::Rng;
use crate::util::{hex, small_id, Toks};
use crate::{OracleOut, Stream, Tier};
use warp_core::{
    compute_commit_hash_v2, make_head_id, ApplyError, AtomPayload, AtomWrite, AttachmentKey,
    AttachmentValue, CheckpointRef, CursorId, CursorRole, EdgeId, EdgeKey, EdgeRecord, GlobalTick,
    GraphStore, HashTriplet, HistoryError, NodeId, NodeKey, NodeRecord, PlaybackCursor, PlaybackMode,
    ProvenanceEntry, ProvenanceEventKind, ProvenanceRef, ProvenanceService, ProvenanceStore,
    ReplayCheckpoint, ReplayError, SeekError, SeekThen, SlotId, StepResult, TickCommitStatus,
    TickPatchError, TickReceipt, TickReceiptDisposition, TickReceiptEntry, TickReceiptRejection, TxId,
    TypeId, WarpId, WarpOp, WarpTickPatchV1, WorldlineId, WorldlineState, WorldlineTick,
    WorldlineTickHeaderV1, WorldlineTickPatchV1, WriterHeadKey,
};

pub type Id = [u8; 32];

pub fn streams() -> Vec<Stream> {
    vec![Stream { name: "C07.seek", gen: gen_seek, imp: imp_seek, oracle: oracle_seek }]
}

// ------------------------------------------------------------------ case description

#[derive(Clone, Debug)]
pub struct AttS(pub Option<(Id, Vec<u8>)>);

#[derive(Clone, Debug)]
pub enum OpS {
    Un(Id, Id, Id),
    Dn(Id, Id),
    Ue(Id, Id, Id, Id, Id), // warp id src dst ty
    De(Id, Id, Id),         // warp src id
    Sn(Id, Id, AttS),
    Se(Id, Id, AttS),
}

#[derive(Clone, Debug)]
pub struct TickS {
    pub policy: u32,
    pub rule_pack: Id,
    pub gtick: u64,
    pub plan: Id,
    pub decision: Option<Id>,
    pub rewrites: Id,
    pub pwarp: Id,
    pub in_slots: Vec<(u64, Id, Id)>,
    pub out_slots: Vec<(u64, Id, Id)>,
    pub ops: Vec<OpS>,
    pub outs: Vec<(Id, Vec<u8>)>,
    pub rcpt: Option<(u64, Vec<(Id, Id, Id, u64)>)>,
}

#[derive(Clone, Debug)]
pub struct HistS {
    pub wl: Id,
    pub warp: Id,
    pub root: Id,
    pub nodes: Vec<(Id, Id, AttS)>,
    pub edges: Vec<(Id, Id, Id, Id, AttS)>, // id src dst ty att
    pub ticks: Vec<TickS>,
}

#[derive(Clone, Debug)]
pub struct Mut {
    pub kind: String,
    pub i: usize,
    pub a: u64,
}

fn att_tok(a: &AttS) -> String {
    match &a.0 {
        None => "0".into(),
        Some((ty, b)) => format!("1 {} {}", hex(ty), hex(b)),
    }
}

fn op_tok(o: &OpS) -> String {
    match o {
        OpS::Un(w, n, ty) => format!("un {} {} {}", hex(w), hex(n), hex(ty)),
        OpS::Dn(w, n) => format!("dn {} {}", hex(w), hex(n)),
        OpS::Ue(w, i, s, d, ty) => format!("ue {} {} {} {} {}", hex(w), hex(i), hex(s), hex(d), hex(ty)),
        OpS::De(w, s, i) => format!("de {} {} {}", hex(w), hex(s), hex(i)),
        OpS::Sn(w, n, a) => format!("sn {} {} {}", hex(w), hex(n), att_tok(a)),
        OpS::Se(w, e, a) => format!("se {} {} {}", hex(w), hex(e), att_tok(a)),
    }
}

pub fn hist_tok(h: &HistS) -> String {
    let mut s = format!("{} {} {} {}", hex(&h.wl), hex(&h.warp), hex(&h.root), h.nodes.len());
    for (n, ty, a) in &h.nodes {
        s.push_str(&format!(" {} {} {}", hex(n), hex(ty), att_tok(a)));
    }
    s.push_str(&format!(" {}", h.edges.len()));
    for (i, sr, d, ty, a) in &h.edges {
        s.push_str(&format!(" {} {} {} {} {}", hex(i), hex(sr), hex(d), hex(ty), att_tok(a)));
    }
    s.push_str(&format!(" {}", h.ticks.len()));
    for t in &h.ticks {
        s.push_str(&format!(
            " {} {} {} {} {} {} {}",
            t.policy,
            hex(&t.rule_pack),
            t.gtick,
            hex(&t.plan),
            t.decision.map_or("auto".to_string(), |d| hex(&d)),
            hex(&t.rewrites),
            hex(&t.pwarp)
        ));
        for ss in [&t.in_slots, &t.out_slots] {
            s.push_str(&format!(" {}", ss.len()));
            for (tag, w, i) in ss {
                s.push_str(&format!(" {} {} {}", tag, hex(w), hex(i)));
            }
        }
        s.push_str(&format!(" {}", t.ops.len()));
        for o in &t.ops {
            s.push(' ');
            s.push_str(&op_tok(o));
        }
        s.push_str(&format!(" {}", t.outs.len()));
        for (c, d) in &t.outs {
            s.push_str(&format!(" {} {}", hex(c), hex(d)));
        }
        match &t.rcpt {
            None => s.push_str(" -"),
            Some((tx, es)) => {
                s.push_str(&format!(" r {} {}", tx, es.len()));
                for (r, sh, n, c) in es {
                    s.push_str(&format!(" {} {} {} {}", hex(r), hex(sh), hex(n), c));
                }
            }
        }
    }
    s
}

pub fn muts_tok(ms: &[Mut]) -> String {
    let mut s = format!("{}", ms.len());
    for m in ms {
        s.push_str(&format!(" {} {} {}", m.kind, m.i, m.a));
    }
    s
}

fn parse_att(t: &mut Toks) -> Result<AttS, String> {
    if t.num()? == 0 {
        Ok(AttS(None))
    } else {
        let ty = t.id()?;
        let b = t.bytes()?;
        Ok(AttS(Some((ty, b))))
    }
}

fn parse_slots(t: &mut Toks) -> Result<Vec<(u64, Id, Id)>, String> {
    let n = t.num()?;
    let mut v = Vec::new();
    for _ in 0..n {
        v.push((t.num()?, t.id()?, t.id()?));
    }
    Ok(v)
}

fn parse_op(t: &mut Toks) -> Result<OpS, String> {
    Ok(match t.next()? {
        "un" => OpS::Un(t.id()?, t.id()?, t.id()?),
        "dn" => OpS::Dn(t.id()?, t.id()?),
        "ue" => OpS::Ue(t.id()?, t.id()?, t.id()?, t.id()?, t.id()?),
        "de" => OpS::De(t.id()?, t.id()?, t.id()?),
        "sn" => OpS::Sn(t.id()?, t.id()?, parse_att(t)?),
        "se" => OpS::Se(t.id()?, t.id()?, parse_att(t)?),
        o => return Err(format!("bad op {o}")),
    })
}

pub fn parse_hist(t: &mut Toks) -> Result<HistS, String> {
    let wl = t.id()?;
    let warp = t.id()?;
    let root = t.id()?;
    let nn = t.num()?;
    let mut nodes = Vec::new();
    for _ in 0..nn {
        nodes.push((t.id()?, t.id()?, parse_att(t)?));
    }
    let ne = t.num()?;
    let mut edges = Vec::new();
    for _ in 0..ne {
        edges.push((t.id()?, t.id()?, t.id()?, t.id()?, parse_att(t)?));
    }
    let nt = t.num()?;
    let mut ticks = Vec::new();
    for _ in 0..nt {
        let policy = t.num()? as u32;
        let rule_pack = t.id()?;
        let gtick = t.num()?;
        let plan = t.id()?;
        let d = t.next()?;
        let decision = if d == "auto" { None } else { Some(crate::util::id32(d)?) };
        let rewrites = t.id()?;
        let pwarp = t.id()?;
        let in_slots = parse_slots(t)?;
        let out_slots = parse_slots(t)?;
        let nops = t.num()?;
        let mut ops = Vec::new();
        for _ in 0..nops {
            ops.push(parse_op(t)?);
        }
        let no = t.num()?;
        let mut outs = Vec::new();
        for _ in 0..no {
            outs.push((t.id()?, t.bytes()?));
        }
        let rcpt = match t.next()? {
            "-" => None,
            "r" => {
                let tx = t.num()?;
                let n = t.num()?;
                let mut es = Vec::new();
                for _ in 0..n {
                    es.push((t.id()?, t.id()?, t.id()?, t.num()?));
                }
                Some((tx, es))
            }
            o => return Err(format!("bad rcpt {o}")),
        };
        ticks.push(TickS { policy, rule_pack, gtick, plan, decision, rewrites, pwarp, in_slots, out_slots, ops, outs, rcpt });
    }
    Ok(HistS { wl, warp, root, nodes, edges, ticks })
}

pub fn parse_muts(t: &mut Toks) -> Result<Vec<Mut>, String> {
    let n = t.num()?;
    let mut v = Vec::new();
    for _ in 0..n {
        v.push(Mut { kind: t.next()?.to_string(), i: t.num()? as usize, a: t.num()? });
    }
    Ok(v)
}

// ------------------------------------------------------------------ real objects

fn att_val(a: &AttS) -> Option<AttachmentValue> {
    a.0.as_ref().map(|(ty, b)| AttachmentValue::Atom(AtomPayload::new(TypeId(*ty), b.clone().into())))
}

fn warp_op(o: &OpS) -> WarpOp {
    match o {
        OpS::Un(w, n, ty) => WarpOp::UpsertNode {
            node: NodeKey { warp_id: WarpId(*w), local_id: NodeId(*n) },
            record: NodeRecord { ty: TypeId(*ty) },
        },
        OpS::Dn(w, n) => WarpOp::DeleteNode { node: NodeKey { warp_id: WarpId(*w), local_id: NodeId(*n) } },
        OpS::Ue(w, i, s, d, ty) => WarpOp::UpsertEdge {
            warp_id: WarpId(*w),
            record: EdgeRecord { id: EdgeId(*i), from: NodeId(*s), to: NodeId(*d), ty: TypeId(*ty) },
        },
        OpS::De(w, s, i) => WarpOp::DeleteEdge { warp_id: WarpId(*w), from: NodeId(*s), edge_id: EdgeId(*i) },
        OpS::Sn(w, n, a) => WarpOp::SetAttachment {
            key: AttachmentKey::node_alpha(NodeKey { warp_id: WarpId(*w), local_id: NodeId(*n) }),
            value: att_val(a),
        },
        OpS::Se(w, e, a) => WarpOp::SetAttachment {
            key: AttachmentKey::edge_beta(EdgeKey { warp_id: WarpId(*w), local_id: EdgeId(*e) }),
            value: att_val(a),
        },
    }
}

fn slot_of(s: &(u64, Id, Id)) -> Result<SlotId, String> {
    match s.0 {
        1 => Ok(SlotId::Node(NodeKey { warp_id: WarpId(s.1), local_id: NodeId(s.2) })),
        2 => Ok(SlotId::Edge(EdgeKey { warp_id: WarpId(s.1), local_id: EdgeId(s.2) })),
        o => Err(format!("bad slot tag {o}")),
    }
}

pub fn base_state(h: &HistS) -> Result<WorldlineState, String> {
    let mut store = GraphStore::new(WarpId(h.warp));
    for (n, ty, a) in &h.nodes {
        store.insert_node(NodeId(*n), NodeRecord { ty: TypeId(*ty) });
        if let Some(v) = att_val(a) {
            store.set_node_attachment(NodeId(*n), Some(v));
        }
    }
    for (i, s, d, ty, a) in &h.edges {
        store.insert_edge(NodeId(*s), EdgeRecord { id: EdgeId(*i), from: NodeId(*s), to: NodeId(*d), ty: TypeId(*ty) });
        if let Some(v) = att_val(a) {
            store.set_edge_attachment(EdgeId(*i), Some(v));
        }
    }
    WorldlineState::from_root_store(store, NodeId(h.root)).map_err(|e| format!("base: {e:?}"))
}

pub fn other_id(a: u64) -> Id {
    small_id(0xB7 + a)
}

pub fn garbage(a: u64) -> Id {
    let mut g = [0xEEu8; 32];
    g[31] = (a % 256) as u8;
    g
}

fn receipt_of(warp: Id, tx: u64, es: &[(Id, Id, Id, u64)]) -> Result<TickReceipt, String> {
    let entries: Vec<TickReceiptEntry> = es
        .iter()
        .map(|(r, sh, n, c)| TickReceiptEntry {
            rule_id: *r,
            scope_hash: *sh,
            scope: NodeKey { warp_id: WarpId(warp), local_id: NodeId(*n) },
            disposition: match c {
                1 => TickReceiptDisposition::Applied,
                _ => TickReceiptDisposition::Rejected(TickReceiptRejection::ExecutableOperationObstruction),
            },
        })
        .collect();
    let blocked = vec![Vec::new(); entries.len()];
    TickReceipt::try_from_retained_parts(TxId::from_raw(tx), entries, blocked).map_err(|e| format!("receipt: {e:?}"))
}

pub fn head_key(wl: Id) -> WriterHeadKey {
    WriterHeadKey { worldline_id: WorldlineId::from_bytes(wl), head_id: make_head_id("fixture") }
}

pub struct Honest {
    pub base: WorldlineState,
    pub entries: Vec<ProvenanceEntry>,
    /// live state roots `g_0 … g_n` as the committing side saw them
    pub live_roots: Vec<Id>,
    /// whether every patch applied (the history is one a runtime could have produced)
    pub all_applied: bool,
}

/// One honest commit on top of `live` with the given parent refs: apply the patch (a failing patch
/// leaves the state unchanged), record the real root / digest / commit id. Returns whether it applied.
pub fn mk_entry(
    warp: Id,
    wl: Id,
    i: u64,
    t: &TickS,
    live: &mut WorldlineState,
    parents: Vec<ProvenanceRef>,
) -> Result<(ProvenanceEntry, bool), String> {
    let receipt = match &t.rcpt {
        None => None,
        Some((tx, es)) => Some(receipt_of(warp, *tx, es)?),
    };
    let decision = match (t.decision, &receipt) {
        (Some(d), _) => d,
        (None, Some(r)) => r.digest(),
        (None, None) => [0u8; 32],
    };
    let ops: Vec<WarpOp> = t.ops.iter().map(warp_op).collect();
    let in_slots = t.in_slots.iter().map(slot_of).collect::<Result<Vec<_>, _>>()?;
    let out_slots = t.out_slots.iter().map(slot_of).collect::<Result<Vec<_>, _>>()?;
    let digest = WarpTickPatchV1::new(t.policy, t.rule_pack, TickCommitStatus::Committed, in_slots.clone(), out_slots.clone(), ops.clone()).digest();
    let patch = WorldlineTickPatchV1 {
        header: WorldlineTickHeaderV1 {
            commit_global_tick: GlobalTick::from_raw(t.gtick),
            policy_id: t.policy,
            rule_pack_id: t.rule_pack,
            plan_digest: t.plan,
            decision_digest: decision,
            rewrites_digest: t.rewrites,
        },
        warp_id: WarpId(t.pwarp),
        ops,
        in_slots,
        out_slots,
        patch_digest: digest,
    };
    let mut next = live.clone();
    let applied = match patch.apply_to_worldline_state(&mut next) {
        Ok(()) => {
            *live = next;
            true
        }
        Err(_) => false,
    };
    let state_root = live.state_root();
    let parent_hashes: Vec<Id> = parents.iter().map(|p| p.commit_hash).collect();
    let commit_hash = compute_commit_hash_v2(&state_root, &parent_hashes, &digest, t.policy);
    let mut e = ProvenanceEntry::local_commit(
        WorldlineId::from_bytes(wl),
        WorldlineTick::from_raw(i),
        GlobalTick::from_raw(t.gtick),
        head_key(wl),
        parents,
        HashTriplet { state_root, patch_digest: digest, commit_hash },
        patch,
        t.outs.iter().map(|(c, d)| (TypeId(*c), d.clone())).collect(),
        Vec::new(),
    );
    if let Some(r) = receipt {
        e = e.with_tick_receipt(r);
    }
    Ok((e, applied))
}

/// Commit every tick the way a writer does, each on top of the previous one.
pub fn honest_history(h: &HistS) -> Result<Honest, String> {
    let base = base_state(h)?;
    let mut live = base.clone();
    let mut entries: Vec<ProvenanceEntry> = Vec::new();
    let mut live_roots = vec![live.state_root()];
    let mut all_applied = true;
    for (i, t) in h.ticks.iter().enumerate() {
        let parents: Vec<ProvenanceRef> = entries.last().map(|e: &ProvenanceEntry| e.as_ref()).into_iter().collect();
        let (e, applied) = mk_entry(h.warp, h.wl, i as u64, t, &mut live, parents)?;
        all_applied &= applied;
        live_roots.push(live.state_root());
        entries.push(e);
    }
    Ok(Honest { base, entries, live_roots, all_applied })
}

fn mod_op(o: &mut WarpOp) {
    fn bump(a: &mut [u8; 32]) {
        // +1 on the big-endian value (ids of the generators never end in 0xff)
        a[31] = a[31].wrapping_add(1);
    }
    fn att_mod(v: &mut Option<AttachmentValue>) {
        match v {
            Some(AttachmentValue::Atom(a)) => {
                let mut b = a.bytes.to_vec();
                b.push(0x5A);
                *v = Some(AttachmentValue::Atom(AtomPayload::new(a.type_id, b.into())));
            }
            Some(AttachmentValue::Descend(_)) => {}
            None => *v = Some(AttachmentValue::Atom(AtomPayload::new(TypeId(other_id(0)), Vec::new().into()))),
        }
    }
    match o {
        WarpOp::UpsertNode { record, .. } => bump(&mut record.ty.0),
        WarpOp::UpsertEdge { record, .. } => bump(&mut record.ty.0),
        WarpOp::SetAttachment { value, .. } => att_mod(value),
        WarpOp::DeleteNode { node } => bump(&mut node.local_id.0),
        WarpOp::DeleteEdge { edge_id, .. } => bump(&mut edge_id.0),
        _ => {}
    }
}

/// One alteration of a public field of a retained entry / patch (or a structural edit of the list).
pub fn apply_mut(es: &mut Vec<ProvenanceEntry>, m: &Mut) -> Result<(), String> {
    let g = garbage(m.a);
    let other_wl = WorldlineId::from_bytes(other_id(0));
    let i = m.i;
    let structural = matches!(m.kind.as_str(), "swap" | "dup" | "drop" | "trunc" | "none");
    if !structural {
        let Some(e) = es.get_mut(i) else { return Ok(()) };
        let pm = |e: &mut ProvenanceEntry, f: &dyn Fn(&mut WorldlineTickPatchV1)| {
            if let Some(p) = e.patch.as_mut() {
                f(p)
            }
        };
        match m.kind.as_str() {
            "e.root" => e.expected.state_root = g,
            "e.pdig" => e.expected.patch_digest = g,
            "e.commit" => e.expected.commit_hash = g,
            "e.parent" => e.parents.iter_mut().for_each(|p| p.commit_hash = g),
            "e.ptick" => e.parents.iter_mut().for_each(|p| p.worldline_tick = WorldlineTick::from_raw(m.a)),
            "e.pwl" => e.parents.iter_mut().for_each(|p| p.worldline_id = other_wl),
            "e.pdrop" => e.parents.clear(),
            // multi-parent entries: two refs (to tick 0 of the same worldline) in descending / ascending /
            // equal commit-hash order (`NonCanonicalParents`, then parent resolution)
            "e.p2.desc" | "e.p2.asc" | "e.p2.dup" => {
                let r = |h: Id| ProvenanceRef { worldline_id: e.worldline_id, worldline_tick: WorldlineTick::from_raw(0), commit_hash: h };
                let (lo, hi) = (garbage(m.a % 200), garbage(m.a % 200 + 1));
                e.parents = match m.kind.as_str() {
                    "e.p2.desc" => vec![r(hi), r(lo)],
                    "e.p2.asc" => vec![r(lo), r(hi)],
                    _ => vec![r(lo), r(lo)],
                };
            }
            "e.tick" => e.worldline_tick = WorldlineTick::from_raw(m.a),
            "e.wl" => e.worldline_id = other_wl,
            "e.gtick" => e.commit_global_tick = GlobalTick::from_raw(m.a),
            "e.headid" => {
                if let Some(h) = e.head_key.as_mut() {
                    h.head_id = make_head_id("other")
                }
            }
            "e.headwl" => {
                if let Some(h) = e.head_key.as_mut() {
                    h.worldline_id = other_wl
                }
            }
            "e.nohead" => e.head_key = None,
            "e.kind" => e.event_kind = ProvenanceEventKind::ConflictArtifact { artifact_id: other_id(0) },
            "e.outs" => e.outputs.push((TypeId(other_id(0)), vec![m.a as u8])),
            "e.aw" => e.atom_writes.push(AtomWrite::new(
                NodeKey { warp_id: WarpId(other_id(0)), local_id: NodeId(other_id(0)) },
                other_id(0),
                m.a,
                None,
                vec![1],
            )),
            "e.rcpt.drop" => e.tick_receipt = None,
            "e.rcpt.tx" => {
                if let Some(r) = e.tick_receipt.as_ref() {
                    let parts: Vec<TickReceiptEntry> = r.entries().to_vec();
                    let blocked = vec![Vec::new(); parts.len()];
                    e.tick_receipt = Some(
                        TickReceipt::try_from_retained_parts(TxId::from_raw(m.a), parts, blocked).map_err(|e| format!("{e:?}"))?,
                    );
                }
            }
            "e.rcpt.entry" => {
                if let Some(r) = e.tick_receipt.as_ref() {
                    let tx = r.tx();
                    let o = other_id(0);
                    let code = 1 + 2 * (m.a % 2);
                    let nr = receipt_of([0u8; 32], tx.value(), &[(o, o, o, code)])?;
                    e.tick_receipt = Some(nr);
                }
            }
            "e.nopatch" => e.patch = None,
            "p.digest" => pm(e, &|p| p.patch_digest = g),
            "p.policy" => pm(e, &|p| p.header.policy_id = m.a as u32),
            "p.rulepack" => pm(e, &|p| p.header.rule_pack_id = other_id(m.a)),
            "p.plan" => pm(e, &|p| p.header.plan_digest = other_id(m.a)),
            "p.decision" => pm(e, &|p| p.header.decision_digest = g),
            "p.rewrites" => pm(e, &|p| p.header.rewrites_digest = other_id(m.a)),
            "p.gtick" => pm(e, &|p| p.header.commit_global_tick = GlobalTick::from_raw(m.a)),
            "p.warp" => pm(e, &|p| p.warp_id = WarpId(other_id(0))),
            "p.op.add" => pm(e, &|p| {
                p.ops.push(WarpOp::UpsertNode {
                    node: NodeKey { warp_id: p.warp_id, local_id: NodeId(other_id(m.a)) },
                    record: NodeRecord { ty: TypeId(other_id(0)) },
                })
            }),
            "p.op.drop" => pm(e, &|p| {
                if (m.a as usize) < p.ops.len() {
                    p.ops.remove(m.a as usize);
                }
            }),
            "p.op.rev" => pm(e, &|p| p.ops.reverse()),
            "p.op.dup" => pm(e, &|p| {
                if let Some(f) = p.ops.first().cloned() {
                    p.ops.push(f)
                }
            }),
            "p.op.ty" => pm(e, &|p| {
                if let Some(o) = p.ops.get_mut(m.a as usize) {
                    mod_op(o)
                }
            }),
            "p.in.add" => pm(e, &|p| p.in_slots.push(SlotId::Node(NodeKey { warp_id: p.warp_id, local_id: NodeId(other_id(m.a)) }))),
            "p.out.add" => pm(e, &|p| p.out_slots.push(SlotId::Node(NodeKey { warp_id: p.warp_id, local_id: NodeId(other_id(m.a)) }))),
            "p.in.drop" => pm(e, &|p| {
                if (m.a as usize) < p.in_slots.len() {
                    p.in_slots.remove(m.a as usize);
                }
            }),
            "p.out.drop" => pm(e, &|p| {
                if (m.a as usize) < p.out_slots.len() {
                    p.out_slots.remove(m.a as usize);
                }
            }),
            k => return Err(format!("bad mut {k}")),
        }
        return Ok(());
    }
    match m.kind.as_str() {
        "swap" => {
            if i + 1 < es.len() {
                es.swap(i, i + 1)
            }
        }
        "dup" => {
            if i < es.len() {
                let x = es[i].clone();
                es.insert(i + 1, x)
            }
        }
        "drop" => {
            if i < es.len() {
                es.remove(i);
            }
        }
        "trunc" => es.truncate(i),
        _ => {}
    }
    Ok(())
}

// ------------------------------------------------------------------ checkpoint tampering (`cpt`)

/// Every checkpoint-tamper kind of the catalogue: (kind, takes a tick_history index).
pub const CP_TAMPERS: [(&str, bool); 50] = [
    ("hash", false), ("g", false), ("g.unreach", false), ("s0", false), ("warp", false), ("rootid", false),
    ("txc", false), ("lm.add", false), ("lm.drop", false), ("lm.data", false), ("ci", false), ("lme", false),
    ("ls.none", false), ("ls.some", false), ("ls.hash", false), ("ls.sroot", false), ("ls.parents", false),
    ("ls.plan", false), ("ls.decision", false), ("ls.rewrites", false), ("ls.pdig", false), ("ls.policy", false),
    ("ls.tx", false), ("ls.key", false),
    ("th.drop", false), ("th.dup", false), ("th.swap", true),
    ("th.s.hash", true), ("th.s.sroot", true), ("th.s.parents", true), ("th.s.plan", true), ("th.s.decision", true),
    ("th.s.rewrites", true), ("th.s.pdig", true), ("th.s.policy", true), ("th.s.tx", true), ("th.s.key", true),
    ("th.r.tx", true), ("th.r.entry", true), ("th.r.empty", true),
    ("th.p.policy", true), ("th.p.rulepack", true), ("th.p.status", true), ("th.p.op.add", true), ("th.p.op.drop", true),
    ("th.p.in.add", true), ("th.p.out.add", true), ("th.p.in.drop", true), ("th.p.out.drop", true), ("th.p.digest", true),
];

fn snap_mut(s: &mut warp_core::Snapshot, f: &str, a: u64) -> Result<(), String> {
    let g = garbage(a);
    match f {
        "hash" => s.hash = g,
        "sroot" => s.state_root = g,
        "parents" => {
            if s.parents.is_empty() {
                s.parents.push(g)
            } else {
                s.parents.clear()
            }
        }
        "plan" => s.plan_digest = other_id(a),
        "decision" => s.decision_digest = g,
        "rewrites" => s.rewrites_digest = other_id(a),
        "pdig" => s.patch_digest = g,
        "policy" => s.policy_id = 7 + a as u32,
        "tx" => s.tx = TxId::from_raw(a),
        "key" => s.root.local_id = NodeId(other_id(0)),
        o => return Err(format!("bad snapshot field {o}")),
    }
    Ok(())
}

fn rcpt_mut(r: &mut TickReceipt, f: &str, a: u64) -> Result<(), String> {
    let o = other_id(0);
    *r = match f {
        "tx" => {
            let parts: Vec<TickReceiptEntry> = r.entries().to_vec();
            let blocked = vec![Vec::new(); parts.len()];
            TickReceipt::try_from_retained_parts(TxId::from_raw(a), parts, blocked).map_err(|e| format!("{e:?}"))?
        }
        "entry" => receipt_of([0u8; 32], r.tx().value(), &[(o, o, o, 1 + 2 * (a % 2))])?,
        "empty" => receipt_of([0u8; 32], r.tx().value(), &[])?,
        o => return Err(format!("bad receipt field {o}")),
    };
    Ok(())
}

fn rpatch_mut(p: &mut WarpTickPatchV1, f: &str, a: u64, warp: WarpId) -> Result<(), String> {
    let (mut pol, mut rp, mut st) = (p.policy_id(), p.rule_pack_id(), p.commit_status());
    let (mut ins, mut outs, mut ops) = (p.in_slots().to_vec(), p.out_slots().to_vec(), p.ops().to_vec());
    let extra = NodeKey { warp_id: warp, local_id: NodeId(other_id(a)) };
    let ai = a as usize;
    match f {
        "policy" => pol = 7 + a as u32,
        "rulepack" => rp = other_id(a),
        "status" => st = TickCommitStatus::Aborted,
        "op.add" => ops.push(WarpOp::UpsertNode { node: extra, record: NodeRecord { ty: TypeId(other_id(0)) } }),
        "op.drop" => {
            if ai < ops.len() {
                ops.remove(ai);
            }
        }
        "in.add" => ins.push(SlotId::Node(extra)),
        "out.add" => outs.push(SlotId::Node(extra)),
        "in.drop" => {
            if ai < ins.len() {
                ins.remove(ai);
            }
        }
        "out.drop" => {
            if ai < outs.len() {
                outs.remove(ai);
            }
        }
        "digest" => {
            warp_core::echo_verif::c05::set_patch_digest(p, garbage(a));
            return Ok(());
        }
        o => return Err(format!("bad replay-patch field {o}")),
    }
    *p = WarpTickPatchV1::new(pol, rp, st, ins, outs, ops);
    Ok(())
}

/// ONE alteration of a retained field of a checkpoint (mirrors `tamperCp` in Driver/ChainIO.lean).
pub fn tamper_cp(cp: &mut ReplayCheckpoint, kind: &str, j: usize, a: u64, wl: Id) -> Result<(), String> {
    use warp_core::echo_verif::c05 as hk;
    let g = garbage(a);
    let o = other_id(0);
    if kind == "none" {
        return Ok(());
    }
    if kind == "hash" {
        cp.checkpoint.state_hash = g;
        return Ok(());
    }
    let root = *cp.state.root();
    let warp = cp.state.initial_state().store(&root.warp_id).map_or(root.warp_id, |s| s.warp_id());
    let p = hk::state_parts(&mut cp.state);
    let att = Some(AttachmentValue::Atom(AtomPayload::new(TypeId(o), vec![a as u8].into())));
    match kind {
        "g" => {
            if let Some(s) = p.warp_state.store_mut(&root.warp_id) {
                s.set_node_attachment(root.local_id, att);
            }
        }
        "g.unreach" => {
            if let Some(s) = p.warp_state.store_mut(&root.warp_id) {
                s.insert_node(NodeId(other_id(a)), NodeRecord { ty: TypeId(o) });
            }
        }
        "s0" => {
            if let Some(s) = p.initial_state.store_mut(&root.warp_id) {
                s.set_node_attachment(root.local_id, att);
            }
        }
        "warp" => p.root.warp_id = WarpId(o),
        "rootid" => p.root.local_id = NodeId(o),
        "txc" => *p.tx_counter = a,
        "lm.add" => p.last_materialization.push(warp_core::materialization::FinalizedChannel { channel: TypeId(o), data: vec![a as u8] }),
        "lm.drop" => {
            p.last_materialization.pop();
        }
        "lm.data" => {
            if let Some(c) = p.last_materialization.first_mut() {
                c.data.push(a as u8)
            }
        }
        "ls.none" => *p.last_snapshot = None,
        "ls.some" => {
            if p.last_snapshot.is_none() {
                *p.last_snapshot = Some(warp_core::Snapshot {
                    root,
                    hash: g,
                    state_root: g,
                    parents: Vec::new(),
                    plan_digest: g,
                    decision_digest: g,
                    rewrites_digest: g,
                    patch_digest: g,
                    policy_id: 0,
                    tx: TxId::from_raw(1),
                })
            }
        }
        "ci" => {
            p.committed_ingress.insert((head_key(wl), g));
        }
        "lme" => p.last_materialization_errors.push(hk::channel_conflict(o, 2)),
        "th.drop" => {
            p.tick_history.pop();
        }
        "th.dup" => {
            if let Some(x) = p.tick_history.last().cloned() {
                p.tick_history.push(x)
            }
        }
        "th.swap" => {
            if j + 1 < p.tick_history.len() {
                p.tick_history.swap(j, j + 1)
            }
        }
        k => {
            if let Some(f) = k.strip_prefix("ls.") {
                if let Some(s) = p.last_snapshot.as_mut() {
                    snap_mut(s, f, a)?
                }
            } else if let Some(f) = k.strip_prefix("th.s.") {
                if let Some(x) = p.tick_history.get_mut(j) {
                    snap_mut(&mut x.0, f, a)?
                }
            } else if let Some(f) = k.strip_prefix("th.r.") {
                if let Some(x) = p.tick_history.get_mut(j) {
                    rcpt_mut(&mut x.1, f, a)?
                }
            } else if let Some(f) = k.strip_prefix("th.p.") {
                if let Some(x) = p.tick_history.get_mut(j) {
                    rpatch_mut(&mut x.2, f, a, warp)?
                }
            } else {
                return Err(format!("bad checkpoint tamper {k}"));
            }
        }
    }
    Ok(())
}

pub fn hist_err(e: &HistoryError) -> String {
    match e {
        HistoryError::HistoryUnavailable { tick } => format!("hist-unavail:{}", tick.as_u64()),
        HistoryError::WorldlineNotFound(_) => "wl-missing".into(),
        HistoryError::WorldlineAlreadyExists(_) => "wl-exists".into(),
        HistoryError::TickGap { .. } => "tick-gap".into(),
        HistoryError::EntryWorldlineMismatch { .. } => "entry-wl".into(),
        HistoryError::LocalCommitMissingHeadKey { .. } => "no-head".into(),
        HistoryError::LocalCommitMissingPatch { .. } => "no-patch".into(),
        HistoryError::LocalCommitReceiptTxMismatch { .. } => "rcpt-tx".into(),
        HistoryError::LocalCommitReceiptDigestMismatch { .. } => "rcpt-digest".into(),
        HistoryError::HeadWorldlineMismatch { .. } => "head-wl".into(),
        HistoryError::InvalidLocalCommitEventKind { .. } => "kind".into(),
        HistoryError::NonCanonicalParents { .. } => "parents-order".into(),
        HistoryError::MissingParentRef { .. } => "parent-missing".into(),
        HistoryError::ParentCommitHashMismatch { .. } => "parent-hash".into(),
        HistoryError::CheckpointRootWarpMismatch { .. } => "cp-warp".into(),
        HistoryError::CheckpointInitialBoundaryHashMismatch { .. } => "cp-boundary".into(),
        HistoryError::CheckpointStateRootMismatch { tick, .. } => format!("cp-root:{}", tick.as_u64()),
        HistoryError::CheckpointReplayMetadataMismatch { .. } => "cp-meta".into(),
        _ => "history-other".into(),
    }
}

fn apply_code(e: &ApplyError) -> u32 {
    match e {
        ApplyError::MissingNode(_) => 2,
        ApplyError::MissingEdge(_) => 3,
        ApplyError::NodeNotIsolated(_) => 4,
        ApplyError::WarpMismatch { .. } => 100,
        ApplyError::TickPatch(TickPatchError::MissingWarp(_)) => 1,
        _ => 9,
    }
}

pub fn seek_err(e: &SeekError) -> String {
    match e {
        SeekError::HistoryUnavailable { tick } => format!("hist-unavail:{}", tick.as_u64()),
        SeekError::StateRootMismatch { tick } => format!("state-root:{}", tick.as_u64()),
        SeekError::PatchDigestMismatch { tick } => format!("patch-digest:{}", tick.as_u64()),
        SeekError::CommitHashMismatch { tick } => format!("commit-hash:{}", tick.as_u64()),
        SeekError::ReceiptMismatch { tick } => format!("receipt:{}", tick.as_u64()),
        SeekError::ApplyError { tick, source } => format!("apply:{}:{}", tick.as_u64(), apply_code(source)),
        SeekError::PinnedFrontierExceeded { .. } => "pinned".into(),
        SeekError::CheckpointStateRootMismatch { tick } => format!("cp-root:{}", tick.as_u64()),
        SeekError::ReplayBaseWarpMismatch { .. } => "base-warp".into(),
        SeekError::InitialBoundaryHashMismatch { .. } => "boundary".into(),
    }
}

pub fn replay_err(e: &ReplayError) -> String {
    match e {
        ReplayError::History(h) => hist_err(h),
        ReplayError::MissingPatch { tick } => format!("hist-unavail:{}", tick.as_u64()),
        ReplayError::TickOverflow { .. } => "tick-overflow".into(),
        ReplayError::Apply { tick, source } => format!("apply:{}:{}", tick.as_u64(), apply_code(source)),
        ReplayError::ReplayBaseWarpMismatch { .. } => "base-warp".into(),
        ReplayError::InitialBoundaryHashMismatch { .. } => "boundary".into(),
        ReplayError::PatchDigestMismatch { tick, .. } => format!("patch-digest:{}", tick.as_u64()),
        ReplayError::StateRootMismatch { tick, .. } => format!("state-root:{}", tick.as_u64()),
        ReplayError::CommitHashMismatch { tick, .. } => format!("commit-hash:{}", tick.as_u64()),
        ReplayError::ReceiptTxMismatch { tick, .. } | ReplayError::ReceiptDigestMismatch { tick, .. } => {
            format!("receipt:{}", tick.as_u64())
        }
        ReplayError::CheckpointStateRootMismatch { tick, .. } => format!("cp-root:{}", tick.as_u64()),
    }
}

/// Register the worldline (boundary taken from `reg_state`) and append the entries in order through
/// the real `append_local_commit`; stops at the first rejection.
pub fn build_service(wl: Id, reg_state: &WorldlineState, es: &[ProvenanceEntry]) -> (ProvenanceService, usize, Option<String>) {
    let mut svc = ProvenanceService::new();
    let wlid = WorldlineId::from_bytes(wl);
    if let Err(e) = svc.register_worldline(wlid, reg_state) {
        return (svc, 0, Some(hist_err(&e)));
    }
    let mut n = 0;
    for e in es {
        match svc.append_local_commit(e.clone()) {
            Ok(()) => n += 1,
            Err(err) => return (svc, n, Some(hist_err(&err))),
        }
    }
    (svc, n, None)
}

pub fn stored_entries(svc: &ProvenanceService, wl: WorldlineId) -> Vec<ProvenanceEntry> {
    let n = svc.len(wl).unwrap_or(0);
    (0..n).filter_map(|i| svc.entry(wl, WorldlineTick::from_raw(i)).ok()).collect()
}

pub fn outs_tok(o: &[(Id, Vec<u8>)]) -> String {
    let mut s = format!("{}", o.len());
    for (c, d) in o {
        s.push_str(&format!(",{}:{}", hex(c), hex(d)));
    }
    s
}

pub fn root_tok(boundary: &Id, es: &[ProvenanceEntry], root: &Id) -> String {
    if root == boundary {
        return "b".into();
    }
    match es.iter().position(|e| &e.expected.state_root == root) {
        Some(i) => format!("e{i}"),
        None => hex(root),
    }
}

pub fn w_tok(boundary: &Id, es: &[ProvenanceEntry], w: &WorldlineState) -> String {
    let th = w
        .tick_history()
        .iter()
        .zip(es.iter())
        .take_while(|((s, _, _), e)| s.hash == e.expected.commit_hash && s.state_root == e.expected.state_root && s.patch_digest == e.expected.patch_digest)
        .count();
    let ls = match w.tick_history().last() {
        None => "-".to_string(),
        Some((s, _, _)) => match es.iter().position(|e| e.expected.commit_hash == s.hash) {
            Some(i) => format!("e{i}"),
            None => "?".into(),
        },
    };
    let lm: Vec<(Id, Vec<u8>)> = w.last_materialization().iter().map(|c| (c.channel.0, c.data.clone())).collect();
    format!("rt {} hl={} th={} ls={} lm={}", root_tok(boundary, es, &w.state_root()), w.tick_history().len(), th, ls, outs_tok(&lm))
}

// ------------------------------------------------------------------ C07.seek

#[derive(Clone, Debug)]
pub enum SOp {
    Seek(u64),
    Mode(PlaybackMode),
    Pin(u64),
    Step,
    New(bool, u64),
    Cp(u64, u64, u64),
    Cpo(u64, u64, u64),
    /// tampered checkpoint: (claimed tick, state tick, field kind, index, argument)
    Cpt(u64, u64, String, u64, u64),
    Fork(u64),
    Replay(u64),
    Ext(u64),
}

pub fn parse_sops(t: &mut Toks) -> Result<Vec<SOp>, String> {
    let n = t.num()?;
    let mut v = Vec::new();
    for _ in 0..n {
        v.push(match t.next()? {
            "seek" => SOp::Seek(t.num()?),
            "mode" => SOp::Mode(match t.next()? {
                "paused" => PlaybackMode::Paused,
                "play" => PlaybackMode::Play,
                "fwd" => PlaybackMode::StepForward,
                "back" => PlaybackMode::StepBack,
                o => return Err(format!("bad mode {o}")),
            }),
            "modeseek" => {
                let target = WorldlineTick::from_raw(t.num()?);
                let then = if t.num()? != 0 { SeekThen::Play } else { SeekThen::Pause };
                SOp::Mode(PlaybackMode::Seek { target, then })
            }
            "pin" => SOp::Pin(t.num()?),
            "step" => SOp::Step,
            "new" => {
                let r = t.next()? == "r";
                SOp::New(r, t.num()?)
            }
            "cp" => SOp::Cp(t.num()?, t.num()?, t.num()?),
            "cpo" => SOp::Cpo(t.num()?, t.num()?, t.num()?),
            "cpt" => SOp::Cpt(t.num()?, t.num()?, t.next()?.to_string(), t.num()?, t.num()?),
            "fork" => SOp::Fork(t.num()?),
            "replay" => SOp::Replay(t.num()?),
            "ext" => SOp::Ext(t.num()?),
            o => return Err(format!("bad sop {o}")),
        });
    }
    Ok(v)
}

pub struct SeekCase {
    pub h: HistS,
    pub muts: Vec<Mut>,
    pub ops: Vec<SOp>,
}

pub fn parse_seek(t: &mut Toks) -> Result<SeekCase, String> {
    let h = parse_hist(t)?;
    let muts = parse_muts(t)?;
    let ops = parse_sops(t)?;
    if !t.done() {
        return Err("trailing tokens".into());
    }
    Ok(SeekCase { h, muts, ops })
}

pub fn wt(t: u64) -> WorldlineTick {
    WorldlineTick::from_raw(t)
}

pub struct Run {
    /// the unaltered history (no mutations applied): source of `cpo` checkpoints, C05's reference
    pub orig: ProvenanceService,
    pub hist: HistS,
    /// false once a non-applying tick was appended by `ext`
    pub ext_applied: bool,
    pub svc: ProvenanceService,
    /// the same entries, never given a checkpoint: the "replay 0..t from the initial state" reference
    pub clean: ProvenanceService,
    pub wl: WorldlineId,
    pub base: WorldlineState,
    pub cursor: PlaybackCursor,
    pub nforks: u64,
    pub boundary: Id,
}

pub fn fresh_cursor(wl: WorldlineId, base: &WorldlineState, reader: bool, pin: u64) -> PlaybackCursor {
    PlaybackCursor::new(
        CursorId([7u8; 32]),
        wl,
        base.root().warp_id,
        if reader { CursorRole::Reader } else { CursorRole::Writer },
        base,
        wt(pin),
    )
}

/// Per-op observation handed to the oracle.
pub struct Obs {
    /// Some(tick) when the op reported success and left a cursor / state claimed to be at `tick`
    pub ok_at: Option<u64>,
    pub state: Option<WorldlineState>,
    pub wl: WorldlineId,
    pub text: String,
}

pub fn run_sop(r: &mut Run, op: &SOp) -> Obs {
    let wl = r.wl;
    let es = stored_entries(&r.svc, wl);
    let b = r.boundary;
    match op {
        SOp::Seek(t) => {
            let res = r.cursor.seek_to(wt(*t), &r.svc, &r.base);
            let tick = r.cursor.current_tick().as_u64();
            let st = r.cursor.materialized_state().clone();
            let text = format!("{}@{} {}", res.as_ref().map_or_else(seek_err, |_| "ok".to_string()), tick, w_tok(&b, &es, &st));
            Obs { ok_at: res.ok().map(|_| tick), state: Some(st), wl, text }
        }
        SOp::Mode(m) => {
            r.cursor.mode = *m;
            Obs { ok_at: None, state: None, wl, text: "set".into() }
        }
        SOp::Pin(p) => {
            r.cursor.pin_max_tick = wt(*p);
            Obs { ok_at: None, state: None, wl, text: "set".into() }
        }
        SOp::Step => {
            let res = r.cursor.step(&r.svc, &r.base);
            let tick = r.cursor.current_tick().as_u64();
            let st = r.cursor.materialized_state().clone();
            let rt = match &res {
                Ok(StepResult::NoOp) => "noop".to_string(),
                Ok(StepResult::Advanced) => "advanced".into(),
                Ok(StepResult::Seeked) => "seeked".into(),
                Ok(StepResult::ReachedFrontier) => "frontier".into(),
                Err(e) => seek_err(e),
            };
            let text = format!("{}@{} {}", rt, tick, w_tok(&b, &es, &st));
            Obs { ok_at: res.ok().map(|_| tick), state: Some(st), wl, text }
        }
        SOp::New(reader, pin) => {
            r.cursor = fresh_cursor(wl, &r.base, *reader, *pin);
            Obs { ok_at: None, state: None, wl, text: "new".into() }
        }
        SOp::Cp(claim, state_tick, hash_kind) | SOp::Cpo(claim, state_tick, hash_kind) => {
            // `cp`: state replayed from the (possibly altered) stored history; `cpo`: from the unaltered one
            let src = if matches!(op, SOp::Cpo(..)) {
                r.orig.replay_worldline_state_at(WorldlineId::from_bytes(r.hist.wl), &r.base, wt(*state_tick))
            } else {
                r.clean.replay_worldline_state_at(wl, &r.base, wt(*state_tick))
            };
            let text = match src {
                Err(e) => format!("cp-src:{}", replay_err(&e)),
                Ok(w) => {
                    let hash = match hash_kind {
                        0 => w.state_root(),
                        1 => {
                            if *claim == 0 {
                                b
                            } else {
                                es.get((*claim - 1) as usize).map_or(garbage(1), |e| e.expected.state_root)
                            }
                        }
                        _ => garbage(2),
                    };
                    let mut cp = ReplayCheckpoint::from_state(&w);
                    cp.checkpoint = CheckpointRef { worldline_tick: wt(*claim), state_hash: hash };
                    match r.svc.add_checkpoint(wl, cp) {
                        Ok(()) => "cp-ok".into(),
                        Err(e) => format!("cp-{}", hist_err(&e)),
                    }
                }
            };
            Obs { ok_at: None, state: None, wl, text }
        }
        SOp::Cpt(claim, state_tick, kind, j, a) => {
            let src = r.orig.replay_worldline_state_at(WorldlineId::from_bytes(r.hist.wl), &r.base, wt(*state_tick));
            let text = match src {
                Err(e) => format!("cp-src:{}", replay_err(&e)),
                Ok(w) => {
                    let mut cp = ReplayCheckpoint::from_state(&w);
                    cp.checkpoint.worldline_tick = wt(*claim);
                    match tamper_cp(&mut cp, kind, *j as usize, *a, r.hist.wl) {
                        Err(e) => format!("cpt-bad:{e}"),
                        Ok(()) => match r.svc.add_checkpoint(wl, cp) {
                            Ok(()) => "cp-ok".into(),
                            Err(e) => format!("cp-{}", hist_err(&e)),
                        },
                    }
                }
            };
            Obs { ok_at: None, state: None, wl, text }
        }
        SOp::Fork(k) => {
            let new = WorldlineId::from_bytes(small_id(0xF0 + r.nforks));
            let text = match r.svc.fork(wl, wt(*k), new) {
                Err(e) => format!("fork-{}", hist_err(&e)),
                Ok(()) => {
                    let _ = r.clean.fork(wl, wt(*k), new);
                    r.wl = new;
                    r.nforks += 1;
                    let len = r.svc.len(new).unwrap_or(0);
                    r.cursor = fresh_cursor(new, &r.base, true, len);
                    format!("fork-ok:{len}")
                }
            };
            Obs { ok_at: None, state: None, wl: r.wl, text }
        }
        SOp::Ext(j) => {
            let len = r.svc.len(wl).unwrap_or(0);
            let text = match r.hist.ticks.get(*j as usize).cloned() {
                None => "ext-none".to_string(),
                Some(mut ts) => match r.clean.replay_worldline_state_at(wl, &r.base, wt(len)) {
                    Err(e) => format!("ext-src:{}", replay_err(&e)),
                    Ok(mut tip) => {
                        if let Some(rc) = ts.rcpt.as_mut() {
                            rc.0 = len + 1;
                        }
                        let parents: Vec<ProvenanceRef> = r.svc.tip_ref(wl).ok().flatten().into_iter().collect();
                        match mk_entry(r.hist.warp, *wl.as_bytes(), len, &ts, &mut tip, parents) {
                            Err(e) => format!("ext-bad:{e}"),
                            Ok((e, applied)) => match r.svc.append_local_commit(e.clone()) {
                                Err(err) => format!("ext-{}", hist_err(&err)),
                                Ok(()) => {
                                    let _ = r.clean.append_local_commit(e);
                                    r.ext_applied &= applied;
                                    format!("ext-ok:{}", len + 1)
                                }
                            },
                        }
                    }
                },
            };
            Obs { ok_at: None, state: None, wl, text }
        }
        SOp::Replay(t) => match r.svc.replay_worldline_state_at(wl, &r.base, wt(*t)) {
            Err(e) => Obs { ok_at: None, state: None, wl, text: replay_err(&e) },
            Ok(w) => {
                let text = format!("ok {}", w_tok(&b, &es, &w));
                Obs { ok_at: Some(*t), state: Some(w), wl, text }
            }
        },
    }
}

pub struct Built {
    pub run: Run,
    pub honest: Honest,
    pub header: String,
}

pub fn build_seek(c: &SeekCase) -> Result<Built, String> {
    let honest = honest_history(&c.h)?;
    let mut es = honest.entries.clone();
    for m in &c.muts {
        apply_mut(&mut es, m)?;
    }
    let (svc, n, aerr) = build_service(c.h.wl, &honest.base, &es);
    let (clean, _, _) = build_service(c.h.wl, &honest.base, &es);
    let (orig, _, _) = build_service(c.h.wl, &honest.base, &honest.entries);
    let wl = WorldlineId::from_bytes(c.h.wl);
    let boundary = honest.base.state_root();
    let stored = stored_entries(&svc, wl);
    let tip = stored.last().map_or("-".to_string(), |e| hex(&e.expected.commit_hash));
    let header = format!("built={} app={} tip {} r0 {}", n, aerr.unwrap_or_else(|| "ok".into()), tip, hex(&boundary));
    let cursor = fresh_cursor(wl, &honest.base, true, stored.len() as u64);
    Ok(Built { run: Run { orig, hist: c.h.clone(), ext_applied: true, svc, clean, wl, base: honest.base.clone(), cursor, nforks: 0, boundary }, honest, header })
}

pub fn imp_seek(t: &mut Toks) -> Result<String, String> {
    let c = parse_seek(t)?;
    let mut b = build_seek(&c)?;
    let mut out = b.header.clone();
    for op in &c.ops {
        let o = run_sop(&mut b.run, op);
        out.push_str(" ; ");
        out.push_str(&o.text);
    }
    Ok(out)
}

/// Canonical dump of everything replay materialises (compared between paths by the oracle).
pub fn state_dump(w: &WorldlineState) -> String {
    let hist: Vec<String> = w
        .tick_history()
        .iter()
        .map(|(s, r, p)| {
            format!(
                "{}/{}/{:?}/{}/{}/{}/{}/{}/{}/{}/{}/{}/{}/{:?}",
                s.policy_id,
                hex(&s.root.local_id.0),
                p.commit_status(),
                hex(&s.hash),
                hex(&s.state_root),
                hex(&s.patch_digest),
                s.parents.iter().map(|p| hex(p)).collect::<Vec<_>>().join("+"),
                hex(&s.plan_digest),
                hex(&s.decision_digest),
                hex(&s.rewrites_digest),
                s.tx.value(),
                hex(&r.digest()),
                hex(&p.digest()),
                r.tx()
            )
        })
        .collect();
    let lm: Vec<(Id, Vec<u8>)> = w.last_materialization().iter().map(|c| (c.channel.0, c.data.clone())).collect();
    format!(
        "root={} txc={} ls={:?} tick={} hist=[{}] ls={} lm={} lme={}",
        hex(&w.state_root()),
        warp_core::echo_verif::c05::tx_counter(w),
        w.last_snapshot(),
        w.current_tick().as_u64(),
        hist.join(","),
        w.last_snapshot().map_or("-".into(), |s| hex(&s.hash)),
        outs_tok(&lm),
        w.last_materialization_errors().len()
    )
}

/// Direct oracle: whatever path led to "ok at tick t" must hold exactly the state (root, replay
/// metadata) that replaying 0..t on a checkpoint-free copy of the same worldline yields, and for a
/// history a writer produced that is the root the writer held at t.
fn oracle_seek(t: &mut Toks, _tier: Tier) -> Result<OracleOut, String> {
    let c = parse_seek(t)?;
    let mut o = OracleOut::default();
    let mut b = build_seek(&c)?;
    let valid = c.muts.iter().all(|m| m.kind == "none") && b.honest.all_applied;
    let wl0 = b.run.wl;
    let len0 = b.run.clean.len(wl0).unwrap_or(0);
    // live == replay
    for t in 0..=len0 {
        let r = b.run.clean.replay_worldline_state_at(wl0, &b.run.base, wt(t));
        match (&r, valid) {
            (Ok(w), _) => {
                if valid && w.state_root() != b.honest.live_roots[t as usize] {
                    o.fails.push(("C07.live-differs-from-replay".into(), format!("tick {t}: replayed root differs from the root the writer held")));
                }
                if w.current_tick().as_u64() != t {
                    o.fails.push(("C07.replay-tick-metadata".into(), format!("tick {t}: tick_history length {}", w.current_tick().as_u64())));
                }
            }
            (Err(e), true) => o.fails.push(("C07.replay-rejects-honest-history".into(), format!("tick {t}: {}", replay_err(e)))),
            (Err(_), false) => {}
        }
    }
    let mut branches: Vec<&str> = Vec::new();
    let mut n_ok = 0;
    for op in &c.ops {
        // predicted branch (public information only), for the evidence distribution
        if let SOp::Seek(t) = op {
            let cur = b.run.cursor.current_tick().as_u64();
            let len = b.run.svc.len(b.run.wl).unwrap_or(0);
            let br = if *t > b.run.cursor.pin_max_tick.as_u64() || *t > len {
                "br:rejected"
            } else if *t == cur {
                "br:noop"
            } else if *t < cur {
                "br:back-restore"
            } else if b.run.svc.checkpoint_before(b.run.wl, wt(*t + 1)).is_some_and(|c| c.worldline_tick.as_u64() > cur) {
                "br:fwd-via-checkpoint"
            } else {
                "br:fwd-advance"
            };
            branches.push(br);
        }
        let src_wl = b.run.wl;
        let pre_tick = b.run.cursor.current_tick().as_u64();
        let pre_pin = b.run.cursor.pin_max_tick.as_u64();
        let pre_len = b.run.svc.len(src_wl).unwrap_or(0);
        let obs = run_sop(&mut b.run, op);
        if valid && b.run.ext_applied {
            // on a history a writer produced, every available target must be reachable from anywhere
            if let SOp::Seek(t) = op {
                if *t <= pre_len && *t <= pre_pin && obs.ok_at.is_none() {
                    o.fails.push((
                        "C07.seek-fails-on-honest-history".into(),
                        format!("seek {t} from tick {pre_tick} (len {pre_len}) fails: {}", obs.text.split(' ').next().unwrap_or("")),
                    ));
                }
            }
            if let SOp::Replay(t) = op {
                if *t <= pre_len && obs.ok_at.is_none() {
                    o.fails.push(("C07.replay-fails-on-honest-history".into(), format!("replay {t} (len {pre_len}) fails: {}", obs.text)));
                }
            }
        }
        if let SOp::Fork(k) = op {
            if obs.text.starts_with("fork-ok") {
                let new_len = b.run.svc.len(b.run.wl).unwrap_or(0);
                if new_len != *k + 1 {
                    o.fails.push(("C07.fork-wrong-prefix-length".into(), format!("fork at {k} has {new_len} entries")));
                }
                for j in 0..=(*k + 1) {
                    let a = b.run.clean.replay_worldline_state_at(src_wl, &b.run.base, wt(j));
                    let f = b.run.svc.replay_worldline_state_at(b.run.wl, &b.run.base, wt(j));
                    let same = match (&a, &f) {
                        (Ok(x), Ok(y)) => state_dump(x) == state_dump(y),
                        (Err(x), Err(y)) => replay_err(x) == replay_err(y),
                        _ => false,
                    };
                    if !same {
                        o.fails.push(("C07.fork-replay-differs".into(), format!("fork at {k}: replay to {j} differs from the source")));
                    }
                }
            } else if *k < pre_len {
                o.fails.push(("C07.fork-rejected".into(), format!("fork at {k} of a {pre_len}-entry worldline: {}", obs.text)));
            }
        }
        match op {
            SOp::Cp(..) | SOp::Cpo(..) => o.tags.push(format!("cp:{}", obs.text.split(':').next().unwrap_or(""))),
            SOp::Cpt(_, _, k, _, _) => o.tags.push(format!("cpt:{}:{}", k.split('.').next().unwrap_or(""), obs.text.split(':').next().unwrap_or(""))),
            SOp::Fork(..) => o.tags.push(format!("fork:{}", if obs.text.starts_with("fork-ok") { "ok" } else { "err" })),
            SOp::Step => o.tags.push(format!("step:{}", obs.text.split('@').next().unwrap_or("").split(':').next().unwrap_or(""))),
            _ => {}
        }
        if let (Some(tick), Some(st)) = (obs.ok_at, obs.state.as_ref()) {
            n_ok += 1;
            let reference = b.run.clean.replay_worldline_state_at(obs.wl, &b.run.base, wt(tick));
            match reference {
                Ok(w) => {
                    if w.state_root() != st.state_root() {
                        o.fails.push((
                            "C07.path-dependent-root".into(),
                            format!("op {op:?} reports ok at tick {tick} with root {} but replay 0..{tick} gives {}", hex(&st.state_root()), hex(&w.state_root())),
                        ));
                    } else if state_dump(&w) != state_dump(st) {
                        o.fails.push(("C07.path-dependent-metadata".into(), format!("op {op:?} ok at tick {tick}: {} vs replay {}", state_dump(st), state_dump(&w))));
                    }
                }
                Err(e) => {
                    if tick > 0 || !matches!(op, SOp::Seek(_) | SOp::Step) {
                        o.fails.push((
                            "C07.ok-where-replay-fails".into(),
                            format!("op {op:?} reports ok at tick {tick} but replay 0..{tick} fails with {}", replay_err(&e)),
                        ));
                    }
                }
            }
        }
    }
    branches.sort();
    branches.dedup();
    o.tags.extend(branches.iter().map(|s| s.to_string()));
    o.tags.push(format!("len={}", len0.min(12)));
    o.tags.push(if valid { "history:honest".into() } else { "history:tampered-or-failing".into() });
    o.nontrivial = len0 >= 2 && n_ok >= 2;
    Ok(o)
}

// ------------------------------------------------------------------ generators

pub fn nid(k: u64) -> Id {
    small_id(k)
}

fn gen_att(rng: &mut Rng) -> AttS {
    if rng.chance(1, 3) {
        AttS(None)
    } else {
        let n = rng.below(4) as usize;
        AttS(Some((small_id(0x70 + rng.below(3)), rng.bytes(n))))
    }
}

/// Structure-aware history: mostly applicable patches over a tiny id universe, edges hanging off
/// reachable nodes so that the state root moves every tick.
pub fn gen_hist(rng: &mut Rng, nticks: usize) -> HistS {
    use std::collections::{BTreeMap, BTreeSet};
    let warp = small_id(0x10);
    let wl = small_id(0x20);
    let root = nid(1);
    let mut nodes: BTreeSet<u64> = BTreeSet::new();
    let mut edges: BTreeMap<u64, (u64, u64)> = BTreeMap::new();
    nodes.insert(1);
    let mut bnodes = vec![(root, small_id(0x70), gen_att(rng))];
    for k in 2..=(1 + rng.below(3)) {
        nodes.insert(k);
        bnodes.push((nid(k), small_id(0x70 + rng.below(3)), gen_att(rng)));
    }
    let mut bedges = Vec::new();
    for j in 0..rng.below(3) {
        let s = *rng.pick(&nodes.iter().copied().collect::<Vec<_>>());
        let d = 1 + rng.below(5);
        edges.insert(0x40 + j, (s, d));
        bedges.push((nid(0x40 + j), nid(s), nid(d), small_id(0x78), gen_att(rng)));
    }
    let mut ticks = Vec::new();
    for i in 0..nticks {
        let nops = 1 + rng.below(3);
        let mut ops = Vec::new();
        for _ in 0..nops {
            let valid = rng.chance(29, 30);
            let w = if rng.chance(1, 120) { small_id(0x11) } else { warp };
            let nv: Vec<u64> = nodes.iter().copied().collect();
            let ev: Vec<u64> = edges.keys().copied().collect();
            let op = match rng.below(10) {
                0 | 1 => {
                    let n = 1 + rng.below(6);
                    nodes.insert(n);
                    OpS::Un(w, nid(n), small_id(0x70 + rng.below(4)))
                }
                2 | 3 | 4 => {
                    let s = if valid { *rng.pick(&nv) } else { 1 + rng.below(6) };
                    let d = if rng.chance(3, 4) { *rng.pick(&nv) } else { 1 + rng.below(6) };
                    let id = 0x40 + rng.below(6);
                    edges.insert(id, (s, d));
                    OpS::Ue(w, nid(id), nid(s), nid(d), small_id(0x78 + rng.below(2)))
                }
                5 => {
                    if valid && !ev.is_empty() {
                        let id = *rng.pick(&ev);
                        let (s, _) = edges.remove(&id).unwrap_or((1, 1));
                        OpS::De(w, nid(s), nid(id))
                    } else if valid {
                        OpS::Un(w, nid(*rng.pick(&nv)), small_id(0x70 + rng.below(4)))
                    } else {
                        OpS::De(w, nid(1 + rng.below(6)), nid(0x40 + rng.below(6)))
                    }
                }
                6 => {
                    // delete an isolated non-root node when there is one
                    let iso: Vec<u64> = nv.iter().copied().filter(|n| *n != 1 && !edges.values().any(|(s, d)| s == n || d == n)).collect();
                    if valid && !iso.is_empty() {
                        let n = *rng.pick(&iso);
                        nodes.remove(&n);
                        OpS::Dn(w, nid(n))
                    } else if valid {
                        OpS::Sn(w, nid(*rng.pick(&nv)), gen_att(rng))
                    } else {
                        OpS::Dn(w, nid(1 + rng.below(6)))
                    }
                }
                7 | 8 => {
                    let n = if valid { *rng.pick(&nv) } else { 1 + rng.below(6) };
                    OpS::Sn(w, nid(n), gen_att(rng))
                }
                _ => {
                    if valid && !ev.is_empty() {
                        OpS::Se(w, nid(*rng.pick(&ev)), gen_att(rng))
                    } else if valid {
                        OpS::Sn(w, nid(*rng.pick(&nv)), gen_att(rng))
                    } else {
                        OpS::Se(w, nid(0x40 + rng.below(6)), gen_att(rng))
                    }
                }
            };
            ops.push(op);
        }
        let mk_slots = |rng: &mut Rng| -> Vec<(u64, Id, Id)> {
            (0..rng.below(3)).map(|_| (1 + rng.below(2), warp, nid(1 + rng.below(4)))).collect()
        };
        let in_slots = mk_slots(rng);
        let out_slots = mk_slots(rng);
        let outs: Vec<(Id, Vec<u8>)> = (0..rng.below(3)).map(|_| (small_id(0x90 + rng.below(3)), { let n = rng.below(4) as usize; rng.bytes(n) })).collect();
        let rcpt = if rng.chance(3, 5) {
            None
        } else {
            let es = (0..rng.below(2)).map(|_| (small_id(0x50 + rng.below(2)), small_id(0x58), nid(1 + rng.below(3)), if rng.chance(1, 2) { 1 } else { 3 })).collect();
            Some((i as u64 + 1, es))
        };
        ticks.push(TickS {
            policy: rng.below(3) as u32,
            rule_pack: small_id(0x60 + rng.below(2)),
            gtick: if rng.chance(4, 5) { i as u64 + 1 } else { rng.below(9) },
            plan: small_id(0x62 + rng.below(2)),
            decision: if rcpt.is_some() || rng.chance(1, 2) { None } else { Some(small_id(0x64 + rng.below(2))) },
            rewrites: small_id(0x66 + rng.below(2)),
            pwarp: if rng.chance(1, 80) { small_id(0x11) } else { warp },
            in_slots,
            out_slots,
            ops,
            outs,
            rcpt,
        });
    }
    HistS { wl, warp, root, nodes: bnodes, edges: bedges, ticks }
}

pub fn sops_tok(ops: &[String]) -> String {
    // an element may hold several ops ("mode play step")
    let n: usize = ops.iter().map(|o| 1 + o.matches(" step").count() + o.matches(" ext").count() + o.matches(" seek").count() + o.matches(" pin").count() + o.matches(" cpt").count() + o.matches(" replay").count()).sum();
    format!("{} {}", n, ops.join(" "))
}

fn gen_seek(rng: &mut Rng, tier: Tier) -> Vec<String> {
    let mut out = Vec::new();
    let thorough = tier == Tier::Thorough;
    // (1) random op sequences over random histories
    let n_random = if thorough { 1500 } else { 220 };
    for case in 0..n_random {
        let len = if case % 9 == 0 { rng.range(7, 12) } else { rng.range(1, 6) } as usize;
        let h = gen_hist(rng, len);
        let mut muts = Vec::new();
        if rng.chance(1, 6) {
            let kinds = ["e.root", "e.pdig", "p.op.add", "p.op.ty", "p.digest", "e.outs", "p.plan", "e.rcpt.drop", "p.decision", "p.op.rev"];
            muts.push(Mut { kind: rng.pick(&kinds).to_string(), i: rng.below(len as u64) as usize, a: rng.below(3) });
        }
        let l = len as u64;
        let mut ops: Vec<String> = Vec::new();
        let nops = rng.range(5, 14);
        for _ in 0..nops {
            let t = rng.below(l + 2);
            ops.push(match rng.below(21) {
                20 => {
                    // a tampered checkpoint behind an honest one (its altered index before / after it)
                    let m = 1 + rng.below(l);
                    let k = rng.below(m + 1);
                    let (kind, indexed) = *rng.pick(&CP_TAMPERS);
                    let j = if indexed { rng.below(m) } else { 0 };
                    format!("cp {k} {k} 0 cpt {m} {m} {kind} {j} {} replay {m} seek {}", l + 2 + rng.below(2), (m + rng.below(2)).min(l))
                }
                0..=7 => format!("seek {t}"),
                8 | 9 | 10 => {
                    let c = rng.below(l + 1);
                    match rng.below(8) {
                        0 => format!("cp {} {} {}", c, rng.below(l + 1), rng.below(3)),
                        _ => format!("cp {c} {c} 0"),
                    }
                }
                11 => format!("replay {t}"),
                12 => {
                    if rng.chance(1, 2) {
                        format!("fork {}", rng.below(l + 1))
                    } else {
                        format!("fork {} ext {} ext {} pin {} seek {}", rng.below(l + 1), rng.below(l), rng.below(l), l + 2, rng.below(l + 2))
                    }
                }
                13 => format!("mode {}", rng.pick(&["paused", "play", "fwd", "back"])),
                14 => format!("modeseek {} {} step", t, rng.below(2)),
                15 | 16 => format!("mode {} step", rng.pick(&["play", "fwd", "back", "play"])),
                17 => "step".into(),
                18 => format!("pin {}", rng.below(l + 2)),
                _ => format!("new {} {}", if rng.chance(4, 5) { "r" } else { "w" }, if rng.chance(3, 4) { l } else { rng.below(l + 1) }),
            });
        }
        out.push(format!("{} {} {}", hist_tok(&h), muts_tok(&muts), sops_tok(&ops)));
    }
    // (2) every (start, target) pair under a checkpoint subset, for short honest histories
    let n_hist = if thorough { 12 } else { 3 };
    for _ in 0..n_hist {
        let len = if thorough { rng.range(3, 6) } else { rng.range(3, 4) };
        let mut h = gen_hist(rng, len as usize);
        // keep these honest: every op in the base warp
        for t in &mut h.ticks {
            t.pwarp = h.warp;
        }
        let subsets: Vec<u64> = if thorough { (0..(1u64 << (len + 1))).collect() } else { (0..6).map(|_| rng.below(1u64 << (len + 1))).collect() };
        for mask in subsets {
            let mut ops: Vec<String> = Vec::new();
            for c in 0..=len {
                if mask >> c & 1 == 1 {
                    ops.push(format!("cp {c} {c} 0"));
                }
            }
            for s in 0..=len {
                for t in 0..=len {
                    ops.push(format!("new r {len}"));
                    ops.push(format!("seek {s}"));
                    ops.push(format!("seek {t}"));
                }
            }
            // the same on a fork at every tick
            for k in (0..len).rev() {
                ops.push(format!("fork {k}"));
                ops.push(format!("seek {}", k + 1));
                ops.push("seek 0".into());
                ops.push(format!("replay {}", k + 1));
            }
            // diverge the last fork and walk it (stale source checkpoints must not be used)
            ops.push("ext 0".into());
            ops.push("ext 1".into());
            ops.push("new r 3".into());
            for t in [2u64, 3, 1, 3, 0, 2] {
                ops.push(format!("seek {t}"));
            }
            out.push(format!("{} 0 {}", hist_tok(&h), sops_tok(&ops)));
        }
    }
    out
}
