//! C05 — history is hash-chained and tamper-evident.
//! A real history is built, ONE retained field (of a `ProvenanceEntry`, its `WorldlineTickPatchV1`,
//! its receipt, or a checkpoint) is altered through the public fields — or the entry list is edited
//! structurally — the store is rebuilt through `append_local_commit`, and the result is probed with
//! `replay_worldline_state_at`, `PlaybackCursor::seek_to`, `add_checkpoint`, `fork`.
//! Case language, real-code plumbing and model are shared with c07.rs (`C07.seek`).
use crate::c07::{
    build_seek, gen_hist, hist_tok, imp_seek, muts_tok, outs_tok, parse_seek, replay_err, run_sop, sops_tok, wt, Id,
    Mut, SOp,
};
use crate::prng::Rng;
use crate::util::{hex, Toks};
use crate::{OracleOut, Stream, Tier};
use warp_core::{WorldlineId, WorldlineState};

pub fn streams() -> Vec<Stream> {
    vec![Stream { name: "C05.mutate", gen: gen_mutate, imp: imp_seek, oracle: oracle_mutate }]
}

/// every mutation kind of the catalogue: (kind, needs an op/slot index argument)
const ENTRY_MUTS: [&str; 40] = [
    "e.root", "e.pdig", "e.commit", "e.parent", "e.ptick", "e.pwl", "e.pdrop", "e.tick", "e.wl", "e.gtick",
    "e.headid", "e.headwl", "e.nohead", "e.kind", "e.outs", "e.aw", "e.rcpt.drop", "e.rcpt.tx", "e.rcpt.entry",
    "e.nopatch", "p.digest", "p.policy", "p.rulepack", "p.plan", "p.decision", "p.rewrites", "p.gtick", "p.warp",
    "p.op.add", "p.op.drop", "p.op.rev", "p.op.dup", "p.op.ty", "p.in.add", "p.out.add", "p.in.drop", "p.out.drop",
    "swap", "dup", "drop",
];

/// The part of a replayed state the chain is supposed to bind.
fn bound_view(w: &WorldlineState) -> String {
    let hist: Vec<String> = w
        .tick_history()
        .iter()
        .map(|(s, _, p)| {
            format!(
                "{}/{}/{}/{}/{}/{}/{}",
                hex(&s.hash),
                hex(&s.state_root),
                hex(&s.patch_digest),
                s.parents.iter().map(|p| hex(p)).collect::<Vec<_>>().join("+"),
                s.policy_id,
                s.tx.value(),
                hex(&p.digest())
            )
        })
        .collect();
    format!("root={} tick={} hist=[{}]", hex(&w.state_root()), w.current_tick().as_u64(), hist.join(","))
}

fn mat_view(w: &WorldlineState) -> String {
    let lm: Vec<(Id, Vec<u8>)> = w.last_materialization().iter().map(|c| (c.channel.0, c.data.clone())).collect();
    outs_tok(&lm)
}

/// Diagnostic, documented-as-unbound part (header digests, receipts).
fn diag_view(w: &WorldlineState) -> String {
    w.tick_history()
        .iter()
        .map(|(s, r, _)| format!("{}/{}/{}/{}", hex(&s.plan_digest), hex(&s.decision_digest), hex(&s.rewrites_digest), hex(&r.digest())))
        .collect::<Vec<_>>()
        .join(",")
}

/// Direct oracle: whatever was altered, every probe that reports success at tick t must hold what the
/// UNALTERED history replays to at t. A different graph state / chain metadata is a violation; a
/// different `last_materialization` is reported under its own key (the outputs are retained but not
/// committed to); differences confined to the diagnostic header digests / receipts are tagged only.
fn oracle_mutate(t: &mut Toks, _tier: Tier) -> Result<OracleOut, String> {
    let c = parse_seek(t)?;
    let mut o = OracleOut::default();
    let mut b = build_seek(&c)?;
    let kind = c.muts.first().map_or("none".to_string(), |m| m.kind.clone());
    let orig_wl = WorldlineId::from_bytes(c.h.wl);
    let orig_len = b.run.orig.len_of(orig_wl);
    // the chain invariant, evaluated directly on what the store accepted
    {
        use warp_core::ProvenanceStore;
        let n = b.run.svc.len(orig_wl).unwrap_or(0);
        for i in 0..n {
            let Ok(e) = b.run.svc.entry(orig_wl, wt(i)) else { continue };
            if e.worldline_tick.as_u64() != i || e.worldline_id != orig_wl {
                o.fails.push((format!("C05.chain-invariant.tick.{kind}"), format!("stored entry {i} carries tick {} / another worldline", e.worldline_tick.as_u64())));
            }
            for p in &e.parents {
                let ok = b.run.svc.entry(p.worldline_id, p.worldline_tick).map(|s| s.expected.commit_hash == p.commit_hash).unwrap_or(false);
                if !ok {
                    o.fails.push((format!("C05.chain-invariant.parent.{kind}"), format!("stored entry {i} names a parent that is absent or has another commit hash")));
                }
            }
            if e.head_key.map(|h| h.worldline_id) != Some(orig_wl) || e.patch.is_none() {
                o.fails.push((format!("C05.chain-invariant.local-commit.{kind}"), format!("stored entry {i} lacks head key / patch")));
            }
        }
    }
    let mut n_ok = 0;
    let mut n_err = 0;
    let mut identical = 0;
    for op in &c.ops {
        let obs = run_sop(&mut b.run, op);
        if matches!(op, SOp::Cp(..) | SOp::Cpo(..)) {
            o.tags.push(format!("cp:{}", obs.text.split(':').next().unwrap_or("")));
        }
        let (Some(tick), Some(st)) = (obs.ok_at, obs.state.as_ref()) else {
            if matches!(op, SOp::Seek(_) | SOp::Replay(_) | SOp::Step) {
                n_err += 1;
                o.tags.push(format!("err:{}", obs.text.split(|c| c == '@' || c == ' ').next().unwrap_or("").split(':').next().unwrap_or("")));
            }
            continue;
        };
        n_ok += 1;
        if tick > orig_len {
            o.fails.push((format!("C05.accepted-beyond-history.{kind}"), format!("op {op:?} ok at tick {tick} but the unaltered history has {orig_len} entries")));
            continue;
        }
        match b.run.orig.replay_worldline_state_at(orig_wl, &b.run.base, wt(tick)) {
            Err(e) => {
                // the unaltered history itself does not verify up to here (non-applying patch)
                o.fails.push((
                    format!("C05.accepted-where-original-fails.{kind}"),
                    format!("op {op:?} ok at tick {tick}; the unaltered history fails there with {}", replay_err(&e)),
                ));
            }
            Ok(w0) => {
                if bound_view(&w0) != bound_view(st) {
                    o.fails.push((
                        format!("C05.accepted-different-state.{kind}"),
                        format!("op {op:?} ok at tick {tick}: {} vs original {}", bound_view(st), bound_view(&w0)),
                    ));
                } else if mat_view(&w0) != mat_view(st) {
                    o.fails.push((
                        format!("C05.unbound.outputs.{kind}"),
                        format!("op {op:?} ok at tick {tick}: last_materialization {} vs original {}", mat_view(st), mat_view(&w0)),
                    ));
                } else if diag_view(&w0) != diag_view(st) {
                    o.tags.push(format!("diag-differs:{kind}"));
                } else {
                    identical += 1;
                }
            }
        }
    }
    o.tags.push(format!("mut:{kind}"));
    o.tags.push(format!("built:{}", if b.header.contains("app=ok") { "all" } else { "append-rejected" }));
    if n_err > 0 {
        o.tags.push("outcome:typed-error".into());
    }
    if identical > 0 {
        o.tags.push("outcome:identical".into());
    }
    o.nontrivial = kind != "none" && n_ok + n_err >= 2;
    Ok(o)
}

trait LenOf {
    fn len_of(&self, wl: WorldlineId) -> u64;
}
impl LenOf for warp_core::ProvenanceService {
    fn len_of(&self, wl: WorldlineId) -> u64 {
        use warp_core::ProvenanceStore;
        self.len(wl).unwrap_or(0)
    }
}

fn probes(rng: &mut Rng, len: u64, i: u64) -> Vec<String> {
    let mut ops: Vec<String> = Vec::new();
    // replay to every tick, then walk a cursor across the altered position in both directions
    for t in 0..=len {
        ops.push(format!("replay {t}"));
    }
    ops.push(format!("new r {len}"));
    ops.push(format!("seek {len}"));
    ops.push(format!("seek {}", i.min(len)));
    ops.push(format!("seek {}", (i + 1).min(len)));
    ops.push("seek 0".into());
    ops.push(format!("seek {}", (i + 1).min(len)));
    // a checkpoint taken from the unaltered history just after the altered entry, and one before it
    let c1 = (i + 1).min(len);
    ops.push(format!("cpo {c1} {c1} 0"));
    ops.push(format!("cpo {} {} 0", i.min(len), i.min(len)));
    if rng.chance(1, 2) {
        // tampered checkpoint fields: claimed tick / state / hash
        let claim = rng.below(len + 1);
        ops.push(format!("cpo {} {} {}", claim, rng.below(len + 1), rng.below(3)));
    }
    ops.push(format!("replay {len}"));
    ops.push(format!("new r {len}"));
    ops.push(format!("seek {len}"));
    ops.push(format!("seek {c1}"));
    // checkpoint derived from the altered store itself, then a fork of the altered store
    ops.push(format!("cp {len} {len} 0"));
    ops.push(format!("replay {len}"));
    if len > 0 {
        let k = rng.below(len);
        ops.push(format!("fork {k}"));
        ops.push(format!("seek {}", k + 1));
        ops.push(format!("replay {}", k + 1));
    }
    ops
}

fn gen_mutate(rng: &mut Rng, tier: Tier) -> Vec<String> {
    let thorough = tier == Tier::Thorough;
    let mut out = Vec::new();
    let n_hist = if thorough { 30 } else { 6 };
    for hno in 0..n_hist {
        let len = if thorough { rng.range(2, 12) } else { rng.range(2, 6) };
        let mut h = gen_hist(rng, len as usize);
        // the unaltered history must be one a writer produced: base warp everywhere, receipts on most ticks
        for (i, t) in h.ticks.iter_mut().enumerate() {
            t.pwarp = h.warp;
            if i % 2 == hno % 2 && t.rcpt.is_none() {
                t.rcpt = Some((i as u64 + 1, Vec::new()));
                t.decision = None;
            }
        }
        // control: no alteration
        out.push(format!("{} {} {}", hist_tok(&h), muts_tok(&[Mut { kind: "none".into(), i: 0, a: 0 }]), sops_tok(&probes(rng, len, 0))));
        // every kind × (all positions in thorough, 2 sampled positions in quick)
        let positions: Vec<u64> = if thorough { (0..len).collect() } else { vec![rng.below(len), len - 1 - rng.below(2.min(len))] };
        for kind in ENTRY_MUTS {
            for &i in &positions {
                let nops = h.ticks[i as usize].ops.len() as u64;
                let a = match kind {
                    "p.op.drop" | "p.op.ty" => rng.below(nops.max(1)),
                    "p.in.drop" => rng.below((h.ticks[i as usize].in_slots.len() as u64).max(1)),
                    "p.out.drop" => rng.below((h.ticks[i as usize].out_slots.len() as u64).max(1)),
                    "e.tick" | "e.ptick" => rng.below(len + 2),
                    "e.rcpt.tx" => rng.below(len + 2),
                    "p.policy" => 3 + rng.below(3),
                    "e.gtick" | "p.gtick" => 50 + rng.below(5),
                    _ => rng.below(3),
                };
                let m = Mut { kind: kind.to_string(), i: i as usize, a };
                out.push(format!("{} {} {}", hist_tok(&h), muts_tok(&[m]), sops_tok(&probes(rng, len, i))));
            }
        }
        // truncation at every length
        for i in 0..len {
            let m = Mut { kind: "trunc".into(), i: i as usize, a: 0 };
            out.push(format!("{} {} {}", hist_tok(&h), muts_tok(&[m]), sops_tok(&probes(rng, len, i))));
        }
    }
    out
}
