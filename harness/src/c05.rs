//! C05 — history is hash-chained and tamper-evident.
//! A real history is built, ONE retained field (of a `ProvenanceEntry`, its `WorldlineTickPatchV1`,
//! its receipt, or a checkpoint) is altered through the public fields — or the entry list is edited
//! structurally — the store is rebuilt through `append_local_commit`, and the result is probed with
//! `replay_worldline_state_at`, `PlaybackCursor::seek_to`, `add_checkpoint`, `fork`.
//! Case language, real-code plumbing and model are shared with c07.rs (`C07.seek`).
use crate::c07::{
    build_seek, gen_hist, hist_tok, imp_seek, muts_tok, outs_tok, parse_seek, replay_err, run_sop, sops_tok, wt, HistS,
    Id, Mut, SOp, CP_TAMPERS,
};
use crate::prng::Rng;
use crate::util::{hex, Toks};
use crate::{OracleOut, Stream, Tier};
use warp_core::{WorldlineId, WorldlineState};

pub fn streams() -> Vec<Stream> {
    vec![Stream { name: "C05.mutate", gen: gen_mutate, imp: imp_seek, oracle: oracle_mutate }]
}

/// every mutation kind of the catalogue: (kind, needs an op/slot index argument)
const ENTRY_MUTS: [&str; 43] = [
    "e.root", "e.pdig", "e.commit", "e.parent", "e.ptick", "e.pwl", "e.pdrop", "e.tick", "e.wl", "e.gtick",
    "e.headid", "e.headwl", "e.nohead", "e.kind", "e.outs", "e.aw", "e.rcpt.drop", "e.rcpt.tx", "e.rcpt.entry",
    "e.nopatch", "p.digest", "p.policy", "p.rulepack", "p.plan", "p.decision", "p.rewrites", "p.gtick", "p.warp",
    "p.op.add", "p.op.drop", "p.op.rev", "p.op.dup", "p.op.ty", "p.in.add", "p.out.add", "p.in.drop", "p.out.drop",
    "swap", "dup", "drop", "e.p2.desc", "e.p2.asc", "e.p2.dup",
];

/// The part of a replayed state the chain is supposed to bind.
fn bound_view(w: &WorldlineState) -> String {
    let hist: Vec<String> = w
        .tick_history()
        .iter()
        .map(|(s, _, p)| {
            format!(
                "{}/{}/{}/{}/{}/{}/{}",
                hex(&s.hash),
                hex(&s.state_root),
                hex(&s.patch_digest),
                s.parents.iter().map(|p| hex(p)).collect::<Vec<_>>().join("+"),
                s.policy_id,
                s.tx.value(),
                hex(&p.digest())
            )
        })
        .collect();
    format!("root={} tick={} hist=[{}]", hex(&w.state_root()), w.current_tick().as_u64(), hist.join(","))
}

fn mat_view(w: &WorldlineState) -> String {
    let lm: Vec<(Id, Vec<u8>)> = w.last_materialization().iter().map(|c| (c.channel.0, c.data.clone())).collect();
    outs_tok(&lm)
}

/// Diagnostic, documented-as-unbound part (header digests, receipts).
fn diag_view(w: &WorldlineState) -> String {
    w.tick_history()
        .iter()
        .map(|(s, r, _)| format!("{}/{}/{}/{}", hex(&s.plan_digest), hex(&s.decision_digest), hex(&s.rewrites_digest), hex(&r.digest())))
        .collect::<Vec<_>>()
        .join(",")
}

/// Every retained field of a replayed `WorldlineState` (what a reader of the state can observe).
fn full_view(w: &WorldlineState) -> String {
    use warp_core::echo_verif::c05 as hk;
    format!(
        "root={} key={:?} boundary={} txc={} ingress={} th={:?} ls={:?} lm={:?} lme={:?}",
        hex(&w.state_root()),
        w.root(),
        hex(&warp_core::echo_verif::state::state_root(w.initial_state(), w.root())),
        hk::tx_counter(w),
        hk::committed_ingress_len(w),
        w.tick_history(),
        w.last_snapshot(),
        w.last_materialization(),
        w.last_materialization_errors()
    )
}

/// Direct oracle: whatever was altered, every probe that reports success at tick t must hold what the
/// UNALTERED history replays to at t. A different graph state / chain metadata is a violation; a
/// different `last_materialization` is reported under its own key (the outputs are retained but not
/// committed to); differences confined to the diagnostic header digests / receipts are tagged only.
fn oracle_mutate(t: &mut Toks, _tier: Tier) -> Result<OracleOut, String> {
    let c = parse_seek(t)?;
    let mut o = OracleOut::default();
    let mut b = build_seek(&c)?;
    let kind = c.muts.first().map_or("none".to_string(), |m| m.kind.clone());
    let orig_wl = WorldlineId::from_bytes(c.h.wl);
    let orig_len = b.run.orig.len_of(orig_wl);
    // the chain invariant, evaluated directly on what the store accepted
    {
        use warp_core::ProvenanceStore;
        let n = b.run.svc.len(orig_wl).unwrap_or(0);
        for i in 0..n {
            let Ok(e) = b.run.svc.entry(orig_wl, wt(i)) else { continue };
            if e.worldline_tick.as_u64() != i || e.worldline_id != orig_wl {
                o.fails.push((format!("C05.chain-invariant.tick.{kind}"), format!("stored entry {i} carries tick {} / another worldline", e.worldline_tick.as_u64())));
            }
            for p in &e.parents {
                let ok = b.run.svc.entry(p.worldline_id, p.worldline_tick).map(|s| s.expected.commit_hash == p.commit_hash).unwrap_or(false);
                if !ok {
                    o.fails.push((format!("C05.chain-invariant.parent.{kind}"), format!("stored entry {i} names a parent that is absent or has another commit hash")));
                }
            }
            if e.head_key.map(|h| h.worldline_id) != Some(orig_wl) || e.patch.is_none() {
                o.fails.push((format!("C05.chain-invariant.local-commit.{kind}"), format!("stored entry {i} lacks head key / patch")));
            }
        }
    }
    let mut n_ok = 0;
    let mut n_err = 0;
    let mut identical = 0;
    // the most recent tampered checkpoint `add_checkpoint` accepted (field kind), and the honest ones before it
    let mut cpt_accepted: Option<String> = None;
    let mut has_cpt = false;
    let mut honest_cps: Vec<u64> = Vec::new();
    for op in &c.ops {
        let obs = run_sop(&mut b.run, op);
        if let SOp::Cp(claim, st, 0) | SOp::Cpo(claim, st, 0) = op {
            if claim == st && obs.text == "cp-ok" {
                honest_cps.push(*claim);
            }
        }
        if matches!(op, SOp::Cp(..) | SOp::Cpo(..)) {
            o.tags.push(format!("cp:{}", obs.text.split(':').next().unwrap_or("")));
        }
        if let SOp::Cpt(claim, st, k, j, _) = op {
            has_cpt = true;
            let class = obs.text.split(':').next().unwrap_or("").to_string();
            o.tags.push(format!("cpt:{k}:{class}"));
            o.tags.push(format!("cpt-after:{}", honest_cps.len().min(3)));
            let indexed = CP_TAMPERS.iter().any(|(n, ix)| n == k && *ix);
            for h in &honest_cps {
                // position of the earlier honest checkpoint relative to the tampered tick_history index / tick
                let rel = if h == claim {
                    "same-tick"
                } else if h > claim {
                    "later-tick"
                } else if !indexed {
                    "earlier-tick"
                } else if *h <= *j {
                    "before-index"
                } else if *h == *j + 1 {
                    "at-index"
                } else {
                    "after-index"
                };
                o.tags.push(format!("cpt-rel:{rel}"));
            }
            if claim != st {
                o.tags.push("cpt:claim-differs".into());
            }
            if obs.text == "cp-ok" && k != "none" {
                cpt_accepted = Some(k.clone());
            }
        }
        let (Some(tick), Some(st)) = (obs.ok_at, obs.state.as_ref()) else {
            if matches!(op, SOp::Seek(_) | SOp::Replay(_) | SOp::Step) {
                n_err += 1;
                o.tags.push(format!("err:{}", obs.text.split(|c| c == '@' || c == ' ').next().unwrap_or("").split(':').next().unwrap_or("")));
            }
            continue;
        };
        n_ok += 1;
        if tick > orig_len {
            o.fails.push((format!("C05.accepted-beyond-history.{kind}"), format!("op {op:?} ok at tick {tick} but the unaltered history has {orig_len} entries")));
            continue;
        }
        match b.run.orig.replay_worldline_state_at(orig_wl, &b.run.base, wt(tick)) {
            Err(e) => {
                // the unaltered history itself does not verify up to here (non-applying patch)
                o.fails.push((
                    format!("C05.accepted-where-original-fails.{kind}"),
                    format!("op {op:?} ok at tick {tick}; the unaltered history fails there with {}", replay_err(&e)),
                ));
            }
            Ok(w0) => {
                if let Some(k) = cpt_accepted.as_ref().filter(|_| full_view(&w0) != full_view(st)) {
                    // a tampered checkpoint was accepted and a later reading differs from the untampered history's
                    o.fails.push((
                        format!("C05.checkpoint-tamper-accepted.{k}"),
                        format!("after add_checkpoint accepted a checkpoint with altered `{k}`, op {op:?} ok at tick {tick} reads {} but the untampered history gives {}", full_view(st), full_view(&w0)),
                    ));
                } else if bound_view(&w0) != bound_view(st) {
                    o.fails.push((
                        format!("C05.accepted-different-state.{kind}"),
                        format!("op {op:?} ok at tick {tick}: {} vs original {}", bound_view(st), bound_view(&w0)),
                    ));
                } else if mat_view(&w0) != mat_view(st) {
                    o.fails.push((
                        format!("C05.unbound.outputs.{kind}"),
                        format!("op {op:?} ok at tick {tick}: last_materialization {} vs original {}", mat_view(st), mat_view(&w0)),
                    ));
                } else if diag_view(&w0) != diag_view(st) {
                    o.tags.push(format!("diag-differs:{kind}"));
                } else {
                    identical += 1;
                }
            }
        }
    }
    o.tags.push(format!("mut:{kind}"));
    o.tags.push(format!("built:{}", if b.header.contains("app=ok") { "all" } else { "append-rejected" }));
    if n_err > 0 {
        o.tags.push("outcome:typed-error".into());
    }
    if identical > 0 {
        o.tags.push("outcome:identical".into());
    }
    if cpt_accepted.is_some() {
        o.tags.push("cpt:accepted-identical".into());
    }
    o.nontrivial = (kind != "none" || has_cpt) && n_ok + n_err >= 2;
    Ok(o)
}

trait LenOf {
    fn len_of(&self, wl: WorldlineId) -> u64;
}
impl LenOf for warp_core::ProvenanceService {
    fn len_of(&self, wl: WorldlineId) -> u64 {
        use warp_core::ProvenanceStore;
        self.len(wl).unwrap_or(0)
    }
}

fn probes(rng: &mut Rng, len: u64, i: u64) -> Vec<String> {
    let mut ops: Vec<String> = Vec::new();
    // replay to every tick, then walk a cursor across the altered position in both directions
    for t in 0..=len {
        ops.push(format!("replay {t}"));
    }
    ops.push(format!("new r {len}"));
    ops.push(format!("seek {len}"));
    ops.push(format!("seek {}", i.min(len)));
    ops.push(format!("seek {}", (i + 1).min(len)));
    ops.push("seek 0".into());
    ops.push(format!("seek {}", (i + 1).min(len)));
    // a checkpoint taken from the unaltered history just after the altered entry, and one before it
    let c1 = (i + 1).min(len);
    ops.push(format!("cpo {c1} {c1} 0"));
    ops.push(format!("cpo {} {} 0", i.min(len), i.min(len)));
    if rng.chance(1, 2) {
        // tampered checkpoint fields: claimed tick / state / hash
        let claim = rng.below(len + 1);
        ops.push(format!("cpo {} {} {}", claim, rng.below(len + 1), rng.below(3)));
    }
    ops.push(format!("replay {len}"));
    ops.push(format!("new r {len}"));
    ops.push(format!("seek {len}"));
    ops.push(format!("seek {c1}"));
    // checkpoint derived from the altered store itself, then a fork of the altered store
    ops.push(format!("cp {len} {len} 0"));
    ops.push(format!("replay {len}"));
    if len > 0 {
        let k = rng.below(len);
        ops.push(format!("fork {k}"));
        ops.push(format!("seek {}", k + 1));
        ops.push(format!("replay {}", k + 1));
    }
    ops
}

/// Honest-checkpoint configurations (0, 1 or 2 earlier honest checkpoints) relative to a tampered
/// checkpoint at tick `m` whose altered tick_history index is `j` (`None`: a state-level field).
fn honest_configs(rng: &mut Rng, j: Option<u64>, m: u64, len: u64) -> Vec<Vec<u64>> {
    let mut reps: Vec<u64> = Vec::new();
    let mut class = |rng: &mut Rng, lo: u64, hi: u64| {
        // one representative tick of [lo, hi]
        if lo <= hi {
            reps.push(lo + rng.below(hi - lo + 1));
        }
    };
    class(rng, 0, 0);
    match j {
        Some(j) => {
            class(rng, 1, j.min(m.saturating_sub(1))); // before the altered index
            if j + 1 < m {
                class(rng, j + 1, j + 1); // its tick_history ends at the altered index
            }
            if m > 0 {
                class(rng, j + 2, m - 1); // strictly after the altered index, before the tampered tick
            }
        }
        None => {
            if m > 0 {
                class(rng, 1, m - 1)
            }
        }
    }
    class(rng, m, m); // same tick: replaced by the tampered one
    class(rng, m + 1, len); // later tick
    reps.sort();
    reps.dedup();
    let mut cfgs: Vec<Vec<u64>> = vec![Vec::new()];
    for (x, a) in reps.iter().enumerate() {
        cfgs.push(vec![*a]);
        for b in &reps[x + 1..] {
            cfgs.push(vec![*a, *b]);
        }
    }
    cfgs
}

/// Probes that restore from the checkpoint at tick `m` (replay / seek / step), and around it.
fn cp_probes(m: u64, len: u64) -> Vec<String> {
    let mut ops: Vec<String> = Vec::new();
    for t in m.saturating_sub(1)..=len {
        ops.push(format!("replay {t}"));
    }
    ops.push(format!("new r {len}"));
    ops.push(format!("seek {m}"));
    ops.push(format!("seek {len}"));
    ops.push("seek 0".into());
    ops.push(format!("seek {}", (m + 1).min(len)));
    ops.push(format!("seek {m}"));
    ops.push("mode fwd step".into());
    ops.push("mode back step".into());
    ops.push(format!("new r {len}"));
    ops.push("mode play step".into());
    ops.push(format!("modeseek {m} 1 step"));
    ops.push("step".into());
    ops
}

/// Checkpoint tampering: every retained field of a `ReplayCheckpoint` (every tick_history index),
/// placed after 0 / 1 / 2 honest checkpoints at every relative position, followed by readers.
fn gen_cp_tamper(rng: &mut Rng, thorough: bool, h: &HistS, out: &mut Vec<String>) {
    let len = h.ticks.len() as u64;
    let none = muts_tok(&[Mut { kind: "none".into(), i: 0, a: 0 }]);
    let mut rot = 0usize;
    for (kind, indexed) in CP_TAMPERS {
        // tampered checkpoint ticks: the tip and one inner tick (all in thorough)
        let ms: Vec<u64> = if thorough { (0..=len).collect() } else {
            let mut v = vec![len, 1 + rng.below(len - 1)];
            if kind.starts_with("ls.") || kind.starts_with("lm.") {
                v.push(0);
            }
            v.dedup();
            v
        };
        for (mi, &m) in ms.iter().enumerate() {
            let js: Vec<Option<u64>> = if !indexed {
                vec![None]
            } else if kind == "th.swap" {
                (0..m.saturating_sub(1)).map(Some).collect()
            } else {
                (0..m).map(Some).collect()
            };
            for j in js {
                let cfgs = honest_configs(rng, j, m, len);
                // quick: the empty configuration once per kind, plus three rotating through the list
                let pick: Vec<usize> = if thorough {
                    (0..cfgs.len()).collect()
                } else {
                    let mut v: Vec<usize> = (0..3).map(|x| 1 + (rot + x * 5) % (cfgs.len() - 1).max(1)).filter(|x| *x < cfgs.len()).collect();
                    if mi == 0 && j.map_or(true, |j| j == 0) {
                        v.push(0);
                    }
                    v.sort();
                    v.dedup();
                    v
                };
                rot += 1;
                for ci in pick {
                    let a = match kind {
                        "th.s.tx" | "th.r.tx" | "ls.tx" | "txc" => len + 2 + rng.below(3),
                        "th.p.op.drop" | "th.p.in.drop" | "th.p.out.drop" => 0,
                        _ => rng.below(3),
                    };
                    let mut ops: Vec<String> = cfgs[ci].iter().map(|k| format!("cpo {k} {k} 0")).collect();
                    ops.push(format!("cpt {m} {m} {kind} {} {a}", j.unwrap_or(0)));
                    ops.extend(cp_probes(m, len));
                    out.push(format!("{} {} {}", hist_tok(h), none, sops_tok(&ops)));
                }
            }
        }
    }
    // control: an untampered `cpt` after two honest checkpoints
    let mut ops = vec!["cpo 1 1 0".to_string(), format!("cpo {} {} 0", len - 1, len - 1), format!("cpt {len} {len} none 0 0")];
    ops.extend(cp_probes(len, len));
    out.push(format!("{} {} {}", hist_tok(h), none, sops_tok(&ops)));
}

fn gen_mutate(rng: &mut Rng, tier: Tier) -> Vec<String> {
    let thorough = tier == Tier::Thorough;
    let mut out = Vec::new();
    let n_hist = if thorough { 30 } else { 6 };
    for hno in 0..n_hist {
        let len = if thorough { rng.range(2, 12) } else if hno < 2 { 5 - hno as u64 } else { rng.range(2, 6) };
        let cp_tamper = len >= 3 && (thorough && hno < 6 || hno < 2);
        let mut h = gen_hist(rng, len as usize);
        if cp_tamper {
            // the checkpoint-tamper cases need a history on which every patch applies (else there is no
            // honest state to package); the real code is only used to reject candidates
            for _ in 0..40 {
                for t in h.ticks.iter_mut() {
                    t.pwarp = h.warp;
                }
                if crate::c07::honest_history(&h).map_or(false, |x| x.all_applied) {
                    break;
                }
                h = gen_hist(rng, len as usize);
            }
        }
        // the unaltered history must be one a writer produced: base warp everywhere, receipts on most ticks
        for (i, t) in h.ticks.iter_mut().enumerate() {
            t.pwarp = h.warp;
            if i % 2 == hno % 2 && t.rcpt.is_none() {
                t.rcpt = Some((i as u64 + 1, Vec::new()));
                t.decision = None;
            }
            if cp_tamper {
                if let Some(r) = t.rcpt.as_mut() {
                    if r.1.is_empty() {
                        // a non-empty receipt, so that replacing it by the empty one is an alteration
                        r.1.push((crate::util::small_id(0x50), crate::util::small_id(0x58), crate::c07::nid(1), 1));
                    }
                }
            }
        }
        // control: no alteration
        out.push(format!("{} {} {}", hist_tok(&h), muts_tok(&[Mut { kind: "none".into(), i: 0, a: 0 }]), sops_tok(&probes(rng, len, 0))));
        // every kind × (all positions in thorough, 2 sampled positions in quick)
        let positions: Vec<u64> = if thorough { (0..len).collect() } else { vec![rng.below(len), len - 1 - rng.below(2.min(len))] };
        for kind in ENTRY_MUTS {
            for &i in &positions {
                let nops = h.ticks[i as usize].ops.len() as u64;
                let a = match kind {
                    "p.op.drop" | "p.op.ty" => rng.below(nops.max(1)),
                    "p.in.drop" => rng.below((h.ticks[i as usize].in_slots.len() as u64).max(1)),
                    "p.out.drop" => rng.below((h.ticks[i as usize].out_slots.len() as u64).max(1)),
                    "e.tick" | "e.ptick" => rng.below(len + 2),
                    "e.rcpt.tx" => rng.below(len + 2),
                    "p.policy" => 3 + rng.below(3),
                    "e.gtick" | "p.gtick" => 50 + rng.below(5),
                    _ => rng.below(3),
                };
                let m = Mut { kind: kind.to_string(), i: i as usize, a };
                out.push(format!("{} {} {}", hist_tok(&h), muts_tok(&[m]), sops_tok(&probes(rng, len, i))));
            }
        }
        // truncation at every length
        for i in 0..len {
            let m = Mut { kind: "trunc".into(), i: i as usize, a: 0 };
            out.push(format!("{} {} {}", hist_tok(&h), muts_tok(&[m]), sops_tok(&probes(rng, len, i))));
        }
        // checkpoint tampering on the unaltered history (quick: on two of the histories)
        if cp_tamper {
            gen_cp_tamper(rng, thorough, &h, &mut out);
        }
    }
    out
}
