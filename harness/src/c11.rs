//! C11 — the log rejects corruption instead of reinterpreting it.
//! Real code: logs are written through `FilesystemWalStore::append_transaction` (c10::write_log), then
//! damaged (bit flips, zeroed ranges, cut-out ranges, record/marker delete/duplicate/move/swap,
//! whole-transaction delete/duplicate/swap, cross-log transplant, manifest/ledger tampering) and read
//! back with `recover_wal_segment_bytes`, `recover_filesystem_store`, `doctor_filesystem_store`,
//! `validate_filesystem_manifest`, `FilesystemWalStore::open`.
//! Oracle: Ok ⇒ the recovered transaction list is a prefix of the committed list (byte-identical).
#![allow(dead_code)]
use crate::c10::{
    gen_spec, long_report, mode_of, parse_spec, r_err, record_ends, render_spec, short_report, LogSpec, Scratch,
};
use crate::prng::Rng;
use crate::util::Toks;
use crate::{OracleOut, Stream, Tier};
use warp_core::causal_wal::{
    canonical_segment_path, doctor_filesystem_store, recover_filesystem_store, recover_wal_segment_bytes,
    RecoveryAccessMode, RecoveryScanReport, RecoveryTailPosture, WalCommittedTransaction, WalDoctorPosture,
    WalRecoveryError, WalSegmentId,
};

pub fn streams() -> Vec<Stream> {
    let mut v = vec![
        Stream { name: "C11.edit", gen: gen_edit, imp: imp_edit, oracle: oracle_edit },
        Stream { name: "C11.flip", gen: gen_flip, imp: imp_flip, oracle: oracle_flip },
        Stream { name: "C11.zero", gen: gen_zero, imp: imp_zero, oracle: oracle_zero },
    ];
    v.extend(meta::streams());
    v.extend(epoch::streams());
    v
}

// ------------------------------------------------------------------ writing logs (memoised per process)

thread_local! {
    static LOGS: std::cell::RefCell<std::collections::HashMap<String, (Vec<u8>, Vec<WalCommittedTransaction>)>> =
        std::cell::RefCell::new(std::collections::HashMap::new());
}

/// `c10::write_log` (REAL builder + REAL `FilesystemWalStore::append_transaction`, fsyncs included),
/// memoised on the rendered spec: many case lines damage the same log. Scratch roots go to /dev/shm
/// when it exists and `VERIF_SCRATCH` is not set (the store syncs files and directories on every commit).
fn write_log(s: &LogSpec) -> Result<(Vec<u8>, Vec<WalCommittedTransaction>), String> {
    if std::env::var_os("VERIF_SCRATCH").is_none() && std::path::Path::new("/dev/shm").is_dir() {
        std::env::set_var("VERIF_SCRATCH", "/dev/shm");
    }
    let key = render_spec(s);
    if let Some(hit) = LOGS.with(|m| m.borrow().get(&key).cloned()) {
        return Ok(hit);
    }
    let v = crate::c10::write_log(s)?;
    LOGS.with(|m| {
        let mut m = m.borrow_mut();
        if m.len() > 64 {
            m.clear();
        }
        m.insert(key, v.clone());
    });
    Ok(v)
}

// ------------------------------------------------------------------ records and edits

type Rec = Vec<u8>; // one whole disk record (magic .. digest)

/// The whole records of a segment, one block per transaction (a block ends with a commit marker).
fn blocks_of(b: &[u8]) -> Vec<Vec<Rec>> {
    let mut blocks = Vec::new();
    let mut cur = Vec::new();
    let mut off = 0usize;
    for (end, kind) in record_ends(b) {
        cur.push(b[off..end].to_vec());
        off = end;
        if kind == 2 {
            blocks.push(std::mem::take(&mut cur));
        }
    }
    if !cur.is_empty() {
        blocks.push(cur);
    }
    blocks
}

fn insert_at<T>(xs: &mut Vec<T>, j: usize, x: T) {
    let j = j.min(xs.len());
    xs.insert(j, x);
}

fn flatten<T: Clone>(b: &[Vec<T>]) -> Vec<T> {
    b.iter().flatten().cloned().collect()
}

/// Same rule as `Driver.C11.applyOp`: unknown indices leave the log unchanged.
fn apply_op<T: Clone>(op: &str, base: &[Vec<T>], donor: &[Vec<T>]) -> Result<Vec<T>, String> {
    let parts: Vec<&str> = op.split(':').collect();
    let name = parts[0];
    let args: Vec<usize> =
        parts[1..].iter().map(|s| s.parse::<usize>().map_err(|_| format!("bad op {op}"))).collect::<Result<_, _>>()?;
    let mut flat = flatten(base);
    let mut blocks = base.to_vec();
    Ok(match (name, args.as_slice()) {
        ("none", []) => flat,
        ("del", [i]) => {
            if *i < flat.len() {
                flat.remove(*i);
            }
            flat
        }
        ("dup", [i, j]) => {
            if let Some(x) = flat.get(*i).cloned() {
                insert_at(&mut flat, *j, x);
            }
            flat
        }
        ("move", [i, j]) => {
            if *i < flat.len() {
                let x = flat.remove(*i);
                insert_at(&mut flat, *j, x);
            }
            flat
        }
        ("swap", [i]) => {
            if i + 1 < flat.len() {
                flat.swap(*i, i + 1);
            }
            flat
        }
        ("del-tx", [k]) => {
            if *k < blocks.len() {
                blocks.remove(*k);
            }
            flatten(&blocks)
        }
        ("dup-tx", [k]) => {
            if let Some(b) = blocks.get(*k).cloned() {
                insert_at(&mut blocks, k + 1, b);
            }
            flatten(&blocks)
        }
        ("swap-tx", [k]) => {
            if k + 1 < blocks.len() {
                blocks.swap(*k, k + 1);
            }
            flatten(&blocks)
        }
        ("transplant", [k]) => {
            if let (true, Some(d)) = (*k < blocks.len(), donor.get(*k)) {
                blocks[*k] = d.clone();
            }
            flatten(&blocks)
        }
        ("transplant-frame", [i]) => {
            let dflat = flatten(donor);
            if let (true, Some(d)) = (*i < flat.len(), dflat.get(*i)) {
                flat[*i] = d.clone();
            }
            flat
        }
        ("transplant-commit", [k]) => {
            if let (true, Some(c)) = (*k < blocks.len(), donor.get(*k).and_then(|b| b.last())) {
                if !blocks[*k].is_empty() {
                    let n = blocks[*k].len();
                    blocks[*k][n - 1] = c.clone();
                } else {
                    blocks[*k].push(c.clone());
                }
            }
            flatten(&blocks)
        }
        _ => return Err(format!("bad op {op}")),
    })
}

struct EditCase {
    op: String,
    mode: RecoveryAccessMode,
    spec: LogSpec,
    donor: Option<LogSpec>,
}

fn parse_edit(t: &mut Toks) -> Result<EditCase, String> {
    let op = t.next()?.to_string();
    let mode = mode_of(t.next()?)?;
    let spec = parse_spec(t)?;
    let donor = if t.done() {
        None
    } else {
        if t.next()? != "D" {
            return Err("expected D".into());
        }
        Some(parse_spec(t)?)
    };
    if !t.done() {
        return Err("trailing tokens".into());
    }
    Ok(EditCase { op, mode, spec, donor })
}

struct Edited {
    bytes: Vec<u8>,
    original: Vec<u8>,
    committed: Vec<WalCommittedTransaction>,
    donor: Vec<WalCommittedTransaction>,
}

fn edited_bytes(c: &EditCase) -> Result<Edited, String> {
    let (b, committed) = write_log(&c.spec)?;
    let (db, donor) = match &c.donor {
        Some(d) => write_log(d)?,
        None => (Vec::new(), Vec::new()),
    };
    let bytes = if let Some(rest) = c.op.strip_prefix("cut:") {
        let a: Vec<usize> = rest.split(':').map(|s| s.parse::<usize>().map_err(|_| "bad cut".to_string())).collect::<Result<_, _>>()?;
        if a.len() != 2 {
            return Err("bad cut".into());
        }
        let lo = a[0].min(b.len());
        let hi = (a[0] + a[1]).min(b.len());
        let mut out = b[..lo].to_vec();
        out.extend_from_slice(&b[hi..]);
        out
    } else {
        apply_op(&c.op, &blocks_of(&b), &blocks_of(&db))?.concat()
    };
    Ok(Edited { bytes, original: b, committed, donor })
}

/// `recover_filesystem_store` / `doctor_filesystem_store` on a scratch root holding `b` as its one segment.
fn fs_recover(b: &[u8], mode: RecoveryAccessMode) -> Result<(Result<RecoveryScanReport, WalRecoveryError>, String), String> {
    let dir = Scratch::new("c11");
    std::fs::create_dir_all(dir.0.join("segments")).map_err(|e| e.to_string())?;
    let path = canonical_segment_path(&dir.0, WalSegmentId::from_raw(1));
    std::fs::write(&path, b).map_err(|e| e.to_string())?;
    let doc = match doctor_filesystem_store(&dir.0) {
        Ok(d) => match d.posture {
            WalDoctorPosture::Recoverable => "R",
            WalDoctorPosture::RecoverableWithUncommittedTail => "T",
            WalDoctorPosture::Obstructed => "O",
        }
        .to_string(),
        Err(e) => format!("E{}", r_err(&e)),
    };
    Ok((recover_filesystem_store(&dir.0, mode), doc))
}

fn imp_edit(t: &mut Toks) -> Result<String, String> {
    let c = parse_edit(t)?;
    let e = edited_bytes(&c)?;
    let seg = match recover_wal_segment_bytes(WalSegmentId::from_raw(c.spec.segment), &e.bytes, c.mode) {
        Ok(r) => format!("ok seg={} {}", hex::encode(&r.segment_digest[..8]), long_report(&r.report)),
        Err(x) => format!("err {}", r_err(&x)),
    };
    let (fsr, doc) = fs_recover(&e.bytes, RecoveryAccessMode::ReadOnly)?;
    let fs = match fsr {
        Ok(r) => format!("ok {}", long_report(&r)),
        Err(x) => format!("err {}", r_err(&x)),
    };
    Ok(format!(
        "len={} dig {} seg: {} ; fs: {} ; doc {}",
        e.bytes.len(),
        hex::encode(blake3::hash(&e.bytes).as_bytes()),
        seg,
        fs,
        doc
    ))
}

/// How a successful recovery relates to what was committed.
enum Shape {
    Prefix(usize),
    /// a contiguous run of the committed list that does not start at the first transaction
    HeadLost(usize, usize),
    /// position-wise each recovered transaction is the committed one or the donor's at that position
    Spliced(usize),
    Other(String),
}

fn same_tx(g: &warp_core::causal_wal::WalRecoveredTransaction, w: &WalCommittedTransaction) -> bool {
    g.commit == w.commit && g.frames == w.frames
}

fn shape_of(r: &RecoveryScanReport, committed: &[WalCommittedTransaction], donor: &[WalCommittedTransaction]) -> Shape {
    let got = &r.transactions;
    if got.len() <= committed.len() && got.iter().zip(committed).all(|(g, w)| same_tx(g, w)) {
        return Shape::Prefix(got.len());
    }
    for a in 1..committed.len() {
        if a + got.len() <= committed.len() && got.iter().zip(&committed[a..]).all(|(g, w)| same_tx(g, w)) {
            return Shape::HeadLost(a, got.len());
        }
    }
    if got.len() <= committed.len() {
        let mut foreign = 0;
        let mut ok = true;
        for (i, g) in got.iter().enumerate() {
            if same_tx(g, &committed[i]) {
                continue;
            }
            if donor.get(i).is_some_and(|d| same_tx(g, d)) {
                foreign += 1;
            } else {
                ok = false;
            }
        }
        if ok && foreign > 0 {
            return Shape::Spliced(foreign);
        }
    }
    let ids: Vec<String> = got
        .iter()
        .map(|g| {
            committed
                .iter()
                .position(|w| same_tx(g, w))
                .map(|i| format!("T{}", i + 1))
                .unwrap_or_else(|| "?".into())
        })
        .collect();
    Shape::Other(format!("[{}]", ids.join(",")))
}

/// The property on one recovery result. `what` names the entry point.
fn judge(
    o: &mut OracleOut,
    what: &str,
    opname: &str,
    res: &Result<RecoveryScanReport, WalRecoveryError>,
    committed: &[WalCommittedTransaction],
    donor: &[WalCommittedTransaction],
) {
    // the donor log was written under the SAME writer-epoch ids (C11-K1: only the unchecked commit
    // chain could tell) or under FOREIGN ones (no ledger is consulted by these entry points)
    let ids = match (committed.first(), donor.first()) {
        (Some(c), Some(d)) if c.commit.writer_epoch != d.commit.writer_epoch => "foreign-epoch",
        _ => "same-epoch",
    };
    match res {
        Err(e) => o.tags.push(format!("{what}-err:{}", r_err(e).split('.').take(2).collect::<Vec<_>>().join("."))),
        Ok(r) => match shape_of(r, committed, donor) {
            Shape::Prefix(k) => o.tags.push(format!("{what}-prefix:{}", if k == committed.len() { "all".into() } else { k.to_string() })),
            Shape::HeadLost(a, k) => o.fails.push((
                format!("C11.log-head-unanchored.{what}"),
                format!("after {opname}: {what} recovery succeeds with committed transactions {}..{} of {} — the first {a} are gone and nothing notices", a + 1, a + k, committed.len()),
            )),
            Shape::Spliced(n) => o.fails.push((
                format!("C11.commit-chain-unchecked.transplant.{ids}.{what}"),
                format!("after {opname}: {what} recovery succeeds with {n} transaction(s) that were never committed to this log (spliced from a sibling log with the same LSN range); previous_committed_transaction_digest / previous_frame_digest of the successor do not match and are not compared"),
            )),
            Shape::Other(s) => o.fails.push((
                format!("C11.non-prefix-recovered.{opname}.{what}"),
                format!("after {opname}: {what} recovery succeeds with {s}, committed was T1..T{}", committed.len()),
            )),
        },
    }
}

fn opname(op: &str) -> String {
    op.split(':').next().unwrap_or("").to_string()
}

fn oracle_edit(t: &mut Toks, _: Tier) -> Result<OracleOut, String> {
    let c = parse_edit(t)?;
    let e = edited_bytes(&c)?;
    let mut o = OracleOut::default();
    let name = opname(&c.op);
    let seg = recover_wal_segment_bytes(WalSegmentId::from_raw(c.spec.segment), &e.bytes, c.mode).map(|r| r.report);
    judge(&mut o, "seg", &name, &seg, &e.committed, &e.donor);
    let (fsr, doc) = fs_recover(&e.bytes, RecoveryAccessMode::ReadOnly)?;
    judge(&mut o, "fs", &name, &fsr, &e.committed, &e.donor);
    // the doctor must not call a root healthy that recovery rejects
    if fsr.is_err() && doc != "O" {
        o.fails.push(("C11.doctor-healthy-on-error".into(), format!("doctor posture {doc} although read-only recovery fails")));
    }
    // writable recovery of the same root must not disagree with the read-only one on history
    let (fsw, _) = fs_recover(&e.bytes, RecoveryAccessMode::Writable)?;
    match (&fsr, &fsw) {
        (Ok(a), Ok(b)) if a.transactions != b.transactions => {
            o.fails.push(("C11.mode-dependent-history".into(), "read-only and writable recovery return different transactions".into()))
        }
        (Ok(_), Err(_)) | (Err(_), Ok(_)) => {
            o.fails.push(("C11.mode-dependent-outcome".into(), "one access mode succeeds, the other fails".into()))
        }
        _ => {}
    }
    o.tags.push(format!("op:{name}"));
    o.tags.push(if e.bytes == e.original { "bytes-unchanged".into() } else { "bytes-changed".into() });
    o.nontrivial = e.bytes != e.original && e.committed.len() >= 2;
    Ok(o)
}

/// A sibling log: same writer parameters, same LSN layout (record counts), different content.
/// `commit_only` keeps transaction `k`'s records and changes only its frontiers (so only the marker differs).
fn donor_of(rng: &mut Rng, s: &LogSpec, k: usize, commit_only: bool) -> LogSpec {
    let mut d = s.clone();
    for (i, tx) in d.txs.iter_mut().enumerate() {
        let change = i == k || rng.chance(1, 3);
        if !change {
            continue;
        }
        if i == k && commit_only {
            tx.frontiers = vec![(
                tx.frontiers.first().map(|f| f.0).unwrap_or(match tx.kind { 1 => 1, 2 => 2, 3 => 5, 4 => 6, 5 => 3, _ => 7 }),
                *blake3::hash(b"verif:donor:before").as_bytes(),
                *blake3::hash(&[0xD0, rng.below(200) as u8]).as_bytes(),
            )];
            continue;
        }
        for r in tx.records.iter_mut() {
            let n = rng.range(1, 9) as usize;
            r.1 = rng.bytes(n);
        }
        if rng.chance(1, 2) {
            tx.txid = *blake3::hash(&[0x79, i as u8, rng.below(200) as u8]).as_bytes();
        }
    }
    d
}

fn mode_tok(rng: &mut Rng) -> &'static str {
    if rng.chance(1, 2) {
        "w"
    } else {
        "r"
    }
}

fn c11_spec(rng: &mut Rng, min_tx: usize) -> LogSpec {
    loop {
        let s = gen_spec(rng, 4, 10);
        if s.txs.len() >= min_tx {
            return s;
        }
    }
}

fn gen_edit(rng: &mut Rng, tier: Tier) -> Vec<String> {
    let logs = if tier == Tier::Thorough { 40 } else { 5 };
    let mut out = Vec::new();
    for li in 0..logs {
        let spec = c11_spec(rng, if li == 0 { 3 } else { 2 });
        let sp = render_spec(&spec);
        let nrec: usize = spec.txs.iter().map(|t| t.records.len() + 1).sum();
        let ntx = spec.txs.len();
        let all = tier == Tier::Thorough || li == 0;
        let mut ops: Vec<String> = vec!["none".into()];
        for i in 0..nrec {
            if all || rng.chance(1, 2) {
                ops.push(format!("del:{i}"));
            }
            if all || rng.chance(1, 2) {
                ops.push(format!("dup:{i}:{}", i + 1));
            }
            if i + 1 < nrec && (all || rng.chance(1, 2)) {
                ops.push(format!("swap:{i}"));
            }
            if all || rng.chance(1, 3) {
                ops.push(format!("dup:{i}:{}", rng.below(nrec as u64 + 1)));
                ops.push(format!("move:{i}:{}", rng.below(nrec as u64)));
            }
        }
        for k in 0..ntx {
            ops.push(format!("del-tx:{k}"));
            ops.push(format!("dup-tx:{k}"));
            if k + 1 < ntx {
                ops.push(format!("swap-tx:{k}"));
            }
        }
        for _ in 0..(if all { 8 } else { 3 }) {
            // cut a byte range out of the middle (not aligned to records)
            let a = rng.below(2500);
            let n = *rng.pick(&[1u64, 2, 8, 32, 100, 353, 700]);
            ops.push(format!("cut:{a}:{n}"));
        }
        for op in ops {
            out.push(format!("{op} {} {sp}", mode_tok(rng)));
        }
        // cross-log splices
        for k in 0..ntx {
            let d = donor_of(rng, &spec, k, false);
            let dp = render_spec(&d);
            out.push(format!("transplant:{k} {} {sp} D {dp}", mode_tok(rng)));
            out.push(format!("transplant-commit:{k} {} {sp} D {dp}", mode_tok(rng)));
            let i = rng.below(nrec as u64);
            out.push(format!("transplant-frame:{i} {} {sp} D {dp}", mode_tok(rng)));
            if all || rng.chance(1, 2) {
                let d2 = donor_of(rng, &spec, k, true);
                out.push(format!("transplant:{k} {} {sp} D {}", mode_tok(rng), render_spec(&d2)));
            }
        }
    }
    out
}

// ------------------------------------------------------------------ C11.flip / C11.zero (byte damage, many positions per line)

fn positions(len: usize, start: usize, stride: usize) -> Vec<usize> {
    if stride == 0 {
        return Vec::new();
    }
    let mut v = Vec::new();
    let mut p = start;
    while p < len {
        v.push(p);
        p += stride;
    }
    v
}

fn rle(xs: &[(usize, String)]) -> String {
    let mut out = String::new();
    let mut cur: Option<(usize, usize, &String)> = None;
    for (m, r) in xs {
        match cur {
            Some((a, _, r0)) if r0 == r => cur = Some((a, *m, r0)),
            Some((a, b, r0)) => {
                out.push_str(&format!(" {a}-{b}={r0}"));
                cur = Some((*m, *m, r));
            }
            None => cur = Some((*m, *m, r)),
        }
    }
    if let Some((a, b, r0)) = cur {
        out.push_str(&format!(" {a}-{b}={r0}"));
    }
    out
}

fn outcome(seg: u64, b: &[u8], mode: RecoveryAccessMode) -> String {
    match recover_wal_segment_bytes(WalSegmentId::from_raw(seg), b, mode) {
        Ok(r) => short_report(&r.report),
        Err(e) => format!("E{}", r_err(&e)),
    }
}

struct ByteCase {
    mode: RecoveryAccessMode,
    a: usize, // flip: unused (0) ; zero: width
    start: usize,
    stride: usize,
    nbits: usize,
    spec: LogSpec,
}

fn parse_flip(t: &mut Toks) -> Result<ByteCase, String> {
    let mode = mode_of(t.next()?)?;
    let start = t.num()? as usize;
    let stride = t.num()? as usize;
    let nbits = t.num()? as usize;
    let spec = parse_spec(t)?;
    if !t.done() {
        return Err("trailing tokens".into());
    }
    Ok(ByteCase { mode, a: 0, start, stride, nbits, spec })
}

fn parse_zero(t: &mut Toks) -> Result<ByteCase, String> {
    let mode = mode_of(t.next()?)?;
    let a = t.num()? as usize;
    let start = t.num()? as usize;
    let stride = t.num()? as usize;
    let spec = parse_spec(t)?;
    if !t.done() {
        return Err("trailing tokens".into());
    }
    Ok(ByteCase { mode, a, start, stride, nbits: 0, spec })
}

/// (label, damaged bytes) for every damage position of the case
fn damages(c: &ByteCase, b: &[u8], flip: bool) -> Vec<(usize, Vec<u8>)> {
    let mut v = Vec::new();
    for p in positions(b.len(), c.start, c.stride) {
        if flip {
            for j in 0..c.nbits {
                let bit = (p + j) % 8;
                let mut x = b.to_vec();
                x[p] ^= 1 << bit;
                v.push((p * 8 + bit, x));
            }
        } else {
            let mut x = b.to_vec();
            let hi = (p + c.a).min(b.len());
            for y in &mut x[p..hi] {
                *y = 0;
            }
            v.push((p, x));
        }
    }
    v
}

fn imp_bytecase(c: &ByteCase, flip: bool) -> Result<String, String> {
    let (b, _) = write_log(&c.spec)?;
    let res: Vec<(usize, String)> =
        damages(c, &b, flip).into_iter().map(|(l, x)| (l, outcome(c.spec.segment, &x, c.mode))).collect();
    Ok(format!("len={} dig {} n={} ;{}", b.len(), hex::encode(blake3::hash(&b).as_bytes()), res.len(), rle(&res)))
}

fn imp_flip(t: &mut Toks) -> Result<String, String> {
    imp_bytecase(&parse_flip(t)?, true)
}
fn imp_zero(t: &mut Toks) -> Result<String, String> {
    imp_bytecase(&parse_zero(t)?, false)
}

fn oracle_bytecase(c: &ByteCase, flip: bool, tier: Tier) -> Result<OracleOut, String> {
    let mut o = OracleOut::default();
    let (b, committed) = write_log(&c.spec)?;
    let name = if flip { "flip" } else { "zero" };
    let seg = WalSegmentId::from_raw(c.spec.segment);
    let mut n = 0usize;
    let mut errs = 0usize;
    let mut prefixes = 0usize;
    for (idx, (label, x)) in damages(c, &b, flip).into_iter().enumerate() {
        if x == b {
            continue; // zeroing zeros: not damage
        }
        n += 1;
        let mut results = vec![("seg", recover_wal_segment_bytes(seg, &x, c.mode).map(|r| r.report))];
        if tier == Tier::Thorough || idx % 4 == 0 {
            results.push(("fs", fs_recover(&x, RecoveryAccessMode::ReadOnly)?.0));
        }
        for (what, res) in results {
            match &res {
                Err(_) => errs += 1,
                Ok(r) => match shape_of(r, &committed, &[]) {
                    Shape::Prefix(k) => {
                        prefixes += 1;
                        if k == committed.len() && r.tail_posture == RecoveryTailPosture::Clean {
                            o.fails.push((
                                format!("C11.damage-undetected.{name}.{what}"),
                                format!("{name} at {label}: the damaged segment recovers completely and cleanly ({k} transactions) — the damaged bytes are not covered by any check"),
                            ));
                        }
                    }
                    _ => {
                        let mut tmp = OracleOut::default();
                        judge(&mut tmp, what, name, &res, &committed, &[]);
                        for (k, w) in tmp.fails {
                            o.fails.push((k, format!("{name} at {label}: {w}")));
                        }
                    }
                },
            }
            if o.fails.len() >= 3 {
                break;
            }
        }
        if o.fails.len() >= 3 {
            break;
        }
    }
    o.tags.push(format!("{name}-damages={}", (n / 50) * 50));
    o.tags.push(format!("{name}-rejected-pct={}", if errs + prefixes == 0 { 0 } else { (errs * 100 / (errs + prefixes) / 10) * 10 }));
    if prefixes > 0 {
        o.tags.push(format!("{name}-prefix-outcomes"));
    }
    o.nontrivial = n > 0 && committed.len() >= 2;
    Ok(o)
}

fn oracle_flip(t: &mut Toks, tier: Tier) -> Result<OracleOut, String> {
    oracle_bytecase(&parse_flip(t)?, true, tier)
}
fn oracle_zero(t: &mut Toks, tier: Tier) -> Result<OracleOut, String> {
    oracle_bytecase(&parse_zero(t)?, false, tier)
}

fn gen_flip(rng: &mut Rng, tier: Tier) -> Vec<String> {
    let mut out = Vec::new();
    if tier == Tier::Thorough {
        // every bit of small logs
        for _ in 0..12 {
            let spec = loop {
                let s = gen_spec(rng, 3, 4);
                if s.txs.len() >= 2 && s.txs.iter().map(|t| t.records.len()).sum::<usize>() <= 4 {
                    break s;
                }
            };
            out.push(format!("{} 0 1 8 {}", mode_tok(rng), render_spec(&spec)));
        }
    }
    let n = if tier == Tier::Thorough { 30 } else { 6 };
    for _ in 0..n {
        let spec = c11_spec(rng, 2);
        let stride = *rng.pick(&[11u64, 13, 17]);
        out.push(format!("{} {} {} 1 {}", mode_tok(rng), rng.below(stride), stride, render_spec(&spec)));
    }
    out
}

fn gen_zero(rng: &mut Rng, tier: Tier) -> Vec<String> {
    let mut out = Vec::new();
    let n = if tier == Tier::Thorough { 30 } else { 5 };
    for i in 0..n {
        let spec = c11_spec(rng, 2);
        let width = [1u64, 4, 8, 16, 64, 512][i % 6];
        // aligned ranges; for narrow widths only every k-th aligned range in quick mode
        let stride = if tier == Tier::Thorough { width } else { width * ((24 / width).max(1)) };
        out.push(format!("{} {} 0 {} {}", mode_tok(rng), width, stride, render_spec(&spec)));
    }
    out
}

// ------------------------------------------------------------------ C11.meta (manifest / ledger tampering)

mod meta {
    use super::*;
    use crate::c10::build_transactions;
    use warp_core::causal_wal::{
        validate_filesystem_manifest, FilesystemWalStore, Lsn, WalManifest, WalRecoveryError, WalStoreError,
        WalStorePort, WriterEpochId, WriterEpochRequest,
    };

    pub fn streams() -> Vec<Stream> {
        vec![Stream { name: "C11.meta", gen: gen_meta, imp: imp_meta, oracle: oracle_meta }]
    }

    pub const MANIFEST_DIGEST: [u8; 32] = [0x4D; 32];

    fn epoch_request(s: &LogSpec) -> WriterEpochRequest {
        WriterEpochRequest {
            epoch_id: WriterEpochId::from_hash(s.epoch),
            storage_fencing_token: *blake3::hash(b"verif:fencing").as_bytes(),
            process_identity: *blake3::hash(b"verif:process").as_bytes(),
            host_identity: *blake3::hash(b"verif:host").as_bytes(),
            started_at_lsn: Lsn::from_raw(s.first_lsn),
            previous_epoch_id: None,
            previous_epoch_final_commit_digest: None,
            lease_or_lock_evidence: *blake3::hash(b"verif:lease").as_bytes(),
        }
    }

    /// A real store root: the log appended through `FilesystemWalStore`, a manifest published through
    /// `publish_manifest`, the writer-epoch ledger as the store left it. Segment id is 1.
    pub struct Root {
        pub dir: Scratch,
        pub segment: Vec<u8>,
        pub manifest: Vec<u8>,
        pub ledger: Vec<u8>,
    }

    thread_local! {
        static ROOTS: std::cell::RefCell<std::collections::HashMap<String, (Vec<u8>, Vec<u8>, Vec<u8>)>> =
            std::cell::RefCell::new(std::collections::HashMap::new());
    }

    /// The three files of a root written by the REAL store (memoised per spec: the store fsyncs on
    /// every commit); each case gets its own copy of the root.
    fn root_files(s: &LogSpec) -> Result<(Vec<u8>, Vec<u8>, Vec<u8>), String> {
        let key = render_spec(s);
        if let Some(hit) = ROOTS.with(|m| m.borrow().get(&key).cloned()) {
            return Ok(hit);
        }
        if std::env::var_os("VERIF_SCRATCH").is_none() && std::path::Path::new("/dev/shm").is_dir() {
            std::env::set_var("VERIF_SCRATCH", "/dev/shm");
        }
        let txs = build_transactions(s)?;
        let dir = Scratch::new("meta-w");
        let seg = WalSegmentId::from_raw(1);
        let mut store = FilesystemWalStore::open(&dir.0, seg).map_err(|e| format!("open: {e:?}"))?;
        store.acquire_writer_epoch(epoch_request(s)).map_err(|e| format!("epoch: {e:?}"))?;
        for t in &txs {
            store.append_transaction(t.clone()).map_err(|e| format!("append: {e:?}"))?;
        }
        let manifest = WalManifest {
            manifest_digest: MANIFEST_DIGEST,
            last_committed_lsn: txs.last().map(|t| t.commit.last_lsn),
            last_commit_digest: txs.last().map(|t| t.commit.commit_digest),
            sealed_segment_count: 1,
        };
        store.publish_manifest(WriterEpochId::from_hash(s.epoch), manifest).map_err(|e| format!("publish: {e:?}"))?;
        let segment = std::fs::read(store.segment_path()).map_err(|e| e.to_string())?;
        drop(store);
        let manifest = std::fs::read(dir.0.join("manifest.ecwal")).map_err(|e| e.to_string())?;
        let ledger = std::fs::read(dir.0.join("writer-epochs.ecwal")).map_err(|e| e.to_string())?;
        let v = (segment, manifest, ledger);
        ROOTS.with(|m| {
            let mut m = m.borrow_mut();
            if m.len() > 32 {
                m.clear();
            }
            m.insert(key, v.clone());
        });
        Ok(v)
    }

    pub fn build_root(s: &LogSpec) -> Result<Root, String> {
        let (segment, manifest, ledger) = root_files(s)?;
        let dir = Scratch::new("meta");
        std::fs::create_dir_all(dir.0.join("segments")).map_err(|e| e.to_string())?;
        std::fs::write(canonical_segment_path(&dir.0, WalSegmentId::from_raw(1)), &segment).map_err(|e| e.to_string())?;
        std::fs::write(dir.0.join("manifest.ecwal"), &manifest).map_err(|e| e.to_string())?;
        std::fs::write(dir.0.join("writer-epochs.ecwal"), &ledger).map_err(|e| e.to_string())?;
        Ok(Root { dir, segment, manifest, ledger })
    }

    fn store_err(e: WalStoreError) -> String {
        match e {
            WalStoreError::MissingManifest => "missing".into(),
            WalStoreError::ManifestCannotValidateUncommittedTail => "tail".into(),
            WalStoreError::ManifestSegmentCountMismatch { .. } => "segCount".into(),
            WalStoreError::ManifestLastCommittedLsnMismatch { .. } => "lastLsn".into(),
            WalStoreError::ManifestLastCommitDigestMismatch { .. } => "lastDigest".into(),
            WalStoreError::WriterEpochLedgerDigestMismatch => "ledger.digest".into(),
            WalStoreError::Decode(warp_core::causal_wal::WalDecodeError::InvalidRecordMagic { .. }) => "decode.magic".into(),
            other => r_err(&WalRecoveryError::Store(other)),
        }
    }

    /// byte tampering shared by manifest and ledger ops: `flip:p:b`, `trunc:n`, `append:n`, `none`
    fn tamper(kind: &str, args: &[usize], b: &[u8]) -> Option<Vec<u8>> {
        let mut x = b.to_vec();
        match (kind, args) {
            ("none", []) => {}
            ("flip", [p, bit]) => {
                if *p < x.len() {
                    x[*p] ^= 1 << (bit % 8);
                }
            }
            ("trunc", [n]) => x.truncate(*n),
            ("append", [n]) => x.extend(std::iter::repeat(0u8).take(*n)),
            _ => return None,
        }
        Some(x)
    }

    struct MetaCase {
        op: String,
        ledger: Option<Vec<u8>>,
        spec: LogSpec,
    }

    fn parse_meta(t: &mut Toks) -> Result<MetaCase, String> {
        let op = t.next()?.to_string();
        let l = t.next()?;
        let ledger = if l == "-" { None } else { Some(crate::util::unhex(l)?) };
        let mut spec = parse_spec(t)?;
        spec.segment = 1;
        if !t.done() {
            return Err("trailing tokens".into());
        }
        Ok(MetaCase { op, ledger, spec })
    }

    struct Outcome {
        text: String,
        changed: bool,
        manifest_ok: Option<bool>,
        ledger_ok: Option<bool>,
        /// for segment edits behind the manifest's back: what read-only recovery of the root returns
        recovered: Option<Result<RecoveryScanReport, WalRecoveryError>>,
    }

    fn run_meta(c: &MetaCase) -> Result<Outcome, String> {
        let root = build_root(&c.spec)?;
        let (target, rest) = c.op.split_once('-').ok_or("bad op")?;
        let parts: Vec<&str> = rest.split(':').collect();
        let args: Vec<usize> =
            parts[1..].iter().map(|s| s.parse::<usize>().map_err(|_| format!("bad op {}", c.op))).collect::<Result<_, _>>()?;
        match target {
            "m" => {
                // manifest file tampered, or removed
                let path = root.dir.0.join("manifest.ecwal");
                let (new, changed) = if parts[0] == "del" {
                    std::fs::remove_file(&path).map_err(|e| e.to_string())?;
                    (None, true)
                } else {
                    let x = tamper(parts[0], &args, &root.manifest).ok_or_else(|| format!("bad op {}", c.op))?;
                    std::fs::write(&path, &x).map_err(|e| e.to_string())?;
                    let ch = x != root.manifest;
                    (Some(x), ch)
                };
                let res = validate_filesystem_manifest(&root.dir.0);
                let ok = res.is_ok();
                let cls = match res {
                    Ok(_) => "ok".to_string(),
                    Err(e) => store_err(e),
                };
                let dig = new.map(|x| hex::encode(blake3::hash(&x).as_bytes())).unwrap_or_else(|| "-".into());
                Ok(Outcome { text: format!("mdig {dig} man {cls} led -"), changed, manifest_ok: Some(ok), ledger_ok: None, recovered: None })
            }
            "s" => {
                // the segment loses / gains whole transactions behind the manifest's back
                let blocks = blocks_of(&root.segment);
                let recs = apply_op(rest, &blocks, &[])?;
                let x = recs.concat();
                let path = canonical_segment_path(&root.dir.0, WalSegmentId::from_raw(1));
                std::fs::write(&path, &x).map_err(|e| e.to_string())?;
                let res = validate_filesystem_manifest(&root.dir.0);
                let ok = res.is_ok();
                let cls = match res {
                    Ok(_) => "ok".to_string(),
                    Err(e) => store_err(e),
                };
                Ok(Outcome {
                    text: format!("mdig {} man {cls} led -", hex::encode(blake3::hash(&root.manifest).as_bytes())),
                    changed: x != root.segment,
                    manifest_ok: Some(ok),
                    ledger_ok: None,
                    recovered: Some(recover_filesystem_store(&root.dir.0, RecoveryAccessMode::ReadOnly)),
                })
            }
            "l" => {
                let given = c.ledger.as_ref().ok_or("ledger op without ledger bytes")?;
                if *given != root.ledger {
                    return Err("ledger bytes in the case line are not what the store writes for this spec".into());
                }
                let x = tamper(parts[0], &args, &root.ledger).ok_or_else(|| format!("bad op {}", c.op))?;
                std::fs::write(root.dir.0.join("writer-epochs.ecwal"), &x).map_err(|e| e.to_string())?;
                let res = FilesystemWalStore::open(&root.dir.0, WalSegmentId::from_raw(1));
                let ok = res.is_ok();
                let cls = match res {
                    Ok(_) => "ok".to_string(),
                    Err(e) => store_err(e),
                };
                Ok(Outcome { text: format!("mdig - man - led {cls}"), changed: x != root.ledger, manifest_ok: None, ledger_ok: Some(ok), recovered: None })
            }
            _ => Err(format!("bad op {}", c.op)),
        }
    }

    fn imp_meta(t: &mut Toks) -> Result<String, String> {
        Ok(run_meta(&parse_meta(t)?)?.text)
    }

    /// Tampered metadata is reported, never accepted; untouched metadata validates.
    fn oracle_meta(t: &mut Toks, _: Tier) -> Result<OracleOut, String> {
        let c = parse_meta(t)?;
        let r = run_meta(&c)?;
        let mut o = OracleOut::default();
        let name = c.op.split(':').next().unwrap_or("").to_string();
        if let (Some(ok), Some(rec)) = (r.manifest_ok, &r.recovered) {
            // segment edited behind an intact manifest: a root that looks healthy (manifest agrees AND
            // recovery succeeds) must hold exactly the committed history
            let committed = build_transactions(&c.spec)?;
            match rec {
                Err(_) => o.tags.push(format!("meta-recovery-err:manifest-{}", if ok { "ok" } else { "err" })),
                Ok(rep) => {
                    let shape = shape_of(rep, &committed, &[]);
                    match (ok, shape) {
                        (_, Shape::Prefix(k)) if k == committed.len() => o.tags.push("meta-history-intact".into()),
                        (false, _) => o.tags.push("meta-manifest-flags-damage".into()),
                        (true, Shape::Prefix(k)) => o.fails.push((
                            "C11.manifest-stale-accepted".into(),
                            format!("{}: only {k} of {} committed transactions are left, recovery succeeds and the manifest still validates", c.op, committed.len()),
                        )),
                        (true, Shape::HeadLost(a, k)) => o.fails.push((
                            "C11.log-head-unanchored.manifest".into(),
                            format!("{}: the first {a} transaction(s) are gone, recovery returns the remaining {k} and the manifest (last LSN / last commit digest / segment count) still validates", c.op),
                        )),
                        (true, _) => o.fails.push((
                            format!("C11.non-prefix-recovered.{name}.manifest"),
                            format!("{}: recovery succeeds with a history that is not what was committed and the manifest validates", c.op),
                        )),
                    }
                }
            }
        } else if let Some(ok) = r.manifest_ok {
            if r.changed && ok {
                if c.op.starts_with("m-flip:") && c.op.split(':').nth(1).and_then(|p| p.parse::<usize>().ok()).is_some_and(|p| p < 32) {
                    o.fails.push((
                        "C11.manifest-digest-unverified".into(),
                        "a flipped bit inside the manifest's own manifest_digest field validates: the manifest file carries no checksum over itself and nothing recomputes manifest_digest (it is then used as the recovery projection's root_digest)".into(),
                    ));
                } else {
                    o.fails.push((format!("C11.manifest-tamper-accepted.{name}"), format!("{}: validate_filesystem_manifest returns Ok although the manifest was changed", c.op)));
                }
            }
            if !r.changed && !ok {
                o.fails.push(("C11.manifest-intact-rejected".into(), "an untouched root fails manifest validation".into()));
            }
        }
        if let Some(ok) = r.ledger_ok {
            if r.changed && ok {
                o.fails.push((format!("C11.ledger-tamper-accepted.{name}"), format!("{}: the store opens although the writer-epoch ledger file was changed", c.op)));
            }
            if !r.changed && !ok {
                o.fails.push(("C11.ledger-intact-rejected".into(), "the store does not reopen on its own untouched ledger".into()));
            }
        }
        o.tags.push(format!("meta:{name}"));
        o.tags.push(format!("meta-outcome:{}", r.text.split(' ').filter(|w| *w != "-").last().unwrap_or("-")));
        o.nontrivial = r.changed;
        Ok(o)
    }

    fn gen_meta(rng: &mut Rng, tier: Tier) -> Vec<String> {
        let logs = if tier == Tier::Thorough { 12 } else { 2 };
        let mut out = Vec::new();
        for li in 0..logs {
            let mut spec = c11_spec(rng, 2);
            spec.segment = 1;
            let sp = render_spec(&spec);
            let Ok(root) = build_root(&spec) else { continue };
            let mlen = root.manifest.len();
            let mut ops: Vec<String> = vec!["m-none".into(), "m-del".into(), "m-append:1".into()];
            let all = tier == Tier::Thorough && li < 2;
            for p in 0..mlen {
                if all || p % 3 == li % 3 || (31..=42).contains(&p) || p + 9 >= mlen {
                    ops.push(format!("m-flip:{p}:{}", if all { p % 8 } else { rng.below(8) as usize }));
                }
            }
            for n in [0usize, 1, 31, 32, 33, 40, 41, 42, 73, mlen.saturating_sub(8), mlen.saturating_sub(1)] {
                ops.push(format!("m-trunc:{n}"));
            }
            let ntx = spec.txs.len();
            ops.push(format!("s-del-tx:{}", ntx - 1));
            ops.push("s-del-tx:0".into());
            ops.push(format!("s-dup-tx:{}", ntx - 1));
            let nrec: usize = spec.txs.iter().map(|t| t.records.len() + 1).sum();
            ops.push(format!("s-del:{}", nrec - 1));
            ops.push(format!("s-swap:{}", nrec.saturating_sub(2)));
            for op in ops {
                out.push(format!("{op} - {sp}"));
            }
            let lh = crate::util::hex(&root.ledger);
            let llen = root.ledger.len();
            let mut lops: Vec<String> = vec!["l-none".into(), "l-append:1".into(), "l-append:32".into()];
            for p in 0..llen {
                if all || p < 17 || p + 33 >= llen || rng.chance(1, 6) {
                    lops.push(format!("l-flip:{p}:{}", rng.below(8)));
                }
            }
            for n in [0usize, 7, 8, 15, 16, 17, llen / 2, llen.saturating_sub(33), llen.saturating_sub(32), llen.saturating_sub(1)] {
                lops.push(format!("l-trunc:{n}"));
            }
            for op in lops {
                out.push(format!("{op} {lh} {sp}"));
            }
        }
        out
    }
}

// ------------------------------------------------------------------ C11.epoch (multi-epoch roots behind the writer-epoch ledger)

/// Roots as a restarted host finds them: several writer epochs (closed, pruned, active), optionally one
/// segment file per epoch, the writer-epoch ledger as the store wrote it.  Damage: whole transactions
/// spliced from a sibling root written under the SAME or under FOREIGN writer-epoch ids, structural
/// edits, ledger removed/damaged.  Observed through what a host runs before it trusts the root:
/// `FilesystemWalStore::open` (ledger decode + `reconcile_writer_epoch_closures`), then
/// `recover_filesystem_store`, `doctor_filesystem_store`, `acquire_fresh_writer_epoch`, and (oracle)
/// `TrustedRuntimeWal::from_config`.
mod epoch {
    use super::*;
    use crate::c10::build_transactions;
    use warp_core::causal_wal::{
        FilesystemWalStore, Lsn, WalDecodeError, WalStoreError, WalStorePort, WriterEpochId, WriterEpochRequest,
    };
    use warp_core::{TrustedRuntimeWal, TrustedRuntimeWalConfig};

    pub fn streams() -> Vec<Stream> {
        vec![Stream { name: "C11.epoch", gen: gen_epoch, imp: imp_epoch, oracle: oracle_epoch }]
    }

    #[derive(Clone)]
    pub struct Plan {
        /// transactions per writer epoch, in order
        pub counts: Vec<usize>,
        /// the last epoch is left active (what a crashed / restarted host leaves) or closed
        pub fin_active: bool,
        /// epoch i writes segment file i+1 (otherwise everything goes to segment 1)
        pub multi: bool,
    }

    fn parse_plan(tok: &str) -> Result<Plan, String> {
        let parts: Vec<&str> = tok.split('-').collect();
        if parts.len() != 3 {
            return Err(format!("bad plan {tok}"));
        }
        let counts: Vec<usize> =
            parts[0].split('.').map(|s| s.parse::<usize>().map_err(|_| format!("bad plan {tok}"))).collect::<Result<_, _>>()?;
        if counts.is_empty() || counts.len() > 8 {
            return Err(format!("bad plan {tok}"));
        }
        let fin_active = match parts[1] {
            "a" => true,
            "c" => false,
            _ => return Err(format!("bad plan {tok}")),
        };
        let multi = match parts[2] {
            "m" => true,
            "s" => false,
            _ => return Err(format!("bad plan {tok}")),
        };
        Ok(Plan { counts, fin_active, multi })
    }

    fn render_plan(p: &Plan) -> String {
        format!(
            "{}-{}-{}",
            p.counts.iter().map(|n| n.to_string()).collect::<Vec<_>>().join("."),
            if p.fin_active { "a" } else { "c" },
            if p.multi { "m" } else { "s" }
        )
    }

    /// epoch 0 carries the spec's own id; epoch i>0 = BLAKE3(id ‖ [i])
    pub fn epoch_id(base: &[u8; 32], i: usize) -> [u8; 32] {
        if i == 0 {
            *base
        } else {
            let mut v = base.to_vec();
            v.push(i as u8);
            *blake3::hash(&v).as_bytes()
        }
    }

    fn seg_of(p: &Plan, i: usize) -> u64 {
        if p.multi {
            i as u64 + 1
        } else {
            1
        }
    }

    /// the transactions of every epoch, built by the REAL builder with the chain threaded across epochs
    fn build_groups(s: &LogSpec, p: &Plan) -> Result<Vec<Vec<WalCommittedTransaction>>, String> {
        if p.counts.iter().sum::<usize>() != s.txs.len() {
            return Err("plan does not cover the transactions".into());
        }
        let mut out = Vec::new();
        let (mut lsn, mut pf, mut pc, mut off) = (s.first_lsn, s.pf, s.pc, 0usize);
        for (i, n) in p.counts.iter().enumerate() {
            let mut sub = s.clone();
            sub.epoch = epoch_id(&s.epoch, i);
            sub.segment = seg_of(p, i);
            sub.first_lsn = lsn;
            sub.pf = pf;
            sub.pc = pc;
            sub.txs = s.txs[off..off + n].to_vec();
            off += n;
            let txs = build_transactions(&sub)?;
            if let Some(t) = txs.last() {
                lsn = t.commit.last_lsn.as_u64() + 1;
                if s.chain {
                    pf = t.frames.last().map(|f| f.digest()).unwrap_or(pf);
                    pc = t.commit.commit_digest;
                }
            }
            out.push(txs);
        }
        Ok(out)
    }

    fn request(s: &LogSpec, i: usize, started: u64, prev: Option<([u8; 32], Option<[u8; 32]>)>) -> WriterEpochRequest {
        let h = |label: &[u8]| {
            let mut v = label.to_vec();
            v.push(i as u8);
            *blake3::hash(&v).as_bytes()
        };
        WriterEpochRequest {
            epoch_id: WriterEpochId::from_hash(epoch_id(&s.epoch, i)),
            storage_fencing_token: h(b"verif:fencing"),
            process_identity: h(b"verif:process"),
            host_identity: *blake3::hash(b"verif:host").as_bytes(),
            started_at_lsn: Lsn::from_raw(started),
            previous_epoch_id: prev.map(|p| WriterEpochId::from_hash(p.0)),
            previous_epoch_final_commit_digest: prev.and_then(|p| p.1),
            lease_or_lock_evidence: h(b"verif:lease"),
        }
    }

    #[derive(Clone)]
    pub struct RootFiles {
        pub segs: Vec<Vec<u8>>,
        pub ledger: Vec<u8>,
        pub committed: Vec<WalCommittedTransaction>,
    }

    thread_local! {
        static ROOTS: std::cell::RefCell<std::collections::HashMap<String, RootFiles>> =
            std::cell::RefCell::new(std::collections::HashMap::new());
    }

    /// The root written by the REAL store: per epoch `open` → `acquire_writer_epoch` → appends →
    /// `close_epoch` (not for a last epoch left active) → store dropped.  Memoised per (plan, spec).
    pub fn write_root(s: &LogSpec, p: &Plan) -> Result<RootFiles, String> {
        let key = format!("{} {}", render_plan(p), render_spec(s));
        if let Some(hit) = ROOTS.with(|m| m.borrow().get(&key).cloned()) {
            return Ok(hit);
        }
        if std::env::var_os("VERIF_SCRATCH").is_none() && std::path::Path::new("/dev/shm").is_dir() {
            std::env::set_var("VERIF_SCRATCH", "/dev/shm");
        }
        let groups = build_groups(s, p)?;
        let dir = Scratch::new("ep-w");
        let mut lsn = s.first_lsn;
        let mut prev: Option<([u8; 32], Option<[u8; 32]>)> = None;
        for (i, txs) in groups.iter().enumerate() {
            let seg = WalSegmentId::from_raw(seg_of(p, i));
            let mut store = FilesystemWalStore::open(&dir.0, seg).map_err(|e| format!("open {i}: {e:?}"))?;
            let ep = store.acquire_writer_epoch(request(s, i, lsn, prev)).map_err(|e| format!("epoch {i}: {e:?}"))?;
            for t in txs {
                store.append_transaction(t.clone()).map_err(|e| format!("append {i}: {e:?}"))?;
            }
            if let Some(t) = txs.last() {
                lsn = t.commit.last_lsn.as_u64() + 1;
            }
            prev = Some((epoch_id(&s.epoch, i), txs.last().map(|t| t.commit.commit_digest)));
            if !(i + 1 == groups.len() && p.fin_active) {
                store.close_epoch(ep.epoch_id).map_err(|e| format!("close {i}: {e:?}"))?;
            }
        }
        let nseg = if p.multi { groups.len() } else { 1 };
        let mut segs = Vec::new();
        for j in 0..nseg {
            segs.push(std::fs::read(canonical_segment_path(&dir.0, WalSegmentId::from_raw(j as u64 + 1))).map_err(|e| e.to_string())?);
        }
        let ledger = std::fs::read(dir.0.join("writer-epochs.ecwal")).map_err(|e| e.to_string())?;
        let v = RootFiles { segs, ledger, committed: groups.into_iter().flatten().collect() };
        ROOTS.with(|m| {
            let mut m = m.borrow_mut();
            if m.len() > 48 {
                m.clear();
            }
            m.insert(key, v.clone());
        });
        Ok(v)
    }

    struct EpochCase {
        op: String,
        plan: Plan,
        ledger: Vec<u8>,
        spec: LogSpec,
        donor: Option<LogSpec>,
    }

    fn parse_case(t: &mut Toks) -> Result<EpochCase, String> {
        let op = t.next()?.to_string();
        let plan = parse_plan(t.next()?)?;
        let ledger = crate::util::unhex(t.next()?)?;
        let mut spec = parse_spec(t)?;
        spec.segment = 1;
        let donor = if t.done() {
            None
        } else {
            if t.next()? != "D" {
                return Err("expected D".into());
            }
            let mut d = parse_spec(t)?;
            d.segment = 1;
            Some(d)
        };
        if !t.done() {
            return Err("trailing tokens".into());
        }
        Ok(EpochCase { op, plan, ledger, spec, donor })
    }

    pub struct Damaged {
        pub dir: Scratch,
        pub segs: Vec<Vec<u8>>,
        pub ledger: Option<Vec<u8>>,
        pub changed: bool,
        pub committed: Vec<WalCommittedTransaction>,
        pub donor: Vec<WalCommittedTransaction>,
    }

    fn tagged_blocks(segs: &[Vec<u8>]) -> Vec<Vec<(usize, Rec)>> {
        let mut out = Vec::new();
        for (j, b) in segs.iter().enumerate() {
            for blk in blocks_of(b) {
                out.push(blk.into_iter().map(|r| (j, r)).collect());
            }
        }
        out
    }

    /// the damaged segment files and ledger of a case (no filesystem access beyond writing the honest roots)
    fn damaged_files(c: &EpochCase) -> Result<(Vec<Vec<u8>>, Option<Vec<u8>>, RootFiles, Vec<WalCommittedTransaction>), String> {
        let root = write_root(&c.spec, &c.plan)?;
        if root.ledger != c.ledger {
            return Err("ledger bytes in the case line are not what the store writes for this plan/spec".into());
        }
        let donor = match &c.donor {
            Some(d) => Some(write_root(d, &c.plan)?),
            None => None,
        };
        let mut ledger = Some(root.ledger.clone());
        let mut segs = root.segs.clone();
        if let Some(rest) = c.op.strip_prefix("l-") {
            let parts: Vec<&str> = rest.split(':').collect();
            let args: Vec<usize> =
                parts[1..].iter().map(|s| s.parse::<usize>().map_err(|_| format!("bad op {}", c.op))).collect::<Result<_, _>>()?;
            ledger = match (parts[0], args.as_slice()) {
                ("del", []) => None,
                ("flip", [p, bit]) => {
                    let mut x = root.ledger.clone();
                    if *p < x.len() {
                        x[*p] ^= 1 << (bit % 8);
                    }
                    Some(x)
                }
                ("trunc", [n]) => Some(root.ledger[..(*n).min(root.ledger.len())].to_vec()),
                _ => return Err(format!("bad op {}", c.op)),
            };
        } else {
            let base = tagged_blocks(&root.segs);
            let dblocks = donor.as_ref().map(|d| tagged_blocks(&d.segs)).unwrap_or_default();
            let recs = apply_op(&c.op, &base, &dblocks)?;
            segs = vec![Vec::new(); root.segs.len()];
            for (j, r) in recs {
                segs[j].extend_from_slice(&r);
            }
        }
        Ok((segs, ledger, root, donor.map(|d| d.committed).unwrap_or_default()))
    }

    fn materialise(segs: &[Vec<u8>], ledger: &Option<Vec<u8>>) -> Result<Scratch, String> {
        let dir = Scratch::new("ep");
        std::fs::create_dir_all(dir.0.join("segments")).map_err(|e| e.to_string())?;
        for (j, b) in segs.iter().enumerate() {
            std::fs::write(canonical_segment_path(&dir.0, WalSegmentId::from_raw(j as u64 + 1)), b).map_err(|e| e.to_string())?;
        }
        if let Some(l) = ledger {
            std::fs::write(dir.0.join("writer-epochs.ecwal"), l).map_err(|e| e.to_string())?;
        }
        Ok(dir)
    }

    fn store_err(e: WalStoreError) -> String {
        match e {
            WalStoreError::UnknownPreviousWriterEpoch => "epoch.unknownPrev".into(),
            WalStoreError::MissingWriterEpochLedger => "epoch.missingLedger".into(),
            WalStoreError::WriterEpochChainGap => "epoch.chainGap".into(),
            WalStoreError::WriterEpochFinalCommitDigestMismatch => "epoch.finalDigest".into(),
            WalStoreError::WriterEpochLsnRegression => "epoch.lsnRegression".into(),
            WalStoreError::WriterEpochFencingMismatch => "epoch.fencing".into(),
            WalStoreError::WriterEpochAlreadyActive => "epoch.alreadyActive".into(),
            WalStoreError::WriterEpochLedgerDigestMismatch => "ledger.digest".into(),
            WalStoreError::Decode(WalDecodeError::InvalidRecordMagic { .. }) => "decode.magic".into(),
            other => r_err(&WalRecoveryError::Store(other)),
        }
    }

    fn h8(h: &[u8; 32]) -> String {
        hex::encode(&h[..8])
    }

    struct Seen {
        open: Result<(), String>,
        fs: Result<RecoveryScanReport, WalRecoveryError>,
        doc: String,
        next: String,
    }

    /// what a host runs on the root, in this order: open, read-only recovery, doctor, then (mutating,
    /// last) `acquire_fresh_writer_epoch`
    fn observe(dir: &Scratch, nseg: usize) -> Seen {
        let seg = WalSegmentId::from_raw(nseg as u64);
        let opened = FilesystemWalStore::open(&dir.0, seg);
        let fs = recover_filesystem_store(&dir.0, RecoveryAccessMode::ReadOnly);
        let doc = match doctor_filesystem_store(&dir.0) {
            Ok(d) => match d.posture {
                WalDoctorPosture::Recoverable => "R",
                WalDoctorPosture::RecoverableWithUncommittedTail => "T",
                WalDoctorPosture::Obstructed => "O",
            }
            .to_string(),
            Err(e) => format!("E{}", r_err(&e)),
        };
        let (open, next) = match opened {
            Err(e) => (Err(store_err(e)), "-".to_string()),
            Ok(mut store) => {
                let next = match store.acquire_fresh_writer_epoch(Lsn::from_raw(0)) {
                    Ok(ep) => format!(
                        "ok {} {} {} {}",
                        h8(&ep.epoch_id.as_hash()),
                        ep.started_at_lsn.as_u64(),
                        ep.previous_epoch_id.map(|i| h8(&i.as_hash())).unwrap_or_else(|| "-".into()),
                        ep.previous_epoch_final_commit_digest.map(|d| h8(&d)).unwrap_or_else(|| "-".into())
                    ),
                    Err(e) => format!("err {}", store_err(e)),
                };
                (Ok(()), next)
            }
        };
        Seen { open, fs, doc, next }
    }

    fn imp_epoch(t: &mut Toks) -> Result<String, String> {
        let c = parse_case(t)?;
        let (segs, ledger, _, _) = damaged_files(&c)?;
        let dir = materialise(&segs, &ledger)?;
        let seen = observe(&dir, segs.len());
        let mut all = Vec::new();
        for b in &segs {
            all.extend_from_slice(&(b.len() as u64).to_le_bytes());
            all.extend_from_slice(b);
        }
        Ok(format!(
            "segs={} dig {} open: {} ; next: {} ; fs: {} ; doc {}",
            segs.len(),
            hex::encode(blake3::hash(&all).as_bytes()),
            match &seen.open {
                Ok(()) => "ok".to_string(),
                Err(e) => format!("err {e}"),
            },
            seen.next,
            match &seen.fs {
                Ok(r) => format!("ok {}", long_report(r)),
                Err(x) => format!("err {}", r_err(x)),
            },
            seen.doc
        ))
    }

    /// index of the epoch that wrote transaction `k` under the plan
    fn epoch_of(p: &Plan, k: usize) -> usize {
        let mut acc = 0;
        for (i, n) in p.counts.iter().enumerate() {
            acc += n;
            if k < acc {
                return i;
            }
        }
        p.counts.len().saturating_sub(1)
    }

    /// does the ledger the store left behind still hold epoch `i`?  (retained: the active epoch and
    /// the LAST closed one — WAL_WRITER_EPOCH_RETAINED_CLOSED_LIMIT = 1)
    fn retained(p: &Plan, i: usize) -> bool {
        let n = p.counts.len();
        let closed = if p.fin_active { n - 1 } else { n };
        (p.fin_active && i == n - 1) || (closed >= 1 && i == closed - 1)
    }

    fn oracle_epoch(t: &mut Toks, _: Tier) -> Result<OracleOut, String> {
        let c = parse_case(t)?;
        let (segs, ledger, root, donor) = damaged_files(&c)?;
        let mut o = OracleOut::default();
        let name = opname(&c.op);
        let changed = segs != root.segs || ledger.as_ref() != Some(&root.ledger);
        let dir = materialise(&segs, &ledger)?;
        let seen = observe(&dir, segs.len());
        let same_ids = c.donor.as_ref().is_some_and(|d| d.epoch == c.spec.epoch);
        // which transaction position the op targets (for the class of an accepted splice)
        let pos = c.op.split(':').nth(1).and_then(|s| s.parse::<usize>().ok()).unwrap_or(0);
        let target_retained = retained(&c.plan, epoch_of(&c.plan, pos));
        let splice_key = |gate: &str| {
            if same_ids {
                format!("C11.commit-chain-unchecked.transplant.same-epoch.{gate}")
            } else if !target_retained {
                format!("C11.pruned-epoch-unchecked.{name}.{gate}")
            } else {
                format!("C11.foreign-epoch-accepted.{name}.{gate}")
            }
        };
        let splice_text = |n: usize, gate: &str| {
            if same_ids {
                format!("after {name}: {gate} accepts a history with {n} transaction(s) never committed to this log, spliced from a sibling log written under the SAME writer-epoch ids — only previous_committed_transaction_digest / previous_frame_digest could tell, and they are not compared")
            } else if !target_retained {
                format!("after {name}: {gate} accepts {n} transaction(s) of a FOREIGN writer epoch inside the range of an epoch the bounded ledger has already pruned (markers below the retained start LSN are not checked)")
            } else {
                format!("after {name}: {gate} accepts {n} transaction(s) written under writer-epoch ids the ledger does not know, inside the range of an epoch it still holds — reconcile_writer_epoch_closures must fail with UnknownPreviousWriterEpoch")
            }
        };
        // gate 1: what a restarting host does — open the store, then scan it
        match (&seen.open, &seen.fs) {
            (Err(e), _) => o.tags.push(format!("root-open-err:{e}")),
            (Ok(()), Err(e)) => o.tags.push(format!("root-recover-err:{}", r_err(e).split('.').take(2).collect::<Vec<_>>().join("."))),
            (Ok(()), Ok(r)) => match shape_of(r, &root.committed, &donor) {
                Shape::Prefix(k) => {
                    o.tags.push(format!("root-prefix:{}", if k == root.committed.len() { "all".into() } else { k.to_string() }));
                    if ledger.is_none() && !root.committed.is_empty() && k > 0 {
                        o.fails.push(("C11.ledger-missing-accepted".into(), "the writer-epoch ledger file is gone, the log holds commits, and the store opens".into()));
                    }
                }
                Shape::HeadLost(a, k) => o.fails.push((
                    "C11.log-head-unanchored.root".into(),
                    format!("after {name}: the store opens and recovery returns committed transactions {}..{} of {} — the first {a} are gone; the ledger's started_at_lsn is not used as an anchor", a + 1, a + k, root.committed.len()),
                )),
                Shape::Spliced(n) => o.fails.push((splice_key("root"), splice_text(n, "open + recover_filesystem_store"))),
                Shape::Other(s) => o.fails.push((
                    format!("C11.non-prefix-recovered.{name}.root"),
                    format!("after {name}: the store opens and recovery succeeds with {s}, committed was T1..T{}", root.committed.len()),
                )),
            },
        }
        // recovery alone never consults the ledger (evidence only; the gate above is the property)
        if let (Err(_), Ok(r)) = (&seen.open, &seen.fs) {
            if !matches!(shape_of(r, &root.committed, &donor), Shape::Prefix(_)) {
                o.tags.push("ledger-is-the-only-barrier".into());
            }
        }
        if seen.fs.is_err() && seen.doc != "O" {
            o.fails.push(("C11.doctor-healthy-on-error".into(), format!("doctor posture {} although read-only recovery fails", seen.doc)));
        }
        if !changed {
            if let Err(e) = &seen.open {
                o.fails.push(("C11.root-intact-rejected".into(), format!("the store does not reopen on its own untouched root: {e}")));
            }
            if seen.next.starts_with("err") {
                o.fails.push(("C11.root-intact-rejected.next-epoch".into(), format!("no successor epoch on an untouched root: {}", seen.next)));
            }
        }
        // gate 2: the trusted runtime host's own adapter on a fresh copy of the damaged root
        let hdir = materialise(&segs, &ledger)?;
        let committed_digests: Vec<[u8; 32]> = root.committed.iter().map(|t| t.commit.commit_digest).collect();
        match TrustedRuntimeWal::from_config(TrustedRuntimeWalConfig::filesystem(&hdir.0)) {
            Err(_) => o.tags.push("host-err".into()),
            Ok(wal) => {
                let adopted: Vec<[u8; 32]> = wal.commits().iter().map(|c| c.commit_digest).collect();
                let is_prefix = adopted.len() <= committed_digests.len() && adopted[..] == committed_digests[..adopted.len()];
                if is_prefix {
                    o.tags.push(format!("host-prefix:{}", if adopted.len() == committed_digests.len() { "all".into() } else { adopted.len().to_string() }));
                } else {
                    let foreign = adopted.iter().filter(|d| !committed_digests.contains(d)).count();
                    if foreign > 0 && adopted.len() == committed_digests.len() {
                        o.fails.push((splice_key("host"), splice_text(foreign, "TrustedRuntimeWal::from_config")));
                    } else if foreign == 0 && !adopted.is_empty() && committed_digests.ends_with(&adopted) {
                        o.fails.push(("C11.log-head-unanchored.host".into(), format!("after {name}: TrustedRuntimeWal::from_config adopts a suffix of the committed history ({} of {} commits)", adopted.len(), committed_digests.len())));
                    } else {
                        o.fails.push((format!("C11.non-prefix-recovered.{name}.host"), format!("after {name}: TrustedRuntimeWal::from_config adopts {} commits, {foreign} of them never committed to this log", adopted.len())));
                    }
                }
            }
        }
        o.tags.push(format!("op:{name}"));
        o.tags.push(format!("plan:{}epochs-{}-{}", c.plan.counts.len(), if c.plan.fin_active { "active" } else { "closed" }, if c.plan.multi { "multiseg" } else { "oneseg" }));
        if c.donor.is_some() {
            o.tags.push(format!("donor:{}:{}", if same_ids { "same-ids" } else { "foreign-ids" }, if target_retained { "retained-range" } else { "pruned-range" }));
        }
        o.nontrivial = changed && root.committed.len() >= 2;
        Ok(o)
    }

    /// a log every transaction of which is a host-shaped submission acceptance (2 records: the
    /// acceptance record and its evidence digest), LSNs from 0, chain threaded — what
    /// `TrustedRuntimeWal::from_config` accepts semantically
    fn host_spec(rng: &mut Rng, ntx: usize, flavor: u8) -> LogSpec {
        let h = |a: &[u8]| *blake3::hash(a).as_bytes();
        let mut txs = Vec::new();
        for i in 0..ntx {
            let sid = h(&[0x51, flavor, i as u8]);
            let env = h(&[0x52, flavor, i as u8]);
            let evd = h(&[0x53, flavor, i as u8]);
            let mut payload = Vec::new();
            payload.extend_from_slice(&sid);
            payload.extend_from_slice(&env);
            payload.push(0);
            payload.extend_from_slice(&evd);
            txs.push(crate::c10::TxSpec {
                txid: h(&[0x54, flavor, i as u8]),
                kind: 1,
                records: vec![(1, payload), (2, evd.to_vec())],
                frontiers: vec![(1, h(&[0x55, flavor, i as u8]), h(&[0x56, flavor, i as u8]))],
            });
        }
        LogSpec {
            epoch: h(&[0xE0, flavor]),
            segment: 1,
            codec: h(b"verif:codec"),
            schema: h(b"verif:schema"),
            schema_version: 1,
            encoding_version: 1,
            domain: h(b"verif:domain"),
            durability: rng.range(1, 5),
            chain: true,
            pf: h(&[0xF0, flavor]),
            pc: h(&[0xF8, flavor]),
            first_lsn: 0,
            txs,
        }
    }

    fn split_plan(rng: &mut Rng, ntx: usize, nep: usize, fin_active: bool, multi: bool) -> Plan {
        // every epoch but possibly the last commits at least one transaction
        let mut counts = vec![1usize; nep];
        let mut left = ntx.saturating_sub(nep);
        if fin_active && ntx >= nep && rng.chance(1, 4) {
            // a restarted host that has not committed anything yet
            counts[nep - 1] = 0;
            left += 1;
        }
        while left > 0 {
            let i = rng.below(nep as u64) as usize;
            counts[i] += 1;
            left -= 1;
        }
        Plan { counts, fin_active, multi }
    }

    fn gen_epoch(rng: &mut Rng, tier: Tier) -> Vec<String> {
        let roots = if tier == Tier::Thorough { 24 } else { 5 };
        let mut out = Vec::new();
        for ri in 0..roots {
            // shapes: [closed, active] first (the restarted host), then 1 / 3 epochs, closed tails, multi-segment
            let (nep, fin_active, multi) = match ri % 5 {
                0 => (2, true, false),
                1 => (2, true, true),
                2 => (3, true, ri % 2 == 0),
                3 => (1, true, false),
                _ => (2, false, rng.chance(1, 2)),
            };
            let hostlike = ri % 2 == 0;
            let spec = if hostlike {
                let n = rng.range(nep as u64 + 1, 5) as usize;
                host_spec(rng, n, ri as u8)
            } else {
                loop {
                    let mut s = gen_spec(rng, 5, 8);
                    s.segment = 1;
                    // the store refuses a successor epoch that starts at u64 overflow; keep LSNs small enough
                    if s.txs.len() > nep {
                        break s;
                    }
                }
            };
            let ntx = spec.txs.len();
            let plan = split_plan(rng, ntx, nep, fin_active, multi);
            let Ok(root) = write_root(&spec, &plan) else { continue };
            let (pl, lh, sp) = (render_plan(&plan), crate::util::hex(&root.ledger), render_spec(&spec));
            // donors: same shape, different content; once under the SAME epoch ids, once under FOREIGN ones
            let mut same = if hostlike { host_spec(rng, ntx, ri as u8 ^ 0x80) } else { donor_of(rng, &spec, 0, false) };
            if hostlike {
                same.durability = spec.durability;
            } else {
                for k in 0..ntx {
                    let d = donor_of(rng, &spec, k, false);
                    same.txs[k] = d.txs[k].clone();
                }
            }
            same.epoch = spec.epoch;
            let mut foreign = same.clone();
            foreign.epoch = *blake3::hash(&[0xEF, ri as u8]).as_bytes();
            let (sd, fd) = (render_spec(&same), render_spec(&foreign));
            out.push(format!("none {pl} {lh} {sp}"));
            for k in 0..ntx {
                out.push(format!("transplant:{k} {pl} {lh} {sp} D {fd}"));
                out.push(format!("transplant:{k} {pl} {lh} {sp} D {sd}"));
                if tier == Tier::Thorough || rng.chance(1, 2) {
                    out.push(format!("transplant-commit:{k} {pl} {lh} {sp} D {fd}"));
                }
                if tier == Tier::Thorough || rng.chance(1, 3) {
                    out.push(format!("del-tx:{k} {pl} {lh} {sp}"));
                    out.push(format!("dup-tx:{k} {pl} {lh} {sp}"));
                }
            }
            let nrec: usize = spec.txs.iter().map(|t| t.records.len() + 1).sum();
            for _ in 0..(if tier == Tier::Thorough { 8 } else { 2 }) {
                let i = rng.below(nrec as u64);
                out.push(format!("transplant-frame:{i} {pl} {lh} {sp} D {fd}"));
                out.push(format!("del:{i} {pl} {lh} {sp}"));
                out.push(format!("swap:{i} {pl} {lh} {sp}"));
            }
            // the ledger itself
            let llen = root.ledger.len();
            out.push(format!("l-del {pl} {lh} {sp}"));
            for _ in 0..(if tier == Tier::Thorough { 24 } else { 4 }) {
                out.push(format!("l-flip:{}:{} {pl} {lh} {sp}", rng.below(llen as u64), rng.below(8)));
            }
            for n in [0usize, 17, llen / 2, llen - 1] {
                out.push(format!("l-trunc:{n} {pl} {lh} {sp}"));
            }
        }
        out
    }
}
