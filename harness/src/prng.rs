//! SplitMix64: every random choice of the harness derives from one state.
#[derive(Clone)]
pub struct Rng(pub u64);

impl Rng {
    pub fn new(seed: u64) -> Self {
        Rng(seed.wrapping_mul(0x9E37_79B9_7F4A_7C15) ^ 0xD1B5_4A32_D192_ED03)
    }
    pub fn next(&mut self) -> u64 {
        self.0 = self.0.wrapping_add(0x9E37_79B9_7F4A_7C15);
        let mut z = self.0;
        z = (z ^ (z >> 30)).wrapping_mul(0xBF58_476D_1CE4_E5B9);
        z = (z ^ (z >> 27)).wrapping_mul(0x94D0_49BB_1331_11EB);
        z ^ (z >> 31)
    }
    /// uniform in 0..n (n > 0)
    pub fn below(&mut self, n: u64) -> u64 {
        self.next() % n
    }
    pub fn range(&mut self, lo: u64, hi_incl: u64) -> u64 {
        lo + self.below(hi_incl - lo + 1)
    }
    pub fn chance(&mut self, num: u64, den: u64) -> bool {
        self.below(den) < num
    }
    pub fn pick<'a, T>(&mut self, xs: &'a [T]) -> &'a T {
        &xs[self.below(xs.len() as u64) as usize]
    }
    pub fn bytes(&mut self, n: usize) -> Vec<u8> {
        (0..n).map(|_| self.next() as u8).collect()
    }
    pub fn shuffle<T>(&mut self, xs: &mut [T]) {
        for i in (1..xs.len()).rev() {
            let j = self.below(i as u64 + 1) as usize;
            xs.swap(i, j);
        }
    }
    pub fn fork(&mut self) -> Rng {
        Rng(self.next())
    }
}
