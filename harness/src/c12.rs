//! C12 — canonical encodings are bijective.
//! Real code: `echo_wasm_abi::canonical::{encode_value, decode_value}` (ABI CBOR),
//! `echo_wasm_abi::{pack_intent_v1, unpack_intent_v1}` (EINT), `echo_wasm_abi::codec::{Reader, Writer}`
//! (LE primitives), `echo_wasm_abi::eintlog` (ELOG header/frames),
//! `warp_core::IngressEnvelope::{to_retained_bytes_v2, from_retained_bytes}` (retained ingress).
use crate::prng::Rng;
use crate::util::{hex, unhex, Toks};
use crate::{OracleOut, Stream, Tier};
use ciborium::value::{Integer, Value};
use echo_wasm_abi::canonical::{decode_value, encode_value, CanonError, MAX_DECODE_NESTING_DEPTH};

pub fn streams() -> Vec<Stream> {
    vec![
        Stream { name: "C12.abi.enc", gen: gen_abi_enc, imp: imp_abi_enc, oracle: oracle_abi_enc },
        Stream { name: "C12.abi.dec", gen: gen_abi_dec, imp: imp_abi_dec, oracle: oracle_abi_dec },
    ]
}

// ------------------------------------------------------------------ value terms
// n | t | f | i <dec> | d <16 hex: f64 bits> | s <hex utf8> | b <hex> | a <n> item… | m <n> k v … | g <tag> v

fn parse_val(t: &mut Toks, depth: usize) -> Result<Value, String> {
    if depth > 600 {
        return Err("too deep".into());
    }
    match t.next()? {
        "n" => Ok(Value::Null),
        "t" => Ok(Value::Bool(true)),
        "f" => Ok(Value::Bool(false)),
        "i" => {
            let s = t.next()?;
            let n: i128 = s.parse().map_err(|e| format!("bad int {s}: {e}"))?;
            Integer::try_from(n).map(Value::Integer).map_err(|_| format!("int out of CBOR range {s}"))
        }
        "d" => {
            let s = t.next()?;
            let bits = u64::from_str_radix(s, 16).map_err(|e| format!("bad float bits {s}: {e}"))?;
            Ok(Value::Float(f64::from_bits(bits)))
        }
        "s" => {
            let b = t.bytes()?;
            String::from_utf8(b).map(Value::Text).map_err(|_| "text not utf8".to_string())
        }
        "b" => Ok(Value::Bytes(t.bytes()?)),
        "a" => {
            let n = t.num()?;
            let mut xs = Vec::new();
            for _ in 0..n {
                xs.push(parse_val(t, depth + 1)?);
            }
            Ok(Value::Array(xs))
        }
        "m" => {
            let n = t.num()?;
            let mut es = Vec::new();
            for _ in 0..n {
                let k = parse_val(t, depth + 1)?;
                let v = parse_val(t, depth + 1)?;
                es.push((k, v));
            }
            Ok(Value::Map(es))
        }
        "g" => {
            let tag = t.num()?;
            Ok(Value::Tag(tag, Box::new(parse_val(t, depth + 1)?)))
        }
        o => Err(format!("bad value token {o}")),
    }
}

fn show_val(v: &Value, out: &mut String) {
    match v {
        Value::Null => out.push_str("n"),
        Value::Bool(true) => out.push_str("t"),
        Value::Bool(false) => out.push_str("f"),
        Value::Integer(i) => out.push_str(&format!("i {}", i128::from(*i))),
        Value::Float(f) => out.push_str(&format!("d {:016x}", f.to_bits())),
        Value::Text(s) => out.push_str(&format!("s {}", hex(s.as_bytes()))),
        Value::Bytes(b) => out.push_str(&format!("b {}", hex(b))),
        Value::Array(xs) => {
            out.push_str(&format!("a {}", xs.len()));
            for x in xs {
                out.push(' ');
                show_val(x, out);
            }
        }
        Value::Map(es) => {
            out.push_str(&format!("m {}", es.len()));
            for (k, v) in es {
                out.push(' ');
                show_val(k, out);
                out.push(' ');
                show_val(v, out);
            }
        }
        Value::Tag(t, v) => {
            out.push_str(&format!("g {t} "));
            show_val(v, out);
        }
        _ => out.push_str("other"),
    }
}

fn val_str(v: &Value) -> String {
    let mut s = String::new();
    show_val(v, &mut s);
    s
}

fn err_class(e: &CanonError) -> &'static str {
    match e {
        CanonError::Incomplete => "Incomplete",
        CanonError::Trailing => "Trailing",
        CanonError::Tag => "Tag",
        CanonError::Indefinite => "Indefinite",
        CanonError::NonCanonicalInt => "NonCanonicalInt",
        CanonError::NonCanonicalFloat => "NonCanonicalFloat",
        CanonError::FloatShouldBeInt => "FloatShouldBeInt",
        CanonError::MapKeyOrder => "MapKeyOrder",
        CanonError::MapKeyDuplicate => "MapKeyDuplicate",
        CanonError::Decode(_) => "Decode",
        CanonError::Encode(_) => "Encode",
        CanonError::NestingLimitExceeded => "NestingLimitExceeded",
    }
}

/// Bit-exact structural equality (ciborium's PartialEq compares floats numerically: NaN != NaN).
fn same(a: &Value, b: &Value) -> bool {
    val_str(a) == val_str(b)
}

// ------------------------------------------------------------------ C12.abi.enc

fn imp_abi_enc(t: &mut Toks) -> Result<String, String> {
    let v = parse_val(t, 0)?;
    if !t.done() {
        return Err("trailing tokens".into());
    }
    Ok(match encode_value(&v) {
        Err(e) => format!("err {}", err_class(&e)),
        Ok(b) => match decode_value(&b) {
            // `nf` = the value read back; the model prints its `norm v` there (ties the Lean
            // definition of the normal form to the real decode∘encode)
            Ok(w) => format!("ok {} rt ok {} nf {}", hex(&b), val_str(&w), val_str(&w)),
            Err(e) => format!("ok {} rt err {} nf -", hex(&b), err_class(&e)),
        },
    })
}

const TWO63: f64 = 9_223_372_036_854_775_808.0;
const TWO64: f64 = 18_446_744_073_709_551_616.0;

/// The documented normalisation, written independently of the encoder: integral floats inside the
/// i64/u64 integer range become integers, NaN becomes the canonical NaN, map entries are ordered by
/// their encoded key. `Err(reason)` = the value is outside the codec's domain (encode must fail).
fn norm(v: &Value, tags: &mut Vec<String>) -> Result<Value, &'static str> {
    Ok(match v {
        Value::Integer(i) => {
            if i128::from(*i) < i128::from(i64::MIN) {
                tags.push("int-below-i64".into());
                return Err("int-below-i64");
            }
            v.clone()
        }
        Value::Float(f) => {
            if f.is_nan() {
                tags.push("float:nan".into());
                Value::Float(f64::from_bits(0x7ff8_0000_0000_0000))
            } else if f.is_infinite() {
                tags.push("float:inf".into());
                v.clone()
            } else if f.fract() == 0.0 && *f >= -TWO63 && *f < TWO64 {
                tags.push("float:integral-in-range".into());
                Value::Integer(Integer::try_from(*f as i128).map_err(|_| "unreachable")?)
            } else {
                if f.fract() == 0.0 {
                    tags.push("float:integral-out-of-range".into());
                } else if f.is_subnormal() {
                    tags.push("float:subnormal".into());
                } else {
                    tags.push("float:fractional".into());
                }
                v.clone()
            }
        }
        Value::Array(xs) => {
            let mut out = Vec::new();
            for x in xs {
                out.push(norm(x, tags)?);
            }
            Value::Array(out)
        }
        Value::Map(es) => {
            let mut out: Vec<(Vec<u8>, Value, Value)> = Vec::new();
            for (k, x) in es {
                let nk = norm(k, tags)?;
                let nx = norm(x, tags)?;
                // key order is defined on the encoding of the key (RFC 8949 §4.2.1 bytewise)
                let kb = encode_value(&nk).map_err(|_| "key-not-encodable")?;
                out.push((kb, nk, nx));
            }
            out.sort_by(|a, b| a.0.cmp(&b.0));
            if out.windows(2).any(|w| w[0].0 == w[1].0) {
                tags.push("dup-key".into());
                return Err("dup-key");
            }
            Value::Map(out.into_iter().map(|(_, k, x)| (k, x)).collect())
        }
        Value::Tag(_, _) => {
            tags.push("tag".into());
            return Err("tag");
        }
        _ => v.clone(),
    })
}

/// Number of nested containers (0 for a scalar). The decoder reads back at most
/// `MAX_DECODE_NESTING_DEPTH` of them, so a deeper value is outside the codec's domain: the
/// encoder has to refuse it (or the round trip has to work anyway).
fn nesting(v: &Value) -> usize {
    match v {
        Value::Array(xs) => 1 + xs.iter().map(nesting).max().unwrap_or(0),
        Value::Map(es) => 1 + es.iter().map(|(k, x)| nesting(k).max(nesting(x))).max().unwrap_or(0),
        Value::Tag(_, x) => nesting(x),
        _ => 0,
    }
}

fn reverse_maps(v: &Value) -> Value {
    match v {
        Value::Array(xs) => Value::Array(xs.iter().map(reverse_maps).collect()),
        Value::Map(es) => {
            let mut out: Vec<(Value, Value)> = es.iter().map(|(k, x)| (reverse_maps(k), reverse_maps(x))).collect();
            out.reverse();
            Value::Map(out)
        }
        Value::Tag(t, x) => Value::Tag(*t, Box::new(reverse_maps(x))),
        _ => v.clone(),
    }
}

fn has_float_class(v: &Value, pred: &dyn Fn(f64) -> bool) -> bool {
    match v {
        Value::Float(f) => pred(*f),
        Value::Array(xs) => xs.iter().any(|x| has_float_class(x, pred)),
        Value::Map(es) => es.iter().any(|(k, x)| has_float_class(k, pred) || has_float_class(x, pred)),
        Value::Tag(_, x) => has_float_class(x, pred),
        _ => false,
    }
}

fn oracle_abi_enc(t: &mut Toks, _tier: Tier) -> Result<OracleOut, String> {
    let v = parse_val(t, 0)?;
    let mut o = OracleOut::default();
    let expected = norm(&v, &mut o.tags);
    let depth = nesting(&v);
    let too_deep = depth > MAX_DECODE_NESTING_DEPTH;
    if depth + 2 >= MAX_DECODE_NESTING_DEPTH {
        o.tags.push(format!("nesting:{}", if too_deep { "over-limit" } else { "at-limit" }));
    }
    o.tags.sort();
    o.tags.dedup();
    let enc = encode_value(&v);
    // determinism: same value twice, and with every map's entry order reversed
    let enc2 = encode_value(&v.clone());
    let enc3 = encode_value(&reverse_maps(&v));
    if enc != enc2 || enc.as_ref().ok() != enc3.as_ref().ok() {
        o.fails.push(("C12.abi.encode-nondeterministic".into(), "encoding depends on more than the value (repeat / map entry order)".into()));
    }
    let oob = |f: f64| f.is_finite() && f.fract() == 0.0 && !(f >= -TWO63 && f < TWO64);
    match (&enc, &expected) {
        (Err(e), Err(_)) => {
            o.tags.push(format!("enc-err:{}", err_class(e)));
        }
        // deeper than the decoder reads back: refusing is the only way to keep the round trip
        (Err(e), Ok(_)) if too_deep => {
            o.tags.push(format!("enc-err:{}", err_class(e)));
            if !matches!(e, CanonError::NestingLimitExceeded) {
                o.fails.push(("C12.abi.encode-error-class.nesting".into(), format!("a value nested {depth} deep (nothing else wrong) is refused with {}", err_class(e))));
            }
        }
        (Err(e), Ok(_)) => o.fails.push((
            "C12.abi.encode-refuses-domain-value".into(),
            format!("a value inside the codec's domain does not encode: {}", err_class(e)),
        )),
        (Ok(b), Err(why)) => {
            // outside the domain but encoded: it must at least not decode to something else silently
            let key = if *why == "int-below-i64" { "C12.abi.roundtrip.negint-below-i64" } else { "C12.abi.encodes-out-of-domain" };
            o.fails.push((key.into(), format!("value outside the codec domain ({why}) encodes to {} which decodes to {:?}", hex(b), decode_value(b).map(|w| val_str(&w)).map_err(|e| err_class(&e)))));
        }
        (Ok(b), Ok(want)) => {
            o.tags.push(format!("len={}", match b.len() { 0..=1 => "1", 2..=9 => "2-9", 10..=99 => "10-99", _ => "100+" }));
            match decode_value(b) {
                Ok(got) if same(&got, want) => {
                    // canonical: the decoded value re-encodes to the same bytes
                    if encode_value(&got).ok().as_deref() != Some(b.as_slice()) {
                        o.fails.push(("C12.abi.reencode-differs".into(), "encode(decode(encode v)) != encode v".into()));
                    }
                }
                other => {
                    let key = if has_float_class(&v, &oob) {
                        "C12.abi.roundtrip.float-out-of-int-range"
                    } else if too_deep {
                        // STRICT: the encoder produced bytes for a value the decoder does not read back
                        "C12.abi.roundtrip.nesting-limit"
                    } else {
                        "C12.abi.roundtrip.other"
                    };
                    o.fails.push((
                        key.into(),
                        format!("decode(encode v) = {:?}, expected {}; bytes {}", other.map(|w| val_str(&w)).map_err(|e| err_class(&e)), val_str(want), hex(b)),
                    ));
                }
            }
        }
    }
    o.nontrivial = !matches!(v, Value::Null | Value::Bool(_));
    Ok(o)
}

// ---- generators

const EDGE_INTS: [i128; 40] = [
    0, 1, 22, 23, 24, 25, 254, 255, 256, 257, 65534, 65535, 65536, 65537, 4294967294, 4294967295, 4294967296,
    4294967297, 9223372036854775806, 9223372036854775807, 9223372036854775808, 18446744073709551614,
    18446744073709551615, -1, -23, -24, -25, -26, -255, -256, -257, -65536, -65537, -4294967296, -4294967297,
    -9223372036854775807, -9223372036854775808, -9223372036854775809, -18446744073709551615, -18446744073709551616,
];

fn edge_floats() -> Vec<u64> {
    let mut v: Vec<u64> = vec![
        0x0000000000000000, 0x8000000000000000, // ±0
        0x0000000000000001, 0x800fffffffffffff, 0x0008000000000000, // f64 subnormals
        0x7ff0000000000000, 0xfff0000000000000, // ±inf
        0x7ff8000000000000, 0xfff8000000000000, 0x7ff0000000000001, 0x7ff8000000000001, 0xffffffffffffffff, 0x7ff4000000000000, // NaNs
        0x3ff8000000000000, 0xbff8000000000000, // ±1.5 (f16)
        0x3fb999999999999a, // 0.1 (f64 only)
        0x3fb99999a0000000, // 0.1f32 widened (f32 only)
        0x3e70000000000000, // 2^-24  smallest f16 subnormal
        0x3e80000000000000, // 2^-23
        0x3f0ff80000000000, // largest f16 subnormal 1023*2^-24
        0x3f10000000000000, // 2^-14 smallest f16 normal
        0x3e60000000000000, // 2^-25 (not f16; f32)
        0x3e78000000000000, // 1.5*2^-24 (not f16)
        0x40effc0000000000, // 65504 integral
        0x40dfff0000000000, // 32764 integral
        0x3fe0000000000000, 0x3fd5555555555555, 0x3fefffffffffffff, 0x3ff0000000000001,
        0x36a0000000000000, // 2^-149 smallest f32 subnormal
        0x3690000000000000, // 2^-150 (f64 only)
        0x36b8000000000000, // 1.5*2^-148 = 3*2^-149 f32 subnormal
        0x380fffffc0000000, // largest f32 subnormal
        0x3810000000000000, // 2^-126 smallest f32 normal
        0x380ffffff0000000, // between: needs 25 bits -> f64 only
        0x47efffffe0000000, // f32::MAX (integral, out of int range)
        0x47effffff0000000, // just above f32::MAX (rounds to inf in f32)
        0x47f0000000000000, // 2^128
        0x7fefffffffffffff, 0xffefffffffffffff, // ±f64::MAX
        0x4340000000000000, 0x433fffffffffffff, 0x4340000000000001, // around 2^53
        0x43e0000000000000, 0xc3e0000000000000, 0x43dfffffffffffff, 0xc3e0000000000001, // ±2^63 and neighbours
        0x43f0000000000000, 0x43efffffffffffff, 0x43f0000000000001, 0xc3f0000000000000, // 2^64 and neighbours, -2^64
        0x46293e5939a08cea, 0xc6293e5939a08cea, // ±1e30
        0x47e0000000000000, 0xc7e0000000000000, 0x47dfffffffffffff, // ±2^127
        0x4059000000000000, 0x4059100000000000, // 100.0, 100.25
        0x3ff0000000000000, 0xbff0000000000000, 0x4037000000000000, 0x4038000000000000, // 1,-1,23,24
    ];
    // every f16 exponent, one fractional mantissa each (widened exactly)
    for e in 0u64..31 {
        let h = ((e << 10) | 0x155) as u16;
        v.push(half_to_f64_bits(h));
        v.push(half_to_f64_bits(h | 0x8000));
    }
    v
}

/// exact f16 -> f64 widening on bit patterns (generator helper only)
fn half_to_f64_bits(h: u16) -> u64 {
    let s = u64::from(h >> 15) << 63;
    let e = u64::from((h >> 10) & 0x1f);
    let m = u64::from(h & 0x3ff);
    if e == 31 {
        return s | 0x7ff0_0000_0000_0000 | (m << 42);
    }
    if e == 0 {
        if m == 0 {
            return s;
        }
        let val = (m as f64) * (2.0f64).powi(-24);
        return s | val.to_bits();
    }
    s | ((e + 1023 - 15) << 52) | (m << 42)
}

fn gen_scalar(rng: &mut Rng) -> String {
    match rng.below(12) {
        0 => "n".into(),
        1 => (if rng.chance(1, 2) { "t" } else { "f" }).into(),
        2 | 3 => format!("i {}", rng.pick(&EDGE_INTS)),
        4 => {
            let mag = (rng.next() >> rng.below(64)) as i128;
            format!("i {}", if rng.chance(1, 2) { mag } else { -1 - mag.min(i128::from(i64::MAX)) })
        }
        5 | 6 => format!("d {:016x}", rng.pick(&edge_floats())),
        7 => {
            // random float of a random class
            let bits = match rng.below(5) {
                0 => rng.next(),
                1 => f64::from(f32::from_bits(rng.next() as u32)).to_bits(),
                2 => half_to_f64_bits(rng.next() as u16),
                3 => ((rng.next() >> rng.below(60)) as f64 * if rng.chance(1, 2) { 1.0 } else { -1.0 }).to_bits(),
                _ => ((rng.below(2000) as f64 - 1000.0) / 8.0).to_bits(),
            };
            format!("d {bits:016x}")
        }
        8 | 9 => {
            let pool = ["", "a", "b", "aa", "ab", "é", "€", "😀", "key", "kez", "k", "\u{0}", "\u{7f}", "\u{80}", "\u{7ff}", "\u{800}", "\u{ffff}", "\u{10000}", "\u{10ffff}"];
            let mut s = String::new();
            for _ in 0..rng.below(4) {
                s.push_str(*rng.pick(&pool[..]));
            }
            if rng.chance(1, 12) {
                s = "x".repeat(*rng.pick(&[23usize, 24, 255, 256]));
            }
            format!("s {}", hex(s.as_bytes()))
        }
        _ => {
            let n = if rng.chance(1, 12) { *rng.pick(&[23usize, 24, 255, 256, 300]) } else { rng.below(5) as usize };
            format!("b {}", hex(&rng.bytes(n)))
        }
    }
}

fn gen_value(rng: &mut Rng, depth: u32, allow_tag: bool) -> String {
    if depth == 0 || rng.chance(2, 5) {
        return gen_scalar(rng);
    }
    match rng.below(9) {
        0..=3 => {
            let n = if rng.chance(1, 15) { *rng.pick(&[23u64, 24, 30]) } else { rng.below(5) };
            let mut s = format!("a {n}");
            for _ in 0..n {
                s.push(' ');
                s.push_str(&gen_value(rng, depth - 1, allow_tag));
            }
            s
        }
        4..=7 => {
            let n = if rng.chance(1, 20) { 24 } else { rng.below(6) };
            let mut s = format!("m {n}");
            for i in 0..n {
                s.push(' ');
                // keys whose encodings sort differently from their values: 10 < 9 by bytes? (0x0a vs 0x09),
                // 24 (18 18) vs -1 (20), "b" (61 62) vs 100 (18 64), 1.5 (f9..) vs text, [..] vs ints
                let k = match rng.below(8) {
                    0 => format!("i {}", rng.pick(&[0i64, 9, 10, 23, 24, 100, 255, 256, 1000, 65536, -1, -24, -25, -256, -257])),
                    1 => format!("s {}", hex(rng.pick(&["", "a", "b", "aa", "z", "aaa"]).as_bytes())),
                    2 => format!("d {:016x}", rng.pick(&[0x3ff8000000000000u64, 0xbff8000000000000, 0x3fb999999999999a, 0x7ff8000000000000, 0x3ff0000000000000, 0x4024000000000000])),
                    3 => gen_value(rng, depth - 1, false),
                    4 => {
                        let n = rng.below(3) as usize;
                        format!("b {}", hex(&rng.bytes(n)))
                    }
                    _ => format!("i {}", i * 7 + rng.below(7)),
                };
                s.push_str(&k);
                s.push(' ');
                s.push_str(&gen_value(rng, depth - 1, allow_tag));
            }
            s
        }
        _ => {
            if allow_tag && rng.chance(1, 3) {
                format!("g {} {}", rng.below(40), gen_value(rng, depth - 1, allow_tag))
            } else {
                gen_scalar(rng)
            }
        }
    }
}

fn gen_abi_enc(rng: &mut Rng, tier: Tier) -> Vec<String> {
    let mut out = Vec::new();
    for i in EDGE_INTS {
        out.push(format!("i {i}"));
    }
    for f in edge_floats() {
        out.push(format!("d {f:016x}"));
    }
    // deep nesting, around MAX_DECODE_NESTING_DEPTH (128): arrays, maps nested in the value, maps
    // nested in the KEY, alternating, and an empty container as the innermost item
    for d in [1usize, 5, 60, 126, 127, 128, 129, 130, 200] {
        let rep = |unit: &str, tail: &str| {
            let mut s = String::new();
            for _ in 0..d {
                s.push_str(unit);
            }
            s.push_str(tail);
            s
        };
        out.push(rep("a 1 ", "i 7"));
        out.push(rep("m 1 i 1 ", "n"));
        out.push(rep("a 1 ", "a 0"));
        out.push(rep("a 1 ", "m 0"));
        out.push(rep("m 1 i 1 ", "a 2 i 1 d 3ff8000000000000"));
        // key nested d deep: m 1 (m 1 (… i 1 …) n) n
        let mut s = String::new();
        for _ in 0..d {
            s.push_str("m 1 ");
        }
        s.push_str("i 1");
        for _ in 0..d {
            s.push_str(" n");
        }
        out.push(s);
        let mut s = String::new();
        for i in 0..d {
            s.push_str(if i % 2 == 0 { "a 1 " } else { "m 1 s 6b " });
        }
        s.push_str("d 7ff8000000000001");
        out.push(s);
        // a deep item next to shallow ones (the deepest path decides)
        out.push(format!("a 3 i 1 {} s 61", rep("a 1 ", "n")));
        out.push(format!("m 2 i 2 {} i 1 t", rep("a 1 ", "f")));
    }
    // order of the encoder's errors at the limit (container check first; keys before values)
    {
        let deep = |n: usize, tail: &str| {
            let mut s = String::new();
            for _ in 0..n {
                s.push_str("a 1 ");
            }
            s.push_str(tail);
            s
        };
        out.push(deep(128, "g 1 n")); // Tag (a scalar position at depth 128 is fine)
        out.push(deep(128, "a 1 g 1 n")); // NestingLimitExceeded before the item's Tag
        out.push(deep(128, "m 2 i 1 t i 1 f")); // NestingLimitExceeded before MapKeyDuplicate
        out.push(deep(128, "i -9223372036854775809")); // Encode
        out.push(format!("m 2 i 1 {} g 1 n n", deep(129, "n"))); // key Tag before the value's nesting
        out.push(format!("m 2 i 1 {} i 1 n", deep(129, "n"))); // MapKeyDuplicate before the value's nesting
        out.push(format!("m 2 {} n g 1 n n", deep(128, "n"))); // first key's nesting before second key's Tag
        out.push(format!("a 2 {} g 1 n", deep(129, "n"))); // first item's nesting before the Tag
        out.push(format!("a 2 g 1 n {}", deep(129, "n"))); // Tag first
    }
    // wide
    for n in [23usize, 24, 255, 256, 1000] {
        let mut s = format!("a {n}");
        for i in 0..n {
            s.push_str(&format!(" i {}", i * 37 % 300));
        }
        out.push(s);
        let mut s = format!("m {n}");
        for i in 0..n {
            // descending insertion order, keys crossing the 1/2/3-byte head boundaries
            s.push_str(&format!(" i {} t", (n - i) * 3));
        }
        out.push(s);
    }
    // key collisions after normalisation: 1.0 vs 1, NaN vs NaN, -0.0 vs 0
    out.push("m 2 i 1 t d 3ff0000000000000 f".into());
    out.push("m 2 d 7ff8000000000000 t d fff8000000000001 f".into());
    out.push("m 2 i 0 t d 8000000000000000 f".into());
    out.push("m 2 s 61 t s 61 f".into());
    out.push("m 3 i 10 t i 9 f s 61 n".into());
    out.push("m 2 a 1 i 1 t a 1 d 3ff0000000000000 f".into());
    out.push("g 1 i 5".into());
    out.push("a 2 i 1 g 0 s 61".into());
    let n = if tier == Tier::Thorough { 12000 } else { 900 };
    for _ in 0..n {
        let d = rng.range(0, 4) as u32;
        out.push(gen_value(rng, d, true));
    }
    out
}

// ------------------------------------------------------------------ C12.abi.dec
// payload: <hex bytes> <label>

/// Labels of structure-aware mutations after which the decoder MUST reject.
const MUST_REJECT: [&str; 6] = ["mut:widen-head", "mut:indefinite", "mut:tag", "mut:append", "mut:swap-keys", "mut:dup-key"];

fn imp_abi_dec(t: &mut Toks) -> Result<String, String> {
    let b = t.bytes()?;
    let _label = t.next()?;
    Ok(match decode_value(&b) {
        Err(e) => format!("err {}", err_class(&e)),
        Ok(v) => match encode_value(&v) {
            Ok(r) => format!("ok {} re ok {}", val_str(&v), hex(&r)),
            Err(e) => format!("ok {} re err {}", val_str(&v), err_class(&e)),
        },
    })
}

fn oracle_abi_dec(t: &mut Toks, _tier: Tier) -> Result<OracleOut, String> {
    let b = t.bytes()?;
    let label = t.next()?.to_string();
    let mut o = OracleOut::default();
    o.tags.push(format!("src:{label}"));
    match decode_value(&b) {
        Err(e) => {
            o.tags.push(format!("rej:{}", err_class(&e)));
        }
        Ok(v) => {
            o.tags.push("accepted".into());
            o.nontrivial = true;
            if MUST_REJECT.contains(&label.as_str()) {
                o.fails.push((format!("C12.abi.accepted.{}", &label[4..]), format!("decoder accepted {} produced by {label}", hex(&b))));
            }
            let has_nan = has_float_class(&v, &|f: f64| f.is_nan());
            match encode_value(&v) {
                Ok(r) if r == b => {}
                Ok(r) => {
                    let key = if has_nan { "C12.abi.accepted-noncanonical.nan-payload" } else { "C12.abi.accepted-noncanonical.other" };
                    o.fails.push((key.into(), format!("decoder accepts {} as {} but that value encodes as {}", hex(&b), val_str(&v), hex(&r))));
                }
                Err(e) => o.fails.push((
                    "C12.abi.accepted-unencodable".into(),
                    format!("decoder accepts {} as {} which does not encode: {}", hex(&b), val_str(&v), err_class(&e)),
                )),
            }
            // decoding is a function of the bytes
            if decode_value(&b).ok().map(|w| val_str(&w)) != Some(val_str(&v)) {
                o.fails.push(("C12.abi.decode-nondeterministic".into(), "two decodes differ".into()));
            }
        }
    }
    Ok(o)
}

/// Conservative filter: the ABI decoder pre-allocates `len` array/map slots (C13's subject); keep
/// C12's byte-level inputs away from multi-gigabyte array/map heads so the process cannot abort.
fn alloc_safe(b: &[u8]) -> bool {
    for i in 0..b.len() {
        let (w, ok) = match b[i] {
            0x9a | 0xba => (4usize, true),
            0x9b | 0xbb => (8usize, true),
            _ => (0, false),
        };
        if ok {
            let mut v: u128 = 0;
            for j in 0..w {
                v = (v << 8) | u128::from(*b.get(i + 1 + j).unwrap_or(&0xff));
            }
            if v > (1 << 20) {
                return false;
            }
        }
    }
    true
}

/// positions of item heads in a VALID canonical encoding (pre-order), with head width
fn walk_heads(b: &[u8]) -> Vec<(usize, usize, u8, u64)> {
    // (offset, head_len, major, arg)
    fn go(b: &[u8], i: &mut usize, out: &mut Vec<(usize, usize, u8, u64)>) -> Option<()> {
        let b0 = *b.get(*i)?;
        let major = b0 >> 5;
        let info = b0 & 0x1f;
        let w = match info {
            0..=23 => 0usize,
            24 => 1,
            25 => 2,
            26 => 4,
            27 => 8,
            _ => return None,
        };
        let mut arg = u64::from(info);
        if w > 0 {
            arg = 0;
            for j in 0..w {
                arg = (arg << 8) | u64::from(*b.get(*i + 1 + j)?);
            }
        }
        out.push((*i, 1 + w, major, arg));
        *i += 1 + w;
        match major {
            2 | 3 => *i += arg as usize,
            4 => {
                for _ in 0..arg {
                    go(b, i, out)?;
                }
            }
            5 => {
                for _ in 0..arg * 2 {
                    go(b, i, out)?;
                }
            }
            _ => {}
        }
        Some(())
    }
    let mut out = Vec::new();
    let mut i = 0;
    let _ = go(b, &mut i, &mut out);
    out
}

fn head_bytes(major: u8, info: u8, arg: u64) -> Vec<u8> {
    let mut v = vec![(major << 5) | info];
    match info {
        24 => v.push(arg as u8),
        25 => v.extend_from_slice(&(arg as u16).to_be_bytes()),
        26 => v.extend_from_slice(&(arg as u32).to_be_bytes()),
        27 => v.extend_from_slice(&arg.to_be_bytes()),
        _ => {}
    }
    v
}

fn item_end(b: &[u8], start: usize) -> usize {
    // end offset of the item starting at `start` in a valid encoding
    let hs = walk_heads(&b[start..]);
    // re-walk just one item
    fn one(b: &[u8], i: &mut usize) -> Option<()> {
        let b0 = *b.get(*i)?;
        let major = b0 >> 5;
        let info = b0 & 0x1f;
        let w = match info {
            0..=23 => 0usize,
            24 => 1,
            25 => 2,
            26 => 4,
            27 => 8,
            _ => return None,
        };
        let mut arg = u64::from(info);
        if w > 0 {
            arg = 0;
            for j in 0..w {
                arg = (arg << 8) | u64::from(*b.get(*i + 1 + j)?);
            }
        }
        *i += 1 + w;
        match major {
            2 | 3 => *i += arg as usize,
            4 => {
                for _ in 0..arg {
                    one(b, i)?;
                }
            }
            5 => {
                for _ in 0..arg * 2 {
                    one(b, i)?;
                }
            }
            _ => {}
        }
        Some(())
    }
    let _ = hs;
    let mut i = start;
    let _ = one(b, &mut i);
    i.min(b.len())
}

fn mutate(rng: &mut Rng, b: &[u8]) -> Option<(Vec<u8>, &'static str)> {
    let heads = walk_heads(b);
    if heads.is_empty() {
        return None;
    }
    let (off, hl, major, arg) = *rng.pick(&heads);
    let mut out = b.to_vec();
    match rng.below(9) {
        0 => {
            // widen a head: same argument, next wider encoding (majors 0-5 only)
            if major > 5 {
                return None;
            }
            let cur = match hl {
                1 => 23u8,
                2 => 24,
                3 => 25,
                5 => 26,
                _ => return None,
            };
            let wider: Vec<u8> = [24u8, 25, 26, 27].into_iter().filter(|i| *i > cur).collect();
            let info = *rng.pick(&wider);
            out.splice(off..off + hl, head_bytes(major, info, arg));
            Some((out, "mut:widen-head"))
        }
        1 => {
            // set the indefinite-length marker on a string/array/map head (append a break)
            if !(2..=5).contains(&major) {
                return None;
            }
            out.splice(off..off + hl, vec![(major << 5) | 31]);
            out.push(0xff);
            Some((out, "mut:indefinite"))
        }
        2 => {
            // insert a tag in front of an item
            let tag = *rng.pick(&[0u64, 1, 2, 24, 55799]);
            let info = if tag < 24 { tag as u8 } else if tag < 256 { 24 } else { 25 };
            out.splice(off..off, head_bytes(6, info, tag));
            Some((out, "mut:tag"))
        }
        3 => {
            out.push(rng.next() as u8);
            Some((out, "mut:append"))
        }
        4 | 5 => {
            // swap two adjacent map entries / duplicate one
            if major != 5 || arg < 1 {
                return None;
            }
            let dup = arg < 2 || rng.chance(1, 3);
            let mut pos = off + hl;
            let mut entries: Vec<(usize, usize)> = Vec::new();
            for _ in 0..arg {
                let k_end = item_end(b, pos);
                let v_end = item_end(b, k_end);
                entries.push((pos, v_end));
                pos = v_end;
            }
            if dup {
                if arg == 23 || arg == 255 || arg == 65535 {
                    return None;
                }
                let (s, e) = *rng.pick(&entries);
                let chunk = b[s..e].to_vec();
                out.splice(e..e, chunk);
                // bump the count in place (stays in the same head width away from boundaries)
                let nh = head_bytes(5, b[off] & 0x1f, arg + 1);
                out.splice(off..off + hl, nh);
                Some((out, "mut:dup-key"))
            } else {
                let i = rng.below(arg - 1) as usize;
                let (s1, e1) = entries[i];
                let (s2, e2) = entries[i + 1];
                let mut sw = b[s2..e2].to_vec();
                sw.extend_from_slice(&b[s1..e1]);
                out.splice(s1..e2, sw);
                Some((out, "mut:swap-keys"))
            }
        }
        6 => {
            // bump a length / integer argument by ±1 in place (may stay valid, may not)
            let info = b[off] & 0x1f;
            if major > 5 {
                return None;
            }
            let na = if rng.chance(1, 2) { arg.wrapping_add(1) } else { arg.wrapping_sub(1) };
            let nh = if info < 24 { vec![(major << 5) | ((na as u8) & 0x1f)] } else { head_bytes(major, info, na) };
            out.splice(off..off + hl, nh);
            Some((out, "mut:bump-arg"))
        }
        7 => {
            // truncate
            let cut = rng.below(b.len() as u64) as usize;
            out.truncate(cut);
            Some((out, "mut:truncate"))
        }
        _ => {
            // flip one byte anywhere
            let i = rng.below(b.len() as u64) as usize;
            out[i] ^= 1 << rng.below(8);
            Some((out, "mut:bitflip"))
        }
    }
}

fn gen_abi_dec(rng: &mut Rng, tier: Tier) -> Vec<String> {
    let mut out: Vec<String> = Vec::new();
    let push = |b: &[u8], label: &str, out: &mut Vec<String>| {
        if alloc_safe(b) && b.len() < 60000 {
            out.push(format!("{} {}", hex(b), label));
        }
    };
    // exhaustive short strings
    push(&[], "exhaustive", &mut out);
    for a in 0..=255u8 {
        push(&[a], "exhaustive", &mut out);
    }
    for a in 0..=255u8 {
        for b in 0..=255u8 {
            push(&[a, b], "exhaustive", &mut out);
        }
    }
    if tier == Tier::Thorough {
        // all 3-byte strings behind the initial bytes where a third byte matters (1- and 2-byte
        // arguments of every major type, every f16, short strings/arrays/maps, a tag): ~1.2M cases
        for a in [0x18u8, 0x19, 0x38, 0x39, 0x58, 0x59, 0x78, 0x98, 0xb8, 0xf8, 0xf9, 0x42, 0x62, 0x81, 0x82, 0xa1, 0xc1, 0xfa] {
            for b in 0..=255u8 {
                for c in 0..=255u8 {
                    push(&[a, b, c], "exhaustive", &mut out);
                }
            }
        }
    } else {
        // every f16 bit pattern + a sample of other 3-byte strings
        for h in 0..=0xffffu16 {
            if h % 7 == 0 || (h & 0x7c00) == 0x7c00 || (h & 0x7c00) == 0 || (h & 0x3ff) == 0 {
                let hb = h.to_be_bytes();
                push(&[0xf9, hb[0], hb[1]], "f16", &mut out);
            }
        }
        for _ in 0..3000 {
            let b = rng.bytes(3);
            push(&b, "random3", &mut out);
        }
    }
    // hand-written adversarial vectors
    let fixed: [&str; 40] = [
        "f97e01", "f9fe00", "f97c01", "f97e00", "f97c00", "f9fc00", "f98000", "f90000", "f93c00", "f93e00", "f90001",
        "fa7fc00000", "fa7f800000", "fa3fc00000", "fa3dcccccd", "fa5f800000", "fa4f000000", "fa00000001", "fa7f7fffff",
        "fb3ff8000000000000", "fb3fb999999999999a", "fb3fb99999a0000000", "fb43f0000000000000", "fb7ff8000000000000",
        "fb7ff0000000000000", "fb46293e5939a08cea", "fb0000000000000001", "fb47effffff0000000",
        "1b0000000100000000", "1b00000000ffffffff", "1bffffffffffffffff", "3b7fffffffffffffff", "3b8000000000000000",
        "3bffffffffffffff", "63e08080", "63e0a080", "64f0908080", "64f4908080", "63eda080", "62c080",
    ];
    for f in fixed {
        if let Ok(b) = unhex(f) {
            push(&b, "fixed", &mut out);
        }
    }
    // nesting around MAX_DECODE_NESTING_DEPTH (128): the decoder must accept exactly what the
    // encoder produces; `read_len` errors come before the nesting check
    for d in [126usize, 127, 128, 129, 130, 200] {
        let rep = |unit: &[u8], tail: &[u8]| {
            let mut b = Vec::new();
            for _ in 0..d {
                b.extend_from_slice(unit);
            }
            b.extend_from_slice(tail);
            b
        };
        push(&rep(&[0x81], &[0xf6]), "nest", &mut out);
        push(&rep(&[0xa1, 0x01], &[0xf6]), "nest", &mut out);
        push(&rep(&[0x81], &[0x80]), "nest", &mut out);
        push(&rep(&[0x81], &[0xa0]), "nest", &mut out);
        push(&rep(&[0x81], &[0x9f]), "nest", &mut out); // Indefinite before NestingLimitExceeded
        push(&rep(&[0x81], &[0x98, 0x00]), "nest", &mut out); // NonCanonicalInt before …
        push(&rep(&[0x81], &[0xb9]), "nest", &mut out); // Incomplete before …
        push(&rep(&[0x81], &[0x82, 0x01]), "nest", &mut out); // nesting vs Incomplete
        push(&rep(&[0x81], &[0xf6, 0x00]), "nest", &mut out); // nesting vs Trailing
        // key nested d deep: a1 (a1 (… 01 …) f6) f6
        let mut b = rep(&[0xa1], &[0x01]);
        b.extend(std::iter::repeat(0xf6).take(d));
        push(&b, "nest", &mut out);
        let mut b = Vec::new();
        for i in 0..d {
            if i % 2 == 0 { b.push(0x81) } else { b.extend_from_slice(&[0xa1, 0x61, 0x6b]) }
        }
        b.extend_from_slice(&[0xf9, 0x3e, 0x00]);
        push(&b, "nest", &mut out);
        // deep item after a shallow one, and a second map entry after a deep first value
        let mut b = vec![0x83, 0x01];
        b.extend(rep(&[0x81], &[0xf6]));
        b.push(0x02);
        push(&b, "nest", &mut out);
        let mut b = vec![0xa2, 0x01];
        b.extend(rep(&[0x81], &[0xf4]));
        b.extend_from_slice(&[0x02, 0xf5]);
        push(&b, "nest", &mut out);
    }
    // every head width x boundary argument, for every major type (minimal and non-minimal forms)
    for major in 0u8..=5 {
        for arg in [0u64, 1, 23, 24, 255, 256, 65535, 65536, 0xffff_ffff, 0x1_0000_0000, u64::MAX >> 1, (u64::MAX >> 1) + 1, u64::MAX] {
            for info in [23u8, 24, 25, 26, 27] {
                let fits = match info { 23 => arg <= 23, 24 => arg <= 0xff, 25 => arg <= 0xffff, 26 => arg <= 0xffff_ffff, _ => true };
                if !fits || (major >= 2 && arg > 70) {
                    continue;
                }
                let mut b = if info == 23 { vec![(major << 5) | arg as u8] } else { head_bytes(major, info, arg) };
                match major {
                    2 | 3 => b.extend(std::iter::repeat(0x61).take(arg as usize)),
                    4 => b.extend(std::iter::repeat(0xf6).take(arg as usize)),
                    5 => {
                        for i in 0..arg {
                            b.extend_from_slice(&[0x18, 0x40 + i as u8, 0xf6]);
                        }
                    }
                    _ => {}
                }
                push(&b, "head-boundary", &mut out);
            }
        }
    }
    // all f32 exponents / f64 exponents with few mantissa shapes
    for e in 0u32..=255 {
        for m in [0u32, 1, 0x400000, 0x002000, 0x001000, 0x7fe000, 0x7fffff, 0x600000] {
            for s in [0u32, 1] {
                let w = (s << 31) | (e << 23) | m;
                let mut b = vec![0xfa];
                b.extend_from_slice(&w.to_be_bytes());
                push(&b, "f32", &mut out);
            }
        }
    }
    let estep = if tier == Tier::Thorough { 1 } else { 3 };
    for e in (0u64..=2047).step_by(estep) {
        for m in [0u64, 1, 1 << 51, 1 << 42, 1 << 41, 1 << 29, 1 << 28, 0x000ffc0000000000, 0x000fffffe0000000, 0x000fffffffffffff] {
            let w = (e << 52) | m | ((e & 1) << 63);
            let mut b = vec![0xfb];
            b.extend_from_slice(&w.to_be_bytes());
            push(&b, "f64", &mut out);
        }
    }
    // valid encodings and their structure-aware mutations
    let n = if tier == Tier::Thorough { 6000 } else { 700 };
    let mut made = 0;
    let mut guard = 0;
    while made < n && guard < n * 20 {
        guard += 1;
        let d = rng.range(0, 4) as u32;
        let line = gen_value(rng, d, false);
        let mut t = Toks::new(&line);
        let Ok(v) = parse_val(&mut t, 0) else { continue };
        let Ok(b) = encode_value(&v) else { continue };
        if b.len() > 4000 {
            continue;
        }
        made += 1;
        push(&b, "valid", &mut out);
        for _ in 0..4 {
            if let Some((m, label)) = mutate(rng, &b) {
                push(&m, label, &mut out);
            }
        }
    }
    // random longer strings biased to CBOR head bytes
    let n = if tier == Tier::Thorough { 20000 } else { 1500 };
    for _ in 0..n {
        let len = rng.range(4, 12) as usize;
        let b: Vec<u8> = (0..len)
            .map(|_| {
                if rng.chance(1, 2) {
                    *rng.pick(&[0x00u8, 0x01, 0x17, 0x18, 0x19, 0x1a, 0x20, 0x38, 0x40, 0x41, 0x60, 0x61, 0x62, 0x80, 0x81, 0x82, 0x98, 0xa0, 0xa1, 0xa2, 0xb8, 0xc0, 0xf4, 0xf5, 0xf6, 0xf9, 0xfa, 0xfb, 0xff, 0x7e, 0x7c])
                } else {
                    rng.next() as u8
                }
            })
            .collect();
        push(&b, "random", &mut out);
    }
    out
}
