//! C12 — WAL payload records (`warp_core::causal_wal::*::{to_payload_bytes, from_payload_bytes}`):
//! submission acceptance, submission envelope, tick receipt v2, receipt correlation v2, retained
//! material, reading reference, checkpoint, checkpoint publication.
//! term: <kind> fields…   (hashes 64 hex, integers decimal, option `N` | `S <hash>`, enum = its code)
use crate::prng::Rng;
use crate::util::{hex, small_id, Toks};
use crate::{OracleOut, Stream, Tier};
use warp_core::causal_wal::{
    CheckpointPublicationRecord, CheckpointRecord, EvidenceMaterialPosture, Lsn, ReadingRefRecord, RetainedMaterialKind,
    RetainedMaterialRecord, SubmissionAcceptanceRecord, TickReceiptRecord, WalReceiptCorrelationRecord,
    WalSubmissionEnvelopeRecord, WalTickDecision,
};
use warp_core::{CausalTickReceiptRef, GlobalTick, HeadId, WorldlineId, WorldlineTick, WriterHeadKey};

pub fn streams() -> Vec<Stream> {
    vec![
        Stream { name: "C12.walrec.enc", gen: gen_enc, imp: imp_enc, oracle: oracle_enc },
        Stream { name: "C12.walrec.dec", gen: gen_dec, imp: imp_dec, oracle: oracle_dec },
    ]
}

#[derive(Clone, Debug, PartialEq)]
enum Rec {
    Acc(SubmissionAcceptanceRecord),
    Env(WalSubmissionEnvelopeRecord),
    Tick(TickReceiptRecord),
    Mat(RetainedMaterialRecord),
    Rref(ReadingRefRecord),
    Cp(CheckpointRecord),
    Cpp(CheckpointPublicationRecord),
    Corr(WalReceiptCorrelationRecord),
}

const DECISIONS: [WalTickDecision; 3] = [WalTickDecision::Applied, WalTickDecision::RejectedFootprintConflict, WalTickDecision::Obstructed];
const KINDS: [RetainedMaterialKind; 7] = [
    RetainedMaterialKind::SubmissionPayload,
    RetainedMaterialKind::TickReceipt,
    RetainedMaterialKind::RuntimeStateDelta,
    RetainedMaterialKind::RuntimeControl,
    RetainedMaterialKind::ReadingPayload,
    RetainedMaterialKind::ReadingEnvelope,
    RetainedMaterialKind::Diagnostic,
];
const POSTURES: [EvidenceMaterialPosture; 6] = [
    EvidenceMaterialPosture::Present,
    EvidenceMaterialPosture::RedactedByPolicy,
    EvidenceMaterialPosture::EncryptedKeyUnavailable,
    EvidenceMaterialPosture::Missing,
    EvidenceMaterialPosture::Corrupt,
    EvidenceMaterialPosture::Obstructed,
];

fn pick<T: Copy>(table: &[T], code: u64, what: &str) -> Result<T, String> {
    if code >= 1 && (code as usize) <= table.len() {
        Ok(table[code as usize - 1])
    } else {
        Err(format!("{what} code {code} is not a value"))
    }
}

fn code_of<T: PartialEq>(table: &[T], v: &T) -> usize {
    table.iter().position(|x| x == v).map_or(0, |i| i + 1)
}

fn parse_ref(t: &mut Toks) -> Result<CausalTickReceiptRef, String> {
    Ok(CausalTickReceiptRef {
        worldline_id: WorldlineId::from_bytes(t.id()?),
        worldline_tick_after: WorldlineTick::from_raw(t.num()?),
        commit_global_tick: GlobalTick::from_raw(t.num()?),
        commit_hash: t.id()?,
        submission_id: t.id()?,
        ticket_digest: t.id()?,
        receipt_content_digest: t.id()?,
    })
}

fn show_ref(r: &CausalTickReceiptRef) -> String {
    format!(
        "{} {} {} {} {} {} {}",
        hex(r.worldline_id.as_bytes()),
        r.worldline_tick_after.as_u64(),
        r.commit_global_tick.as_u64(),
        hex(&r.commit_hash),
        hex(&r.submission_id),
        hex(&r.ticket_digest),
        hex(&r.receipt_content_digest)
    )
}

fn parse_rec(kind: &str, t: &mut Toks) -> Result<Rec, String> {
    Ok(match kind {
        "acc" => Rec::Acc(SubmissionAcceptanceRecord {
            submission_id: t.id()?,
            canonical_envelope_digest: t.id()?,
            idempotency_key_digest: match t.next()? {
                "N" => None,
                "S" => Some(t.id()?),
                o => return Err(format!("bad option {o}")),
            },
            acceptance_evidence_digest: t.id()?,
        }),
        "env" => Rec::Env(WalSubmissionEnvelopeRecord {
            submission_id: t.id()?,
            canonical_envelope_digest: t.id()?,
            submission_generation: t.num()?,
            head_key: WriterHeadKey { worldline_id: WorldlineId::from_bytes(t.id()?), head_id: HeadId::from_bytes(t.id()?) },
            retained_envelope_bytes: t.bytes()?,
        }),
        "tick" => Rec::Tick(TickReceiptRecord { receipt_ref: parse_ref(t)?, decision: pick(&DECISIONS, t.num()?, "decision")? }),
        "mat" => Rec::Mat(RetainedMaterialRecord {
            material_digest: t.id()?,
            semantic_coordinate_digest: t.id()?,
            kind: pick(&KINDS, t.num()?, "kind")?,
            posture: pick(&POSTURES, t.num()?, "posture")?,
        }),
        "rref" => Rec::Rref(ReadingRefRecord {
            reading_id: t.id()?,
            semantic_coordinate_digest: t.id()?,
            payload_digest: t.id()?,
            envelope_digest: t.id()?,
            posture: pick(&POSTURES, t.num()?, "posture")?,
        }),
        "cp" => Rec::Cp(CheckpointRecord {
            checkpoint_id: t.id()?,
            last_included_lsn: Lsn::from_raw(t.num()?),
            last_included_commit_digest: t.id()?,
            state_root: t.id()?,
            index_root: t.id()?,
            retained_material_root: t.id()?,
            schema_version: t.num()? as u16,
            created_from_wal_digest: t.id()?,
        }),
        "cpp" => Rec::Cpp(CheckpointPublicationRecord { checkpoint_id: t.id()?, checkpoint_digest: t.id()? }),
        "corr" => {
            let receipt_ref = parse_ref(t)?;
            let n = t.num()?;
            let mut ps = Vec::new();
            for _ in 0..n {
                ps.push(parse_ref(t)?);
            }
            Rec::Corr(WalReceiptCorrelationRecord { receipt_ref, causal_parent_receipts: ps })
        }
        o => return Err(format!("bad record kind {o}")),
    })
}

fn show_rec(r: &Rec) -> String {
    match r {
        Rec::Acc(a) => format!(
            "acc {} {} {} {}",
            hex(&a.submission_id),
            hex(&a.canonical_envelope_digest),
            a.idempotency_key_digest.map_or("N".to_string(), |h| format!("S {}", hex(&h))),
            hex(&a.acceptance_evidence_digest)
        ),
        Rec::Env(e) => format!(
            "env {} {} {} {} {} {}",
            hex(&e.submission_id),
            hex(&e.canonical_envelope_digest),
            e.submission_generation,
            hex(e.head_key.worldline_id.as_bytes()),
            hex(e.head_key.head_id.as_bytes()),
            hex(&e.retained_envelope_bytes)
        ),
        Rec::Tick(t) => format!("tick {} {}", show_ref(&t.receipt_ref), code_of(&DECISIONS, &t.decision)),
        Rec::Mat(m) => format!(
            "mat {} {} {} {}",
            hex(&m.material_digest),
            hex(&m.semantic_coordinate_digest),
            code_of(&KINDS, &m.kind),
            code_of(&POSTURES, &m.posture)
        ),
        Rec::Rref(r) => format!(
            "rref {} {} {} {} {}",
            hex(&r.reading_id),
            hex(&r.semantic_coordinate_digest),
            hex(&r.payload_digest),
            hex(&r.envelope_digest),
            code_of(&POSTURES, &r.posture)
        ),
        Rec::Cp(c) => format!(
            "cp {} {} {} {} {} {} {} {}",
            hex(&c.checkpoint_id),
            c.last_included_lsn.as_u64(),
            hex(&c.last_included_commit_digest),
            hex(&c.state_root),
            hex(&c.index_root),
            hex(&c.retained_material_root),
            c.schema_version,
            hex(&c.created_from_wal_digest)
        ),
        Rec::Cpp(c) => format!("cpp {} {}", hex(&c.checkpoint_id), hex(&c.checkpoint_digest)),
        Rec::Corr(c) => {
            let mut s = format!("corr {} {}", show_ref(&c.receipt_ref), c.causal_parent_receipts.len());
            for p in &c.causal_parent_receipts {
                s.push(' ');
                s.push_str(&show_ref(p));
            }
            s
        }
    }
}

fn enc(r: &Rec) -> Vec<u8> {
    match r {
        Rec::Acc(v) => v.to_payload_bytes(),
        Rec::Env(v) => v.to_payload_bytes(),
        Rec::Tick(v) => v.to_payload_bytes(),
        Rec::Mat(v) => v.to_payload_bytes(),
        Rec::Rref(v) => v.to_payload_bytes(),
        Rec::Cp(v) => v.to_payload_bytes(),
        Rec::Cpp(v) => v.to_payload_bytes(),
        Rec::Corr(v) => v.to_payload_bytes(),
    }
}

fn dec(kind: &str, b: &[u8]) -> Result<Rec, String> {
    let e = |e: warp_core::causal_wal::WalDecodeError| format!("{e:?}").split(['(', ' ', '{']).next().unwrap_or("?").to_string();
    match kind {
        "acc" => SubmissionAcceptanceRecord::from_payload_bytes(b).map(Rec::Acc).map_err(e),
        "env" => WalSubmissionEnvelopeRecord::from_payload_bytes(b).map(Rec::Env).map_err(e),
        "tick" => TickReceiptRecord::from_payload_bytes(b).map(Rec::Tick).map_err(e),
        "mat" => RetainedMaterialRecord::from_payload_bytes(b).map(Rec::Mat).map_err(e),
        "rref" => ReadingRefRecord::from_payload_bytes(b).map(Rec::Rref).map_err(e),
        "cp" => CheckpointRecord::from_payload_bytes(b).map(Rec::Cp).map_err(e),
        "cpp" => CheckpointPublicationRecord::from_payload_bytes(b).map(Rec::Cpp).map_err(e),
        "corr" => WalReceiptCorrelationRecord::from_payload_bytes(b).map(Rec::Corr).map_err(e),
        o => Err(format!("bad record kind {o}")),
    }
}

/// the value the reader must return for the writer's bytes: the record itself, except that the
/// correlation writer canonicalises the cited receipts as a set (sort + dedup in the derived Ord)
fn normal_form(r: &Rec) -> Rec {
    match r {
        Rec::Corr(c) => {
            let mut ps = c.causal_parent_receipts.clone();
            ps.sort();
            ps.dedup();
            Rec::Corr(WalReceiptCorrelationRecord { receipt_ref: c.receipt_ref, causal_parent_receipts: ps })
        }
        o => o.clone(),
    }
}

fn imp_enc(t: &mut Toks) -> Result<String, String> {
    let kind = t.next()?.to_string();
    let r = parse_rec(&kind, t)?;
    let b = enc(&r);
    Ok(match dec(&kind, &b) {
        Ok(d) => format!("ok {} rt {}", hex(&b), show_rec(&d)),
        Err(_) => format!("ok {} rt err", hex(&b)),
    })
}

fn oracle_enc(t: &mut Toks, _tier: Tier) -> Result<OracleOut, String> {
    let kind = t.next()?.to_string();
    let r = parse_rec(&kind, t)?;
    let mut o = OracleOut::default();
    o.nontrivial = true;
    o.tags.push(format!("wal:{kind}"));
    let b = enc(&r);
    if enc(&r.clone()) != b {
        o.fails.push((format!("C12.walrec.{kind}.nondeterministic"), "two encodings differ".into()));
    }
    let want = normal_form(&r);
    if want != r {
        o.tags.push("wal:corr-writer-canonicalised".into());
        if enc(&want) != b {
            o.fails.push((format!("C12.walrec.{kind}.order-dependent"), "order/multiplicity of the cited receipts changed the bytes".into()));
        }
    }
    match dec(&kind, &b) {
        Ok(d) if d == want => {}
        Ok(d) => o.fails.push((format!("C12.walrec.{kind}.roundtrip.value-changed"), format!("read back {}", show_rec(&d)))),
        Err(e) => o.fails.push((format!("C12.walrec.{kind}.roundtrip.own-bytes-refused"), format!("reader refused writer output with {e}"))),
    }
    Ok(o)
}

fn imp_dec(t: &mut Toks) -> Result<String, String> {
    let kind = t.next()?.to_string();
    let b = t.bytes()?;
    let _label = t.next()?;
    Ok(match dec(&kind, &b) {
        Err(_) => "err".into(),
        Ok(r) => format!("ok {} re {}", show_rec(&r), hex(&enc(&r))),
    })
}

fn oracle_dec(t: &mut Toks, _tier: Tier) -> Result<OracleOut, String> {
    let kind = t.next()?.to_string();
    let b = t.bytes()?;
    let label = t.next()?.to_string();
    let mut o = OracleOut::default();
    o.tags.push(format!("wal-src:{kind}:{label}"));
    match dec(&kind, &b) {
        Err(e) => {
            o.tags.push(format!("wal-rej:{e}"));
            if label == "valid" {
                o.fails.push((format!("C12.walrec.{kind}.roundtrip.own-bytes-refused"), format!("reader refused writer output {} with {e}", hex(&b))));
            }
        }
        Ok(r) => {
            o.nontrivial = true;
            o.tags.push(format!("wal:{kind}:accepted"));
            if label.starts_with("mut!") {
                o.fails.push((format!("C12.walrec.{kind}.accepted.{}", &label[4..]), format!("reader accepted {}", hex(&b))));
            }
            let re = enc(&r);
            if re != b {
                o.fails.push((format!("C12.walrec.{kind}.accepted-noncanonical"), format!("accepted {} re-encodes as {}", hex(&b), hex(&re))));
            }
        }
    }
    Ok(o)
}

// ------------------------------------------------------------------ generators

fn h(rng: &mut Rng) -> String {
    hex(&small_id(rng.below(3)))
}

fn gen_ref(rng: &mut Rng) -> String {
    let tick = *rng.pick(&[0u64, 1, 255, 256, 1 << 32, u64::MAX]);
    let gt = *rng.pick(&[0u64, 1, 256]);
    format!("{} {tick} {gt} {} {} {} {}", hex(&small_id(rng.below(2))), hex(&small_id(rng.below(2))), hex(&small_id(rng.below(2))), hex(&small_id(0)), hex(&small_id(rng.below(2))))
}

const KIND_NAMES: [&str; 8] = ["acc", "env", "tick", "mat", "rref", "cp", "cpp", "corr"];

fn gen_term(rng: &mut Rng, kind: &str) -> String {
    match kind {
        "acc" => format!("acc {} {} {} {}", h(rng), h(rng), if rng.chance(1, 2) { "N".to_string() } else { format!("S {}", h(rng)) }, h(rng)),
        "env" => {
            let len = if rng.chance(1, 8) { 300 } else { rng.below(12) as usize };
            let g = *rng.pick(&[0u64, 1, 255, 256, u64::MAX]);
            format!("env {} {} {g} {} {} {}", h(rng), h(rng), h(rng), h(rng), hex(&rng.bytes(len)))
        }
        "tick" => format!("tick {} {}", gen_ref(rng), rng.range(1, 3)),
        "mat" => format!("mat {} {} {} {}", h(rng), h(rng), rng.range(1, 7), rng.range(1, 6)),
        "rref" => format!("rref {} {} {} {} {}", h(rng), h(rng), h(rng), h(rng), rng.range(1, 6)),
        "cp" => format!(
            "cp {} {} {} {} {} {} {} {}",
            h(rng),
            *rng.pick(&[0u64, 1, 256, u64::MAX]),
            h(rng),
            h(rng),
            h(rng),
            h(rng),
            *rng.pick(&[0u64, 1, 255, 256, 65535]),
            h(rng)
        ),
        "cpp" => format!("cpp {} {}", h(rng), h(rng)),
        _ => {
            // cited receipts: same worldline, ticks whose LE bytes order against their values; any order, duplicates
            let n = if rng.chance(1, 4) { 0 } else { rng.range(1, 4) };
            let wl = hex(&small_id(rng.below(2)));
            let refs: Vec<String> = (0..n)
                .map(|_| {
                    if rng.chance(1, 2) {
                        gen_ref(rng)
                    } else {
                        let tick = *rng.pick(&[255u64, 256, 1, 1 << 32, 0x01ff, 0x0200]);
                        format!("{wl} {tick} 0 {} {} {} {}", hex(&small_id(0)), hex(&small_id(0)), hex(&small_id(0)), hex(&small_id(1)))
                    }
                })
                .collect();
            format!("corr {} {}{}{}", gen_ref(rng), refs.len(), if refs.is_empty() { "" } else { " " }, refs.join(" "))
        }
    }
}

fn gen_enc(rng: &mut Rng, tier: Tier) -> Vec<String> {
    let n = if tier == Tier::Thorough { 400 } else { 40 };
    let mut out = Vec::new();
    for kind in KIND_NAMES {
        let m = if kind == "corr" { 4 * n } else { n };
        for _ in 0..m {
            out.push(gen_term(rng, kind));
        }
    }
    out
}

const REF_LEN: usize = 176;

fn gen_dec(rng: &mut Rng, tier: Tier) -> Vec<String> {
    let n = if tier == Tier::Thorough { 400 } else { 40 };
    let mut out = Vec::new();
    for kind in KIND_NAMES {
        let m = if kind == "corr" { 4 * n } else { n };
        for _ in 0..m {
            let term = gen_term(rng, kind);
            let mut t = Toks::new(&term);
            let Ok(k) = t.next() else { continue };
            let Ok(r) = parse_rec(k, &mut t) else { continue };
            let b = enc(&r);
            out.push(format!("{kind} {} valid", hex(&b)));
            let mut push = |m: Vec<u8>, label: &str| out.push(format!("{kind} {} {label}", hex(&m)));
            // generic: trailing byte, truncation, bit flip
            let mut m1 = b.clone();
            m1.push(rng.next() as u8);
            push(m1, "mut!append");
            let mut m2 = b.clone();
            m2.truncate(rng.below(b.len() as u64) as usize);
            push(m2, if kind == "corr" { "truncate" } else { "mut!truncate" });
            let mut m3 = b.clone();
            let i = rng.below(b.len() as u64) as usize;
            m3[i] ^= 1 << rng.below(8);
            push(m3, "bitflip");
            // enum codes out of range / option tag / magic
            match kind {
                "acc" => {
                    // every unknown option tag, on None and on Some records
                    for tag in [2u8, 3, 255, 4 + rng.below(250) as u8] {
                        let mut m = b.clone();
                        m[64] = tag;
                        push(m, "mut!option-tag");
                    }
                }
                "tick" => {
                    let mut m = b.clone();
                    *m.last_mut().unwrap_or(&mut 0) = *rng.pick(&[0u8, 4, 5, 255]);
                    push(m, "mut!enum-code");
                    let mut m = b.clone();
                    m[7] = b'1';
                    push(m, "mut!magic");
                }
                "mat" => {
                    let mut m = b.clone();
                    m[64] = *rng.pick(&[0u8, 8, 9, 255]);
                    push(m, "mut!enum-code");
                    let mut m = b.clone();
                    m[65] = *rng.pick(&[0u8, 7, 8, 255]);
                    push(m, "mut!enum-code");
                }
                "rref" => {
                    let mut m = b.clone();
                    m[128] = *rng.pick(&[0u8, 7, 8, 255]);
                    push(m, "mut!enum-code");
                }
                "env" => {
                    // length prefix off by one / huge
                    let mut m = b.clone();
                    let l = u64::from_le_bytes(m[136..144].try_into().unwrap_or([0; 8]));
                    let nl = if rng.chance(1, 2) { l.wrapping_add(1) } else { u64::MAX };
                    m[136..144].copy_from_slice(&nl.to_le_bytes());
                    push(m, "mut!len");
                }
                "corr" => {
                    let np = (b.len() - 8 - REF_LEN).saturating_sub(8) / REF_LEN;
                    let a = 8 + REF_LEN + 8;
                    if np == 0 {
                        // an explicit zero count is not the canonical form of "no parents"
                        let mut m = b.clone();
                        m.extend_from_slice(&0u64.to_le_bytes());
                        push(m, "mut!zero-count");
                    } else {
                        let recs: Vec<Vec<u8>> = (0..np).map(|i| b[a + i * REF_LEN..a + (i + 1) * REF_LEN].to_vec()).collect();
                        let emit = |recs: &[Vec<u8>]| {
                            let mut m = b[..8 + REF_LEN].to_vec();
                            m.extend_from_slice(&(recs.len() as u64).to_le_bytes());
                            for r in recs {
                                m.extend_from_slice(r);
                            }
                            m
                        };
                        for i in 0..np - 1 {
                            let mut r = recs.clone();
                            r.swap(i, i + 1);
                            push(emit(&r), "mut!swap-parents");
                        }
                        let mut by_bytes = recs.clone();
                        by_bytes.sort();
                        if by_bytes != recs {
                            push(emit(&by_bytes), "mut!parents-in-byte-order");
                        }
                        let mut r = recs.clone();
                        let i = rng.below(np as u64) as usize;
                        r.insert(i, recs[i].clone());
                        push(emit(&r), "mut!dup-parent");
                        let mut m = b.clone();
                        m[8 + REF_LEN..a].copy_from_slice(&u64::MAX.to_le_bytes());
                        push(m, "mut!count");
                    }
                    let mut m = b.clone();
                    m[7] = b'1';
                    push(m, "mut!magic");
                }
                _ => {}
            }
        }
    }
    out
}
