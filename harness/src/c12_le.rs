//! C12 — little-endian binary records: EINT envelope, ELOG header/frames, retained ingress envelope.
//! Real code: `echo_wasm_abi::{pack_intent_v1, unpack_intent_v1}`, `echo_wasm_abi::eintlog::*`,
//! `warp_core::IngressEnvelope::{local_intent_with_causal_parents, to_retained_bytes_v2, from_retained_bytes}`.
use crate::prng::Rng;
use crate::util::{hex, small_id, Toks};
use crate::{OracleOut, Stream, Tier};
use echo_wasm_abi::eintlog::{read_elog_frame, read_elog_header, write_elog_frame, write_elog_header, ElogHeader};
use echo_wasm_abi::{pack_intent_v1, unpack_intent_v1};
use warp_core::{
    CausalTickReceiptRef, GlobalTick, HeadId, InboxAddress, IngressCausalParent, IngressEnvelope, IngressPayload,
    IngressTarget, IntentKind, WorldlineId, WorldlineTick, WriterHeadKey,
};

pub fn streams() -> Vec<Stream> {
    vec![
        Stream { name: "C12.eint.enc", gen: gen_eint_enc, imp: imp_eint_enc, oracle: oracle_eint_enc },
        Stream { name: "C12.eint.dec", gen: gen_eint_dec, imp: imp_eint_dec, oracle: oracle_eint_dec },
        Stream { name: "C12.elog.enc", gen: gen_elog_enc, imp: imp_elog_enc, oracle: oracle_elog_enc },
        Stream { name: "C12.elog.dec", gen: gen_elog_dec, imp: imp_elog_dec, oracle: oracle_elog_dec },
        Stream { name: "C12.ingress.enc", gen: gen_ing_enc, imp: imp_ing_enc, oracle: oracle_ing_enc },
        Stream { name: "C12.ingress.dec", gen: gen_ing_dec, imp: imp_ing_dec, oracle: oracle_ing_dec },
    ]
}

// ------------------------------------------------------------------ EINT

fn imp_eint_enc(t: &mut Toks) -> Result<String, String> {
    let op = t.num()? as u32;
    let vars = t.bytes()?;
    Ok(match pack_intent_v1(op, &vars) {
        Err(_) => "err".into(),
        Ok(b) => match unpack_intent_v1(&b) {
            Ok((o, v)) => format!("ok {} rt {} {}", hex(&b), o, hex(v)),
            Err(_) => format!("ok {} rt err", hex(&b)),
        },
    })
}

fn oracle_eint_enc(t: &mut Toks, _tier: Tier) -> Result<OracleOut, String> {
    let op = t.num()? as u32;
    let vars = t.bytes()?;
    let mut o = OracleOut::default();
    o.nontrivial = !vars.is_empty();
    let reserved = op >= u32::MAX - 1;
    match pack_intent_v1(op, &vars) {
        Err(_) => {
            o.tags.push("eint:refused".into());
            if !reserved {
                o.fails.push(("C12.eint.pack-refuses-domain-value".into(), format!("pack_intent_v1({op}, {} bytes) failed", vars.len())));
            }
        }
        Ok(b) => {
            if pack_intent_v1(op, &vars).ok().as_deref() != Some(b.as_slice()) {
                o.fails.push(("C12.eint.nondeterministic".into(), "two packs differ".into()));
            }
            match unpack_intent_v1(&b) {
                Ok((o2, v2)) if o2 == op && v2 == vars.as_slice() => {}
                other => o.fails.push(("C12.eint.roundtrip".into(), format!("unpack(pack({op}, {})) = {:?}", hex(&vars), other.map(|(a, b)| (a, hex(b))).map_err(|_| "err")))),
            }
            o.tags.push(format!("eint:len={}", vars.len().min(9)));
        }
    }
    Ok(o)
}

fn gen_eint_enc(rng: &mut Rng, tier: Tier) -> Vec<String> {
    let mut out = Vec::new();
    let n = if tier == Tier::Thorough { 2000 } else { 200 };
    for op in [0u32, 1, 255, 256, 65535, 65536, u32::MAX - 2, u32::MAX - 1, u32::MAX] {
        out.push(format!("{op} {}", hex(&rng.bytes(3))));
    }
    for _ in 0..n {
        let op = if rng.chance(1, 4) { rng.next() as u32 } else { rng.below(1000) as u32 };
        let len = if rng.chance(1, 10) { *rng.pick(&[255usize, 256, 257, 1000]) } else { rng.below(20) as usize };
        out.push(format!("{op} {}", hex(&rng.bytes(len))));
    }
    out
}

fn imp_eint_dec(t: &mut Toks) -> Result<String, String> {
    let b = t.bytes()?;
    let _label = t.next()?;
    Ok(match unpack_intent_v1(&b) {
        Err(_) => "err".into(),
        Ok((op, v)) => format!("ok {} {}", op, hex(v)),
    })
}

fn oracle_eint_dec(t: &mut Toks, _tier: Tier) -> Result<OracleOut, String> {
    let b = t.bytes()?;
    let label = t.next()?.to_string();
    let mut o = OracleOut::default();
    o.tags.push(format!("eint-src:{label}"));
    if let Ok((op, v)) = unpack_intent_v1(&b) {
        o.nontrivial = true;
        o.tags.push("eint:accepted".into());
        if label.starts_with("mut!") {
            o.fails.push((format!("C12.eint.accepted.{}", &label[4..]), format!("unpack accepted {}", hex(&b))));
        }
        // canonical: the documented layout of the accepted (op, vars) is exactly the input
        let mut want = b"EINT".to_vec();
        want.extend_from_slice(&op.to_le_bytes());
        want.extend_from_slice(&(v.len() as u32).to_le_bytes());
        want.extend_from_slice(v);
        if want != b {
            o.fails.push(("C12.eint.accepted-noncanonical".into(), format!("accepted {} but layout of ({op}, vars) is {}", hex(&b), hex(&want))));
        }
        if op < u32::MAX - 1 && pack_intent_v1(op, v).ok().as_deref() != Some(b.as_slice()) {
            o.fails.push(("C12.eint.accepted-noncanonical".into(), "pack(unpack(b)) != b".into()));
        }
    }
    Ok(o)
}

fn gen_eint_dec(rng: &mut Rng, tier: Tier) -> Vec<String> {
    let mut out = Vec::new();
    let n = if tier == Tier::Thorough { 3000 } else { 300 };
    for _ in 0..n {
        let op = if rng.chance(1, 4) { rng.next() as u32 } else { rng.below(1000) as u32 };
        let len = rng.below(12) as usize;
        let vars = rng.bytes(len);
        let mut b = b"EINT".to_vec();
        b.extend_from_slice(&op.to_le_bytes());
        b.extend_from_slice(&(len as u32).to_le_bytes());
        b.extend_from_slice(&vars);
        out.push(format!("{} valid", hex(&b)));
        let mut m = b.clone();
        let label = match rng.below(6) {
            0 => {
                m.push(rng.next() as u8);
                "mut!append"
            }
            1 => {
                let cut = rng.below(m.len() as u64) as usize;
                m.truncate(cut);
                "mut!truncate"
            }
            2 => {
                let i = rng.below(4) as usize;
                m[i] ^= 1 << rng.below(8);
                "mut!magic"
            }
            3 => {
                let l = (len as u32).wrapping_add(if rng.chance(1, 2) { 1 } else { u32::MAX });
                m[8..12].copy_from_slice(&l.to_le_bytes());
                "mut!len"
            }
            4 => {
                // big-endian length
                m[8..12].copy_from_slice(&(len as u32).to_be_bytes());
                if len == 0 { "valid" } else { "mut!len" }
            }
            _ => {
                let i = rng.below(m.len() as u64) as usize;
                m[i] ^= 1 << rng.below(8);
                "bitflip"
            }
        };
        out.push(format!("{} {}", hex(&m), label));
    }
    for _ in 0..n {
        let len = rng.below(20) as usize;
        out.push(format!("{} random", hex(&rng.bytes(len))));
    }
    out
}

// ------------------------------------------------------------------ ELOG

struct ElogCase {
    flags: u16,
    hash: [u8; 32],
    frames: Vec<Vec<u8>>,
}

fn parse_elog(t: &mut Toks) -> Result<ElogCase, String> {
    let flags = t.num()? as u16;
    let hash = t.id()?;
    let n = t.num()?;
    let mut frames = Vec::new();
    for _ in 0..n {
        frames.push(t.bytes()?);
    }
    Ok(ElogCase { flags, hash, frames })
}

fn write_elog(c: &ElogCase) -> Option<Vec<u8>> {
    let mut buf = Vec::new();
    write_elog_header(&mut buf, &ElogHeader { schema_hash: c.hash, flags: c.flags }).ok()?;
    for f in &c.frames {
        write_elog_frame(&mut buf, f).ok()?;
    }
    Some(buf)
}

/// header, frames read until EOF, whether the tail ended cleanly, bytes left unread at a clean end
fn read_elog(b: &[u8]) -> Option<(ElogHeader, Vec<Vec<u8>>, bool, usize)> {
    let mut cur = std::io::Cursor::new(b);
    let hdr = read_elog_header(&mut cur).ok()?;
    let mut frames = Vec::new();
    loop {
        let before = cur.position() as usize;
        match read_elog_frame(&mut cur) {
            Ok(Some(f)) => frames.push(f),
            Ok(None) => return Some((hdr, frames, true, b.len() - before)),
            Err(_) => return Some((hdr, frames, false, 0)),
        }
    }
}

fn show_elog_read(b: &[u8]) -> String {
    match read_elog(b) {
        None => "hdr-err".into(),
        Some((h, fs, clean, _)) => {
            let mut s = format!("{} {} {}", h.flags, hex(&h.schema_hash), fs.len());
            for f in &fs {
                s.push(' ');
                s.push_str(&hex(f));
            }
            s.push_str(if clean { " tail=clean" } else { " tail=err" });
            s
        }
    }
}

fn imp_elog_enc(t: &mut Toks) -> Result<String, String> {
    let c = parse_elog(t)?;
    Ok(match write_elog(&c) {
        None => "err".into(),
        Some(b) => format!("ok {} rt {}", hex(&b), show_elog_read(&b)),
    })
}

fn oracle_elog_enc(t: &mut Toks, _tier: Tier) -> Result<OracleOut, String> {
    let c = parse_elog(t)?;
    let mut o = OracleOut::default();
    o.nontrivial = !c.frames.is_empty();
    o.tags.push(format!("elog:frames={}", c.frames.len().min(5)));
    match write_elog(&c) {
        None => o.fails.push(("C12.elog.write-refused".into(), "writer refused a small frame".into())),
        Some(b) => {
            if write_elog(&c).as_deref() != Some(b.as_slice()) {
                o.fails.push(("C12.elog.nondeterministic".into(), "two writes differ".into()));
            }
            if c.flags != 0 {
                // the header documents flags = 0; the writer does not enforce it, the reader does
                o.tags.push("elog:nonzero-flags-not-readable".into());
                if read_elog(&b).is_some() {
                    o.fails.push(("C12.elog.flags-accepted".into(), "reader accepted non-zero flags".into()));
                }
            } else {
                match read_elog(&b) {
                    Some((h, fs, true, 0)) if h.flags == c.flags && h.schema_hash == c.hash && fs == c.frames => {}
                    _ => o.fails.push(("C12.elog.roundtrip".into(), format!("read(write(log)) != log: {}", show_elog_read(&b)))),
                }
            }
        }
    }
    Ok(o)
}

fn gen_elog_case(rng: &mut Rng) -> String {
    let flags = if rng.chance(1, 8) { rng.below(3) + 1 } else { 0 };
    let n = rng.below(4);
    let mut s = format!("{flags} {} {n}", hex(&small_id(rng.below(5))));
    for _ in 0..n {
        let len = if rng.chance(1, 10) { 300 } else { rng.below(9) as usize };
        s.push(' ');
        s.push_str(&hex(&rng.bytes(len)));
    }
    s
}

fn gen_elog_enc(rng: &mut Rng, tier: Tier) -> Vec<String> {
    let n = if tier == Tier::Thorough { 1500 } else { 150 };
    (0..n).map(|_| gen_elog_case(rng)).collect()
}

fn imp_elog_dec(t: &mut Toks) -> Result<String, String> {
    let b = t.bytes()?;
    let _label = t.next()?;
    Ok(show_elog_read(&b))
}

fn oracle_elog_dec(t: &mut Toks, _tier: Tier) -> Result<OracleOut, String> {
    let b = t.bytes()?;
    let label = t.next()?.to_string();
    let mut o = OracleOut::default();
    o.tags.push(format!("elog-src:{label}"));
    if let Some((h, fs, clean, left)) = read_elog(&b) {
        if clean {
            o.nontrivial = true;
            o.tags.push("elog:accepted".into());
            if label.starts_with("mut!") {
                o.fails.push((format!("C12.elog.accepted.{}", &label[4..]), format!("reader accepted {}", hex(&b))));
            }
            let c = ElogCase { flags: h.flags, hash: h.schema_hash, frames: fs };
            let re = write_elog(&c).unwrap_or_default();
            // a partial (1-3 byte) length prefix at the end is treated as end-of-log by the stream reader
            if left > 0 {
                o.tags.push("elog:partial-length-prefix-read-as-eof".into());
            }
            if re.as_slice() != &b[..b.len() - left] {
                o.fails.push(("C12.elog.accepted-noncanonical".into(), format!("accepted {} re-writes as {}", hex(&b), hex(&re))));
            }
        } else {
            o.tags.push("elog:tail-error".into());
        }
    }
    Ok(o)
}

fn gen_elog_dec(rng: &mut Rng, tier: Tier) -> Vec<String> {
    let n = if tier == Tier::Thorough { 2000 } else { 200 };
    let mut out = Vec::new();
    for _ in 0..n {
        let line = gen_elog_case(rng);
        let mut t = Toks::new(&line);
        let Ok(mut c) = parse_elog(&mut t) else { continue };
        c.flags = 0;
        let Some(b) = write_elog(&c) else { continue };
        out.push(format!("{} valid", hex(&b)));
        let mut m = b.clone();
        let label = match rng.below(7) {
            0 => {
                m[rng.below(4) as usize] ^= 0x20;
                "mut!magic"
            }
            1 => {
                m[4] = 2;
                "mut!version"
            }
            2 => {
                m[6 + rng.below(2) as usize] = 1;
                "mut!flags"
            }
            3 => {
                m[40 + rng.below(8) as usize] = 1 + rng.below(255) as u8;
                "mut!reserved"
            }
            4 => {
                // 1..3 trailing bytes: read as EOF by the stream reader (tagged, see NOTES)
                let k = rng.range(1, 3) as usize;
                m.extend_from_slice(&rng.bytes(k));
                "partial-prefix"
            }
            5 => {
                // a frame length over MAX_FRAME_LEN
                m.extend_from_slice(&(10u32 * 1024 * 1024 + 1).to_le_bytes());
                "oversize-frame"
            }
            _ => {
                let cut = rng.below(m.len() as u64) as usize;
                m.truncate(cut);
                "truncate"
            }
        };
        out.push(format!("{} {}", hex(&m), label));
    }
    out
}

// ------------------------------------------------------------------ retained ingress envelope
// term: T1 <wl> | T2 <wl> <inbox utf8 hex> | T3 <wl> <head> ; P <n> (<1|2> <wl> <tick> <gtick> <h1> <h2> <h3> <h4>)* ; K <kind> <bytes>

struct IngCase {
    target: IngressTarget,
    parents: Vec<IngressCausalParent>,
    kind: [u8; 32],
    bytes: Vec<u8>,
}

fn parse_ing(t: &mut Toks) -> Result<IngCase, String> {
    let target = match t.next()? {
        "T1" => IngressTarget::DefaultWriter { worldline_id: WorldlineId::from_bytes(t.id()?) },
        "T2" => {
            let wl = WorldlineId::from_bytes(t.id()?);
            let s = String::from_utf8(t.bytes()?).map_err(|_| "inbox not utf8".to_string())?;
            IngressTarget::InboxAddress { worldline_id: wl, inbox: InboxAddress(s) }
        }
        "T3" => IngressTarget::ExactHead {
            key: WriterHeadKey { worldline_id: WorldlineId::from_bytes(t.id()?), head_id: HeadId::from_bytes(t.id()?) },
        },
        o => return Err(format!("bad target {o}")),
    };
    if t.next()? != "P" {
        return Err("expected P".into());
    }
    let n = t.num()?;
    let mut parents = Vec::new();
    for _ in 0..n {
        let tag = t.num()?;
        let r = CausalTickReceiptRef {
            worldline_id: WorldlineId::from_bytes(t.id()?),
            worldline_tick_after: WorldlineTick::from_raw(t.num()?),
            commit_global_tick: GlobalTick::from_raw(t.num()?),
            commit_hash: t.id()?,
            submission_id: t.id()?,
            ticket_digest: t.id()?,
            receipt_content_digest: t.id()?,
        };
        parents.push(match tag {
            1 => IngressCausalParent::TickReceipt { receipt_ref: r },
            2 => IngressCausalParent::ContractInverseTarget { receipt_ref: r },
            o => return Err(format!("bad parent tag {o}")),
        });
    }
    if t.next()? != "K" {
        return Err("expected K".into());
    }
    let kind = t.id()?;
    let bytes = t.bytes()?;
    Ok(IngCase { target, parents, kind, bytes })
}

fn show_env(e: &IngressEnvelope) -> String {
    let mut s = match e.target() {
        IngressTarget::DefaultWriter { worldline_id } => format!("T1 {}", hex(worldline_id.as_bytes())),
        IngressTarget::InboxAddress { worldline_id, inbox } => {
            format!("T2 {} {}", hex(worldline_id.as_bytes()), hex(inbox.0.as_bytes()))
        }
        IngressTarget::ExactHead { key } => format!("T3 {} {}", hex(key.worldline_id.as_bytes()), hex(key.head_id.as_bytes())),
    };
    s.push_str(&format!(" P {}", e.causal_parents().len()));
    for p in e.causal_parents() {
        let (tag, r) = match p {
            IngressCausalParent::TickReceipt { receipt_ref } => (1, receipt_ref),
            IngressCausalParent::ContractInverseTarget { receipt_ref } => (2, receipt_ref),
            _ => (0, &p.receipt_ref()),
        };
        s.push_str(&format!(
            " {} {} {} {} {} {} {} {}",
            tag,
            hex(r.worldline_id.as_bytes()),
            r.worldline_tick_after.as_u64(),
            r.commit_global_tick.as_u64(),
            hex(&r.commit_hash),
            hex(&r.submission_id),
            hex(&r.ticket_digest),
            hex(&r.receipt_content_digest)
        ));
    }
    match e.payload() {
        IngressPayload::LocalIntent { intent_kind, intent_bytes } => {
            s.push_str(&format!(" K {} {}", hex(intent_kind.as_hash()), hex(intent_bytes)));
        }
    }
    s
}

fn build(c: &IngCase) -> IngressEnvelope {
    IngressEnvelope::local_intent_with_causal_parents(c.target.clone(), IntentKind::from_hash(c.kind), c.bytes.clone(), c.parents.clone())
}

fn imp_ing_enc(t: &mut Toks) -> Result<String, String> {
    let c = parse_ing(t)?;
    // constructor (sort + dedup of the parent set), writer, reader — the model does all three
    let e = build(&c);
    let b = e.to_retained_bytes_v2();
    Ok(match IngressEnvelope::from_retained_bytes(&b) {
        Ok(d) => format!("ok {} canon {} rt {}", hex(&b), show_env(&e), show_env(&d)),
        Err(_) => format!("ok {} canon {} rt err", hex(&b), show_env(&e)),
    })
}

const PARENT_REC: usize = 1 + 176;

fn parent_rec(p: &IngressCausalParent) -> Vec<u8> {
    let mut v = vec![match p {
        IngressCausalParent::TickReceipt { .. } => 1u8,
        IngressCausalParent::ContractInverseTarget { .. } => 2,
        _ => 0,
    }];
    v.extend_from_slice(&p.receipt_ref().to_canonical_bytes());
    v
}

/// some adjacent pair of the (canonical) parent list orders differently by value and as raw record
/// bytes — the corner where "ascending as bytes" and "ascending in the derived Ord" disagree
fn le_order_mismatch(ps: &[IngressCausalParent]) -> bool {
    ps.windows(2).any(|w| (w[0] < w[1]) != (parent_rec(&w[0]) < parent_rec(&w[1])))
}

fn oracle_ing_enc(t: &mut Toks, _tier: Tier) -> Result<OracleOut, String> {
    let c = parse_ing(t)?;
    let mut o = OracleOut::default();
    let e = build(&c);
    o.nontrivial = true;
    o.tags.push(format!("ing:parents={}", e.causal_parents().len().min(4)));
    o.tags.push(match e.target() {
        IngressTarget::DefaultWriter { .. } => "ing:T1".into(),
        IngressTarget::InboxAddress { .. } => "ing:T2".into(),
        IngressTarget::ExactHead { .. } => "ing:T3".into(),
    });
    if e.causal_parents() != c.parents.as_slice() {
        o.tags.push("ing:constructor-canonicalised-parents".into());
    }
    let mismatch = le_order_mismatch(e.causal_parents());
    let sfx = if mismatch { ".le-tick-order" } else { "" };
    if mismatch {
        o.tags.push("ing:byte-order!=value-order".into());
    }
    // the constructor's form: strictly ascending in the derived Ord, same set as given
    if !e.causal_parents().windows(2).all(|w| w[0] < w[1]) {
        o.fails.push(("C12.ingress.constructor.not-strictly-ascending".into(), show_env(&e)));
    }
    if c.parents.iter().any(|p| !e.causal_parents().contains(p)) || e.causal_parents().iter().any(|p| !c.parents.contains(p)) {
        o.fails.push(("C12.ingress.constructor.parent-set-changed".into(), show_env(&e)));
    }
    let b = e.to_retained_bytes_v2();
    if build(&c).to_retained_bytes_v2() != b {
        o.fails.push(("C12.ingress.nondeterministic".into(), "two encodings differ".into()));
    }
    // the encoding is a function of the parent SET: reversing / rotating / repeating the given list changes nothing
    let mut alt = IngCase { target: c.target.clone(), parents: c.parents.clone(), kind: c.kind, bytes: c.bytes.clone() };
    alt.parents.reverse();
    let rev_b = build(&alt).to_retained_bytes_v2();
    if !alt.parents.is_empty() {
        alt.parents.rotate_left(1);
        let first = alt.parents[0];
        alt.parents.push(first);
    }
    if rev_b != b || build(&alt).to_retained_bytes_v2() != b || build(&alt).ingress_id() != e.ingress_id() {
        o.fails.push((format!("C12.ingress.order-dependent{sfx}"), "order/multiplicity of the given parents changed the retained bytes or the id".into()));
    }
    match IngressEnvelope::from_retained_bytes(&b) {
        Ok(d) if d == e && d.ingress_id() == e.ingress_id() => {}
        Ok(d) if d == e => o.fails.push(("C12.ingress.roundtrip.id-changed".into(), show_env(&d))),
        Ok(d) => o.fails.push((format!("C12.ingress.roundtrip.value-changed{sfx}"), format!("read back {}", show_env(&d)))),
        Err(err) => o.fails.push((
            format!("C12.ingress.roundtrip.own-bytes-refused{sfx}"),
            format!("from_retained(to_retained(e)) = {err:?} for e = {}", show_env(&e)),
        )),
    }
    Ok(o)
}

fn gen_ref(rng: &mut Rng) -> String {
    // tiny universes so that parents compare equal / differ in one late field; ticks whose LE byte
    // order differs from numeric order (255 vs 256)
    let tick = *rng.pick(&[0u64, 1, 255, 256, 65536, u64::MAX]);
    let gt = *rng.pick(&[0u64, 1, 256]);
    format!(
        "{} {} {} {} {} {} {} {}",
        rng.range(1, 2),
        hex(&small_id(rng.below(2))),
        tick,
        gt,
        hex(&small_id(rng.below(2))),
        hex(&small_id(rng.below(2))),
        hex(&small_id(0)),
        hex(&small_id(rng.below(2)))
    )
}

/// tick values a < b whose little-endian bytes order the other way (low byte of a > low byte of b)
fn le_mismatch_pair(rng: &mut Rng) -> (u64, u64) {
    match rng.below(8) {
        0 => (255, 256),
        1 => (1, 1 << 32),
        2 => (0x01ff, 0x0200),
        3 => (2, 1 << 63),
        4 => (0x00ff_ffff_ffff_ffff, 0x0100_0000_0000_0000),
        5 => (0xffff, 0x1_0000),
        _ => {
            // random: b = a + something that carries out of the low byte
            let a = (rng.next() >> rng.below(56)) | 0x80;
            let b = (a | 0xff).wrapping_add(1 + (rng.below(0x40)));
            if a < b { (a, b) } else { (255, 256) }
        }
    }
}

/// 2..4 parents of ONE role on ONE worldline that differ in a tick field only (optionally also in a
/// later hash), built from LE-mismatching tick values; `order`: 0 = by value, 1 = by record bytes,
/// 2 = reversed by value, 3 = with a duplicate
fn gen_le_refs(rng: &mut Rng, order: u64) -> Vec<String> {
    let role = rng.range(1, 2);
    let wl = hex(&small_id(rng.below(2)));
    let (a, b) = le_mismatch_pair(rng);
    let mut ticks = vec![a, b];
    if rng.chance(1, 2) {
        let (c, d) = le_mismatch_pair(rng);
        ticks.push(c);
        if rng.chance(1, 2) {
            ticks.push(d);
        }
    }
    ticks.sort_unstable();
    ticks.dedup();
    let on_global = rng.chance(1, 3); // vary commit_global_tick under an equal worldline tick
    let fixed = *rng.pick(&[0u64, 7, 256]);
    let late = rng.chance(1, 3); // a later hash that orders against the tick
    let n = ticks.len();
    let mut recs: Vec<(Vec<u8>, String)> = ticks
        .iter()
        .enumerate()
        .map(|(i, t)| {
            let (tk, gt) = if on_global { (fixed, *t) } else { (*t, fixed) };
            let h = if late { small_id((n - i) as u64) } else { small_id(0) };
            let s = format!("{role} {wl} {tk} {gt} {} {} {} {}", hex(&h), hex(&small_id(0)), hex(&small_id(0)), hex(&small_id(1)));
            let mut bytes = vec![role as u8];
            bytes.extend_from_slice(&tk.to_le_bytes());
            bytes.extend_from_slice(&gt.to_le_bytes());
            (bytes, s)
        })
        .collect();
    match order {
        0 => {}
        1 => recs.sort_by(|x, y| x.0.cmp(&y.0)),
        2 => recs.reverse(),
        _ => {
            let d = recs[rng.below(n as u64) as usize].clone();
            recs.insert(rng.below(n as u64 + 1) as usize, d);
        }
    }
    let mut out: Vec<String> = recs.into_iter().map(|r| r.1).collect();
    if rng.chance(1, 4) {
        let twin = flip_role(&out[rng.below(out.len() as u64) as usize]);
        out.insert(rng.below(out.len() as u64 + 1) as usize, twin);
    }
    if rng.chance(1, 4) {
        // one parent of the other role / another worldline beside them
        out.insert(rng.below(out.len() as u64 + 1) as usize, gen_ref(rng));
    }
    out
}

fn gen_target(rng: &mut Rng) -> String {
    match rng.below(3) {
        0 => format!("T1 {}", hex(&small_id(rng.below(3)))),
        1 => {
            let inbox = *rng.pick(&["", "a", "inbox", "é€", "0123456789abcdef0123456789abcdef"]);
            format!("T2 {} {}", hex(&small_id(rng.below(3))), hex(inbox.as_bytes()))
        }
        _ => format!("T3 {} {}", hex(&small_id(rng.below(3))), hex(&small_id(rng.below(3)))),
    }
}

fn term_with(rng: &mut Rng, refs: &[String]) -> String {
    let len = rng.below(10) as usize;
    format!("{} P {} {}{}K {} {}", gen_target(rng), refs.len(), refs.join(" "), if refs.is_empty() { "" } else { " " }, hex(&small_id(rng.below(3))), hex(&rng.bytes(len)))
}

/// the same receipt coordinate cited under the other role (the two are different parents)
fn flip_role(r: &str) -> String {
    let (role, rest) = r.split_once(' ').unwrap_or(("1", r));
    format!("{} {rest}", if role == "1" { 2 } else { 1 })
}

fn gen_ing_term(rng: &mut Rng, sorted: bool) -> String {
    let n = if rng.chance(1, 2) { 0 } else { rng.range(1, 4) };
    let mut refs: Vec<String> = (0..n).map(|_| gen_ref(rng)).collect();
    if n > 0 && rng.chance(1, 3) {
        let twin = flip_role(&refs[rng.below(n) as usize]);
        refs.insert(rng.below(n + 1) as usize, twin);
    }
    if sorted {
        // canonicalise with the REAL order: parse, let the constructor sort+dedup, print back
        let probe = format!("T1 {} P {} {} K {} -", hex(&small_id(0)), refs.len(), refs.join(" "), hex(&small_id(0)));
        let mut t = Toks::new(&probe);
        if let Ok(c) = parse_ing(&mut t) {
            let e = build(&c);
            let shown = show_env(&e);
            // shown = "T1 <wl> P n refs… K …"
            let toks: Vec<&str> = shown.split(' ').collect();
            let cnt: usize = toks[3].parse().unwrap_or(0);
            refs = (0..cnt).map(|i| toks[4 + i * 8..4 + i * 8 + 8].join(" ")).collect();
        }
    }
    term_with(rng, &refs)
}

fn gen_ing_enc(rng: &mut Rng, tier: Tier) -> Vec<String> {
    let n = if tier == Tier::Thorough { 3000 } else { 300 };
    let mut out: Vec<String> = (0..n).map(|i| gen_ing_term(rng, i % 3 != 0)).collect();
    // the LE corner, in every given order
    let m = if tier == Tier::Thorough { 2000 } else { 240 };
    for i in 0..m {
        let refs = gen_le_refs(rng, i % 4);
        out.push(term_with(rng, &refs));
    }
    out
}

fn imp_ing_dec(t: &mut Toks) -> Result<String, String> {
    let b = t.bytes()?;
    let _label = t.next()?;
    Ok(match IngressEnvelope::from_retained_bytes(&b) {
        Err(_) => "err".into(),
        Ok(e) => format!("ok {} re {}", show_env(&e), hex(&e.to_retained_bytes_v2())),
    })
}

fn oracle_ing_dec(t: &mut Toks, _tier: Tier) -> Result<OracleOut, String> {
    let b = t.bytes()?;
    let label = t.next()?.to_string();
    let mut o = OracleOut::default();
    o.tags.push(format!("ing-src:{label}"));
    let v1 = b.starts_with(b"EINGR001");
    match IngressEnvelope::from_retained_bytes(&b) {
        Err(e) => {
            let class = format!("{e:?}");
            let class = class.split(['(', ' ', '{']).next().unwrap_or("?").to_string();
            o.tags.push(format!("ing-rej:{class}"));
            if label.starts_with("valid") {
                // the generator wrote these bytes with the real writer from a constructor-built envelope
                o.fails.push((format!("C12.ingress.roundtrip.own-bytes-refused.{label}"), format!("reader refused writer output {} with {class}", hex(&b))));
            }
        }
        Ok(e) => {
            o.nontrivial = true;
            o.tags.push("ing:accepted".into());
            let mismatch = le_order_mismatch(e.causal_parents());
            if mismatch {
                o.tags.push("ing:byte-order!=value-order".into());
            }
            if label.starts_with("mut!") {
                o.fails.push((format!("C12.ingress.accepted.{}", &label[4..]), format!("reader accepted {}", hex(&b))));
            }
            let mut re = e.to_retained_bytes_v2();
            if v1 {
                // legacy form: the v2 bytes of a PARENTLESS envelope under the old magic
                o.tags.push("ing:v1-accepted".into());
                if !e.causal_parents().is_empty() {
                    o.fails.push(("C12.ingress.v1.accepted-with-parents".into(), hex(&b)));
                }
                re[..8].copy_from_slice(b"EINGR001");
            }
            if re != b {
                let why = if re.len() == b.len() && mismatch { ".le-tick-order" } else if re.len() == b.len() { ".same-length" } else { ".length" };
                o.fails.push((format!("C12.ingress.accepted-noncanonical{why}"), format!("accepted {} re-encodes as {}", hex(&b), hex(&re))));
            }
            // what the reader returns is a constructor value (strictly ascending parents, id of the content)
            if !e.causal_parents().windows(2).all(|w| w[0] < w[1]) {
                o.fails.push(("C12.ingress.accepted.parents-not-ascending".into(), show_env(&e)));
            }
            let IngressPayload::LocalIntent { intent_kind, intent_bytes } = e.payload();
            let rebuilt = IngressEnvelope::local_intent_with_causal_parents(e.target().clone(), *intent_kind, intent_bytes.clone(), e.causal_parents().to_vec());
            if rebuilt != e || rebuilt.ingress_id() != e.ingress_id() {
                o.fails.push(("C12.ingress.accepted.not-a-constructor-value".into(), show_env(&e)));
            }
        }
    }
    Ok(o)
}

fn target_len(e: &IngressEnvelope) -> usize {
    match e.target() {
        IngressTarget::DefaultWriter { .. } => 33,
        IngressTarget::InboxAddress { inbox, .. } => 33 + 8 + inbox.0.len(),
        IngressTarget::ExactHead { .. } => 65,
    }
}

/// byte-level rearrangements of the parent records of a valid encoding
fn parent_mutations(b: &[u8], toff: usize, np: usize, out: &mut Vec<String>) {
    let a = toff + 8;
    let recs: Vec<Vec<u8>> = (0..np).map(|i| b[a + i * PARENT_REC..a + (i + 1) * PARENT_REC].to_vec()).collect();
    let emit = |recs: &[Vec<u8>], label: &str, out: &mut Vec<String>| {
        let mut m = b[..toff].to_vec();
        m.extend_from_slice(&(recs.len() as u64).to_le_bytes());
        for r in recs {
            m.extend_from_slice(r);
        }
        m.extend_from_slice(&b[a + np * PARENT_REC..]);
        out.push(format!("{} {}", hex(&m), label));
    };
    for i in 0..np.saturating_sub(1) {
        let mut r = recs.clone();
        r.swap(i, i + 1);
        emit(&r, "mut!swap-parents", out);
    }
    let mut by_bytes = recs.clone();
    by_bytes.sort();
    if by_bytes != recs {
        emit(&by_bytes, "mut!parents-in-byte-order", out);
    }
    if np >= 3 {
        let mut r = recs.clone();
        r.reverse();
        emit(&r, "mut!reverse-parents", out);
    }
    for i in 0..np {
        let mut r = recs.clone();
        r.insert(i, recs[i].clone());
        emit(&r, "mut!dup-parent", out);
    }
}

fn gen_ing_dec(rng: &mut Rng, tier: Tier) -> Vec<String> {
    let n = if tier == Tier::Thorough { 3000 } else { 300 };
    let mut out = Vec::new();
    // the LE corner: the writer's bytes must be accepted, every rearrangement of the records refused
    let m = if tier == Tier::Thorough { 1000 } else { 120 };
    for _ in 0..m {
        let refs = gen_le_refs(rng, 0);
        let term = term_with(rng, &refs);
        let mut t = Toks::new(&term);
        let Ok(c) = parse_ing(&mut t) else { continue };
        let e = build(&c);
        let b = e.to_retained_bytes_v2();
        out.push(format!("{} valid-le", hex(&b)));
        parent_mutations(&b, 8 + target_len(&e), e.causal_parents().len(), &mut out);
    }
    for _ in 0..n {
        let term = gen_ing_term(rng, true);
        let mut t = Toks::new(&term);
        let Ok(c) = parse_ing(&mut t) else { continue };
        let e = build(&c);
        let b = e.to_retained_bytes_v2();
        out.push(format!("{} valid", hex(&b)));
        let np = e.causal_parents().len();
        // offset of the parent count: magic 8 + target
        let toff = 8 + target_len(&e);
        if np >= 2 && rng.chance(1, 3) {
            parent_mutations(&b, toff, np, &mut out);
        }
        // legacy v1 material
        if rng.chance(1, 4) {
            let mut v = b.clone();
            v[..8].copy_from_slice(b"EINGR001");
            if np == 0 {
                out.push(format!("{} valid-v1", hex(&v)));
                let mut w = v.clone();
                match rng.below(4) {
                    0 => {
                        w.push(0);
                        out.push(format!("{} mut!v1-append", hex(&w)));
                    }
                    1 => {
                        w.truncate(rng.below(w.len() as u64) as usize);
                        out.push(format!("{} mut!v1-truncate", hex(&w)));
                    }
                    2 => {
                        // one legacy parent (tag 1 + bare digest): ambiguous, always refused
                        let mut rec = vec![1u8];
                        rec.extend_from_slice(&small_id(rng.below(3)));
                        w.splice(toff + 8..toff + 8, rec);
                        w[toff..toff + 8].copy_from_slice(&1u64.to_le_bytes());
                        out.push(format!("{} mut!v1-parent", hex(&w)));
                    }
                    _ => {
                        let mut rec = vec![1u8];
                        rec.extend_from_slice(&small_id(2));
                        rec.push(1);
                        rec.extend_from_slice(&small_id(1));
                        w.splice(toff + 8..toff + 8, rec);
                        w[toff..toff + 8].copy_from_slice(&2u64.to_le_bytes());
                        out.push(format!("{} mut!v1-parents-unsorted", hex(&w)));
                    }
                }
            } else {
                // v2 parent records under the v1 magic: wrong record size, refused
                out.push(format!("{} mut!v1-magic-on-v2-parents", hex(&v)));
            }
        }
        let mut m = b.clone();
        let label = match rng.below(9) {
            0 => {
                m.push(rng.next() as u8);
                "mut!append"
            }
            1 => {
                let cut = rng.below(m.len() as u64) as usize;
                m.truncate(cut);
                "mut!truncate"
            }
            2 => {
                m[8] = 4 + rng.below(250) as u8;
                "mut!target-tag"
            }
            3 if np >= 2 => {
                // swap the first two parents
                let a = toff + 8;
                let (x, y) = (m[a..a + PARENT_REC].to_vec(), m[a + PARENT_REC..a + 2 * PARENT_REC].to_vec());
                m[a..a + PARENT_REC].copy_from_slice(&y);
                m[a + PARENT_REC..a + 2 * PARENT_REC].copy_from_slice(&x);
                "mut!swap-parents"
            }
            4 if np >= 1 => {
                // duplicate the first parent and bump the count
                let a = toff + 8;
                let x = m[a..a + PARENT_REC].to_vec();
                m.splice(a..a, x);
                m[toff..toff + 8].copy_from_slice(&((np + 1) as u64).to_le_bytes());
                "mut!dup-parent"
            }
            5 if np >= 1 => {
                m[toff + 8] = 3 + rng.below(200) as u8;
                "mut!parent-tag"
            }
            6 => {
                // huge parent count
                m[toff..toff + 8].copy_from_slice(&u64::MAX.to_le_bytes());
                "mut!count"
            }
            7 => {
                m[..8].copy_from_slice(b"EINGR003");
                "mut!magic"
            }
            _ => {
                let i = rng.below(m.len() as u64) as usize;
                m[i] ^= 1 << rng.below(8);
                "bitflip"
            }
        };
        out.push(format!("{} {}", hex(&m), label));
        if matches!(e.target(), IngressTarget::InboxAddress { inbox, .. } if !inbox.0.is_empty()) {
            let mut u = b.clone();
            u[8 + 33 + 8] = 0xff; // invalid UTF-8 in the inbox name
            out.push(format!("{} mut!utf8", hex(&u)));
        }
    }
    out
}
