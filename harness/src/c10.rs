//! C10 — what was acknowledged survives any crash; what was not is invisible.
//! Real code: `WalTransactionBuilder`, `FilesystemWalStore::append_transaction` (writer),
//! `recover_wal_segment_bytes`, `recover_filesystem_store` (+ truncation rewrite) (reader).
#![allow(dead_code)]
use crate::prng::Rng;
use crate::util::{hex, Toks};
use crate::{OracleOut, Stream, Tier};
use std::path::PathBuf;
use std::sync::atomic::{AtomicU64, Ordering};
use warp_core::causal_wal::{
    recover_filesystem_store, recover_wal_segment_bytes, AffectedFrontier, AffectedFrontierKind,
    FilesystemWalStore, Lsn, PayloadCodecId, PayloadSchemaId, RecoveryAccessMode, RecoveryScanReport,
    RecoveryTailPosture, WalCommittedTransaction, WalDecodeError, WalDurabilityMode, WalRecordKind,
    WalRecoveryError, WalSegmentId, WalStoreError, WalStorePort, WalTransactionBuilder, WalTransactionId,
    WalTransactionKind, WalValidationError, WriterEpochId, WriterEpochRequest,
};

pub fn streams() -> Vec<Stream> {
    vec![
        Stream { name: "C10.blake3", gen: gen_blake3, imp: imp_blake3, oracle: oracle_blake3 },
        Stream { name: "C10.cut", gen: gen_cut, imp: imp_cut, oracle: oracle_cut },
        Stream { name: "C10.bytes", gen: gen_bytes, imp: imp_bytes, oracle: oracle_bytes },
        Stream { name: "C10.fs", gen: gen_fs, imp: imp_fs, oracle: oracle_fs },
        Stream { name: "C10.rewrite", gen: gen_rewrite, imp: imp_rewrite, oracle: oracle_rewrite },
        // private: run by `oracle_rewrite` in a child process that is killed mid-write
        Stream { name: "C10.child-recover", gen: |_, _| Vec::new(), imp: imp_child_recover, oracle: |_, _| Ok(OracleOut::default()) },
    ]
}

pub type Hash = [u8; 32];

// ------------------------------------------------------------------ scratch directories

static DIR_SEQ: AtomicU64 = AtomicU64::new(0);

pub fn scratch_dir(label: &str) -> PathBuf {
    let base = std::env::var("VERIF_SCRATCH").map(PathBuf::from).unwrap_or_else(|_| std::env::temp_dir());
    let n = DIR_SEQ.fetch_add(1, Ordering::SeqCst);
    let d = base.join(format!("echo-verif-wal-{}-{}-{}", std::process::id(), label, n));
    let _ = std::fs::remove_dir_all(&d);
    d
}

pub struct Scratch(pub PathBuf);
impl Scratch {
    pub fn new(label: &str) -> Self {
        Scratch(scratch_dir(label))
    }
}
impl Drop for Scratch {
    fn drop(&mut self) {
        let _ = std::fs::remove_dir_all(&self.0);
    }
}

// ------------------------------------------------------------------ enum tables

pub fn record_kind_of(code: u64) -> Result<WalRecordKind, String> {
    use WalRecordKind::*;
    let all = [
        SubmissionAcceptedRecorded,
        SubmissionAcceptanceEvidenceRecorded,
        SubmissionEnvelopeRetained,
        RuntimeLawWitnessRecorded,
        RuntimeAdmissionTicketIssued,
        TicketedRuntimeIngressRecorded,
        TickReceiptRecorded,
        RuntimeStateDeltaRecorded,
        ReceiptCorrelationRecorded,
        ReadingEnvelopeRetained,
        RetainedMaterialRefRecorded,
        SchedulerFaultQuarantined,
        TrustedRuntimeControlRecorded,
        CheckpointPublicationRecorded,
        MaterializationIntentRecorded,
        MaterializationEffectObserved,
        RecoveryPostureRecorded,
        TopologyStrandForkRecorded,
        TopologyStrandDropRecorded,
        TopologyBraidEventRecorded,
        TopologyBraidShellRetained,
        TopologySuffixImportRecorded,
        CausalAnchorFactRecorded,
        CausalAnchorAdmissionReceiptRecorded,
        ExecutableOperationPackageInstalled,
        ExecutableOperationExecutionRecorded,
        ExecutableOperationStateDeltaRecorded,
        ExecutableOperationActionOutcomeRecorded,
        ExternalActionRequestRecorded,
        ExternalActionClaimRecorded,
        ExternalActionSettlementRecorded,
    ];
    all.iter().copied().find(|k| u64::from(k.stable_code()) == code).ok_or_else(|| format!("bad record kind {code}"))
}

pub fn tx_kind_of(code: u64) -> Result<WalTransactionKind, String> {
    use WalTransactionKind::*;
    let all = [
        SubmissionIntake,
        SchedulerTick,
        RuntimePosture,
        Checkpoint,
        MaterializationOutbox,
        TopologyIntent,
        CausalAnchorAdmission,
        ExecutableOperationInstallation,
        ExecutableOperationTick,
        ExternalActionRequest,
        ExternalActionClaim,
        ExternalActionSettlement,
    ];
    all.iter().copied().find(|k| u64::from(k.stable_code()) == code).ok_or_else(|| format!("bad tx kind {code}"))
}

pub fn frontier_kind_of(code: u64) -> Result<AffectedFrontierKind, String> {
    use AffectedFrontierKind::*;
    let all = [
        SubmissionQueue,
        RuntimeState,
        ReceiptIndex,
        ReadingIndex,
        RuntimeControl,
        CheckpointIndex,
        TopologyIndex,
        CausalAnchorIndex,
        ExecutableOperationCatalog,
        ExecutableOperationReceiptIndex,
        ExternalActionIndex,
    ];
    all.iter().copied().find(|k| u64::from(k.stable_code()) == code).ok_or_else(|| format!("bad frontier kind {code}"))
}

pub fn durability_of(code: u64) -> Result<WalDurabilityMode, String> {
    Ok(match code {
        1 => WalDurabilityMode::StrictFilesystem,
        2 => WalDurabilityMode::StrictObjectStore,
        3 => WalDurabilityMode::Buffered,
        4 => WalDurabilityMode::ReadOnlyRecovery,
        5 => WalDurabilityMode::Disabled,
        o => return Err(format!("bad durability {o}")),
    })
}

// ------------------------------------------------------------------ canonical error names

pub fn v_err(e: &WalValidationError) -> String {
    use WalValidationError::*;
    match e {
        RecordKindMismatch => "recordKind".into(),
        PayloadDigestMismatch => "payloadDigest".into(),
        HeaderChecksumMismatch => "headerChecksum".into(),
        FrameChecksumMismatch => "frameChecksum".into(),
        EmptyTransaction => "empty".into(),
        TransactionIdMismatch => "txId".into(),
        WriterEpochMismatch => "epoch".into(),
        TransactionLocalIndexMismatch => "localIndex".into(),
        LsnContinuityMismatch => "lsnContinuity".into(),
        FirstLsnMismatch => "firstLsn".into(),
        LastLsnMismatch => "lastLsn".into(),
        RecordCountMismatch => "recordCount".into(),
        RecordsRootMismatch => "recordsRoot".into(),
        CommitDigestMismatch => "commitDigest".into(),
        other => format!("other:{other:?}"),
    }
}

pub fn d_err(e: &WalDecodeError) -> String {
    match e {
        WalDecodeError::UnexpectedEof => "decode.eof".into(),
        WalDecodeError::TrailingBytes => "decode.trailing".into(),
        WalDecodeError::UnknownEnumCode { enum_name, code } => format!("decode.enum.{enum_name}.{code}"),
        WalDecodeError::InvalidEmbeddedFrame => "decode.embedded".into(),
        other => format!("decode.other:{other:?}").replace(' ', "_"),
    }
}

pub fn r_err(e: &WalRecoveryError) -> String {
    match e {
        WalRecoveryError::Validation(v) => format!("valid.{}", v_err(v)),
        WalRecoveryError::Store(WalStoreError::SegmentRecordDigestMismatch) => "store.digest".into(),
        WalRecoveryError::Store(WalStoreError::UnknownDiskRecordKind(k)) => format!("store.kind.{k}"),
        WalRecoveryError::Store(WalStoreError::Decode(d)) => d_err(d),
        WalRecoveryError::Store(WalStoreError::SegmentMismatch { expected, actual }) => {
            format!("store.segment.{}.{}", expected.as_u64(), actual.as_u64())
        }
        WalRecoveryError::Store(WalStoreError::Validation(v)) => format!("store.valid.{}", v_err(v)),
        WalRecoveryError::Store(WalStoreError::Io(m)) => format!("store.io:{}", m.replace(' ', "_")),
        other => format!("other:{other:?}").replace(' ', "_"),
    }
}

pub fn tail_tok(t: RecoveryTailPosture) -> String {
    match t {
        RecoveryTailPosture::Clean => "C".into(),
        RecoveryTailPosture::TruncatedAll => "TALL".into(),
        RecoveryTailPosture::TruncatedAfter(l) => format!("TA{}", l.as_u64()),
        RecoveryTailPosture::WouldTruncateAll => "WALL".into(),
        RecoveryTailPosture::WouldTruncateAfter(l) => format!("WA{}", l.as_u64()),
    }
}

pub fn short_report(r: &RecoveryScanReport) -> String {
    let nf: usize = r.transactions.iter().map(|t| t.frames.len()).sum();
    let last = r
        .transactions
        .last()
        .map(|t| hex::encode(&t.commit.commit_digest[..4]))
        .unwrap_or_else(|| "-".into());
    format!("{}:{}:{}:{}", r.transactions.len(), nf, tail_tok(r.tail_posture), last)
}

pub fn long_report(r: &RecoveryScanReport) -> String {
    let mut s = format!("n={} tail={}", r.transactions.len(), tail_tok(r.tail_posture));
    for t in &r.transactions {
        s.push_str(&format!(
            " {}/{}/{}-{}/{}",
            hex::encode(&t.commit.commit_digest[..8]),
            hex::encode(&t.commit.transaction_id.as_hash()[..4]),
            t.commit.first_lsn.as_u64(),
            t.commit.last_lsn.as_u64(),
            t.frames.len()
        ));
    }
    s
}

pub fn mode_of(s: &str) -> Result<RecoveryAccessMode, String> {
    match s {
        "w" => Ok(RecoveryAccessMode::Writable),
        "r" => Ok(RecoveryAccessMode::ReadOnly),
        o => Err(format!("bad mode {o}")),
    }
}

// ------------------------------------------------------------------ log specifications

#[derive(Clone)]
pub struct TxSpec {
    pub txid: Hash,
    pub kind: u64,
    pub records: Vec<(u64, Vec<u8>)>,
    pub frontiers: Vec<(u64, Hash, Hash)>,
}

#[derive(Clone)]
pub struct LogSpec {
    pub epoch: Hash,
    pub segment: u64,
    pub codec: Hash,
    pub schema: Hash,
    pub schema_version: u64,
    pub encoding_version: u64,
    pub domain: Hash,
    pub durability: u64,
    pub chain: bool,
    pub pf: Hash,
    pub pc: Hash,
    pub first_lsn: u64,
    pub txs: Vec<TxSpec>,
}

pub fn parse_spec(t: &mut Toks) -> Result<LogSpec, String> {
    let epoch = t.id()?;
    let segment = t.num()?;
    let codec = t.id()?;
    let schema = t.id()?;
    let schema_version = t.num()?;
    let encoding_version = t.num()?;
    let domain = t.id()?;
    let durability = t.num()?;
    let chain = t.num()? == 1;
    let pf = t.id()?;
    let pc = t.id()?;
    let first_lsn = t.num()?;
    let ntx = t.num()?;
    let mut txs = Vec::new();
    for _ in 0..ntx {
        let txid = t.id()?;
        let kind = t.num()?;
        let nrec = t.num()?;
        let mut records = Vec::new();
        for _ in 0..nrec {
            let k = t.num()?;
            let b = t.bytes()?;
            records.push((k, b));
        }
        let nfr = t.num()?;
        let mut frontiers = Vec::new();
        for _ in 0..nfr {
            let k = t.num()?;
            let b = t.id()?;
            let a = t.id()?;
            frontiers.push((k, b, a));
        }
        txs.push(TxSpec { txid, kind, records, frontiers });
    }
    Ok(LogSpec {
        epoch,
        segment,
        codec,
        schema,
        schema_version,
        encoding_version,
        domain,
        durability,
        chain,
        pf,
        pc,
        first_lsn,
        txs,
    })
}

pub fn render_spec(s: &LogSpec) -> String {
    let mut o = format!(
        "{} {} {} {} {} {} {} {} {} {} {} {} {}",
        hex(&s.epoch),
        s.segment,
        hex(&s.codec),
        hex(&s.schema),
        s.schema_version,
        s.encoding_version,
        hex(&s.domain),
        s.durability,
        u8::from(s.chain),
        hex(&s.pf),
        hex(&s.pc),
        s.first_lsn,
        s.txs.len()
    );
    for tx in &s.txs {
        o.push_str(&format!(" {} {} {}", hex(&tx.txid), tx.kind, tx.records.len()));
        for (k, b) in &tx.records {
            o.push_str(&format!(" {} {}", k, hex(b)));
        }
        o.push_str(&format!(" {}", tx.frontiers.len()));
        for (k, b, a) in &tx.frontiers {
            o.push_str(&format!(" {} {} {}", k, hex(b), hex(a)));
        }
    }
    o
}

/// Builds the transactions of a spec with the REAL `WalTransactionBuilder`.
pub fn build_transactions(s: &LogSpec) -> Result<Vec<WalCommittedTransaction>, String> {
    let mut out = Vec::new();
    let mut lsn = s.first_lsn;
    let mut pf = s.pf;
    let mut pc = s.pc;
    for tx in &s.txs {
        let first_kind = record_kind_of(tx.records.first().ok_or("empty tx")?.0)?;
        let mut b = WalTransactionBuilder::new(
            WriterEpochId::from_hash(s.epoch),
            WalSegmentId::from_raw(s.segment),
            WalTransactionId::from_hash(tx.txid),
            tx_kind_of(tx.kind)?,
            first_kind.required_authority(),
            Lsn::from_raw(lsn),
            pf,
            pc,
            durability_of(s.durability)?,
            PayloadCodecId::from_hash(s.codec),
            PayloadSchemaId::from_hash(s.schema),
            s.schema_version as u16,
            s.encoding_version as u16,
            s.domain,
        );
        for (k, bytes) in &tx.records {
            b.push_record(record_kind_of(*k)?, bytes.clone()).map_err(|e| format!("push_record: {e:?}"))?;
        }
        let mut fr = Vec::new();
        for (k, before, after) in &tx.frontiers {
            fr.push(AffectedFrontier { kind: frontier_kind_of(*k)?, before_digest: *before, after_digest: *after });
        }
        let t = b.commit(fr).map_err(|e| format!("commit: {e:?}"))?;
        lsn += tx.records.len() as u64;
        if s.chain {
            pf = t.frames.last().map(|f| f.digest()).unwrap_or(pf);
            pc = t.commit.commit_digest;
        }
        out.push(t);
    }
    Ok(out)
}

fn epoch_request(s: &LogSpec) -> WriterEpochRequest {
    WriterEpochRequest {
        epoch_id: WriterEpochId::from_hash(s.epoch),
        storage_fencing_token: *blake3::hash(b"verif:fencing").as_bytes(),
        process_identity: *blake3::hash(b"verif:process").as_bytes(),
        host_identity: *blake3::hash(b"verif:host").as_bytes(),
        started_at_lsn: Lsn::from_raw(s.first_lsn),
        previous_epoch_id: None,
        previous_epoch_final_commit_digest: None,
        lease_or_lock_evidence: *blake3::hash(b"verif:lease").as_bytes(),
    }
}

/// Writes the spec through the REAL filesystem store and returns the segment bytes.
pub fn write_log(s: &LogSpec) -> Result<(Vec<u8>, Vec<WalCommittedTransaction>), String> {
    let txs = build_transactions(s)?;
    let dir = Scratch::new("w");
    // the store insists on a gap-free segment namespace starting at 1: lower segments exist, empty
    std::fs::create_dir_all(dir.0.join("segments")).map_err(|e| e.to_string())?;
    for lower in 1..s.segment {
        std::fs::write(warp_core::causal_wal::canonical_segment_path(&dir.0, WalSegmentId::from_raw(lower)), b"")
            .map_err(|e| e.to_string())?;
    }
    let mut store =
        FilesystemWalStore::open(&dir.0, WalSegmentId::from_raw(s.segment)).map_err(|e| format!("open: {e:?}"))?;
    store.acquire_writer_epoch(epoch_request(s)).map_err(|e| format!("epoch: {e:?}"))?;
    for t in &txs {
        store.append_transaction(t.clone()).map_err(|e| format!("append: {e:?}"))?;
    }
    let bytes = std::fs::read(store.segment_path()).map_err(|e| format!("read: {e}"))?;
    Ok((bytes, txs))
}

/// (end offset, kind byte) of every whole disk record, walking only the length fields.
pub fn record_ends(b: &[u8]) -> Vec<(usize, u8)> {
    let mut out = Vec::new();
    let mut off = 0usize;
    while off + 17 <= b.len() {
        let kind = b[off + 8];
        let len = u64::from_le_bytes(b[off + 9..off + 17].try_into().unwrap()) as usize;
        let end = match off.checked_add(17).and_then(|x| x.checked_add(len)).and_then(|x| x.checked_add(32)) {
            Some(e) if e <= b.len() => e,
            _ => break,
        };
        out.push((end, kind));
        off = end;
    }
    out
}

pub fn cut_set(len: usize, stride: usize, ends: &[(usize, u8)]) -> Vec<usize> {
    let mut v: Vec<usize> = vec![0, len];
    if stride > 0 {
        let mut m = 0;
        while m <= len {
            v.push(m);
            m += stride;
        }
    }
    for (e, _) in ends {
        v.push(e.saturating_sub(1));
        v.push(*e);
        v.push(e + 1);
    }
    v.retain(|m| *m <= len);
    v.sort_unstable();
    v.dedup();
    v
}

fn rle(xs: &[(usize, String)]) -> String {
    let mut out = String::new();
    let mut cur: Option<(usize, usize, &String)> = None;
    for (m, r) in xs {
        match cur {
            Some((a, _, r0)) if r0 == r => cur = Some((a, *m, r0)),
            Some((a, b, r0)) => {
                out.push_str(&format!(" {a}-{b}={r0}"));
                cur = Some((*m, *m, r));
            }
            None => cur = Some((*m, *m, r)),
        }
    }
    if let Some((a, b, r0)) = cur {
        out.push_str(&format!(" {a}-{b}={r0}"));
    }
    out
}

// ------------------------------------------------------------------ C10.blake3 (driver hash self-test)

fn imp_blake3(t: &mut Toks) -> Result<String, String> {
    let b = t.bytes()?;
    Ok(hex::encode(blake3::hash(&b).as_bytes()))
}
fn oracle_blake3(t: &mut Toks, _: Tier) -> Result<OracleOut, String> {
    let b = t.bytes()?;
    let mut o = OracleOut::default();
    o.tags.push(format!("blake3-len-bucket={}", (b.len() + 1023) / 1024));
    o.nontrivial = b.len() > 64;
    Ok(o)
}
fn gen_blake3(rng: &mut Rng, _: Tier) -> Vec<String> {
    let lens = [0usize, 1, 3, 63, 64, 65, 127, 128, 129, 1023, 1024, 1025, 2047, 2048, 2049, 3072, 3073, 4096, 4097, 5000, 7168, 8193];
    lens.iter().map(|n| hex(&rng.bytes(*n))).collect()
}

// ------------------------------------------------------------------ generators

const KINDS: [(u64, &[u64], &[u64]); 6] = [
    // (tx kind, record kinds of the matching authority, allowed frontier kinds)
    (1, &[1, 2, 22], &[1]),
    (2, &[6, 7, 8, 9, 10, 3, 4, 5], &[2, 3, 4]),
    (3, &[11, 12], &[5]),
    (4, &[13, 16], &[6]),
    (5, &[14, 15], &[3]),
    (6, &[17, 18, 19, 20, 21], &[7]),
];

pub fn small_hash(rng: &mut Rng, tag: u8) -> Hash {
    let mut h = [0u8; 32];
    h[0] = tag;
    h[31] = rng.below(4) as u8;
    if rng.chance(1, 3) {
        h = *blake3::hash(&[tag, rng.below(6) as u8]).as_bytes();
    }
    h
}

pub fn gen_spec(rng: &mut Rng, max_tx: u64, max_payload: usize) -> LogSpec {
    let ntx = rng.range(1, max_tx);
    let mut txs = Vec::new();
    for i in 0..ntx {
        let (kind, recs, frs) = *rng.pick(&KINDS);
        let nrec = if rng.chance(1, 6) { rng.range(3, 5) } else { rng.range(1, 2) };
        let mut records = Vec::new();
        for _ in 0..nrec {
            let len = match rng.below(6) {
                0 => 0,
                1 => rng.below(4) as usize,
                2 => max_payload,
                _ => rng.below(max_payload as u64 + 1) as usize,
            };
            records.push((*rng.pick(recs), rng.bytes(len)));
        }
        let nfr = rng.range(0, 2);
        let mut frontiers = Vec::new();
        for _ in 0..nfr {
            frontiers.push((*rng.pick(frs), small_hash(rng, 0xB0), small_hash(rng, 0xA0)));
        }
        // tx ids from a tiny universe: repeated ids across transactions do happen
        let mut txid = *blake3::hash(&[0x77, rng.below(3) as u8]).as_bytes();
        if rng.chance(3, 4) {
            txid = *blake3::hash(&[0x78, i as u8]).as_bytes();
        }
        txs.push(TxSpec { txid, kind, records, frontiers });
    }
    LogSpec {
        epoch: small_hash(rng, 0xE0),
        segment: if rng.chance(1, 5) { rng.range(2, 9) } else { 1 },
        codec: small_hash(rng, 0xC0),
        schema: small_hash(rng, 0x50),
        schema_version: rng.range(0, 3),
        encoding_version: rng.range(0, 3),
        domain: small_hash(rng, 0xD0),
        durability: rng.range(1, 5),
        chain: rng.chance(2, 3),
        pf: small_hash(rng, 0xF0),
        pc: small_hash(rng, 0xF8),
        first_lsn: *rng.pick(&[0u64, 0, 1, 7, 1000, u32::MAX as u64, (1u64 << 40) + 3]),
        txs,
    }
}

// ------------------------------------------------------------------ C10.cut

struct CutCase {
    mode: RecoveryAccessMode,
    stride: usize,
    spec: LogSpec,
}

fn parse_cut(t: &mut Toks) -> Result<CutCase, String> {
    let mode = mode_of(t.next()?)?;
    let stride = t.num()? as usize;
    let spec = parse_spec(t)?;
    if !t.done() {
        return Err("trailing tokens".into());
    }
    Ok(CutCase { mode, stride, spec })
}

fn imp_cut(t: &mut Toks) -> Result<String, String> {
    let c = parse_cut(t)?;
    let (b, _) = write_log(&c.spec)?;
    let ends = record_ends(&b);
    let cuts = cut_set(b.len(), c.stride, &ends);
    let mut res = Vec::new();
    for m in &cuts {
        let r = match recover_wal_segment_bytes(WalSegmentId::from_raw(c.spec.segment), &b[..*m], c.mode) {
            Ok(r) => short_report(&r.report),
            Err(e) => format!("E{}", r_err(&e)),
        };
        res.push((*m, r));
    }
    Ok(format!("len={} dig {} cuts={} ;{}", b.len(), hex::encode(blake3::hash(&b).as_bytes()), cuts.len(), rle(&res)))
}

/// The property, evaluated directly: for EVERY cut of the written segment, recovery succeeds and
/// returns exactly the transactions whose commit marker lies wholly inside the cut, byte-identical
/// to what was written; the tail posture is Clean iff the cut is a transaction boundary.
fn oracle_cut(t: &mut Toks, tier: Tier) -> Result<OracleOut, String> {
    let c = parse_cut(t)?;
    let mut o = OracleOut::default();
    let (b, txs) = write_log(&c.spec)?;
    let ends = record_ends(&b);
    // the oracle looks at more cuts than the correspondence: every byte in thorough, stride 3 in quick
    let stride = if tier == Tier::Thorough { 1 } else { c.stride.min(3).max(1) };
    let cuts = cut_set(b.len(), stride, &ends);
    let commit_ends: Vec<usize> = ends.iter().filter(|(_, k)| *k == 2).map(|(e, _)| *e).collect();
    if commit_ends.len() != txs.len() || ends.last().map(|(e, _)| *e) != Some(b.len()) {
        o.fails.push(("C10.writer-framing".into(), "segment written by the store is not a sequence of whole records with one commit marker per transaction".into()));
        return Ok(o);
    }
    let seg = WalSegmentId::from_raw(c.spec.segment);
    for m in &cuts {
        let k = commit_ends.iter().filter(|e| **e <= *m).count();
        let at_boundary = *m == 0 || commit_ends.contains(m);
        match recover_wal_segment_bytes(seg, &b[..*m], c.mode) {
            Err(e) => {
                o.fails.push((format!("C10.truncation-rejected.{}", r_err(&e)), format!("recovery of the {m}-byte prefix of a {}-byte segment failed: {e:?}", b.len())));
                break;
            }
            Ok(r) => {
                let got = &r.report.transactions;
                if got.len() != k {
                    o.fails.push(("C10.wrong-prefix-length".into(), format!("cut {m}: {} transactions recovered, {k} commit markers lie inside the cut", got.len())));
                    break;
                }
                for (g, w) in got.iter().zip(txs.iter()) {
                    if g.commit != w.commit || g.frames != w.frames {
                        o.fails.push(("C10.recovered-differs".into(), format!("cut {m}: recovered transaction {:?} differs from what was committed", g.commit.transaction_id)));
                        break;
                    }
                }
                let expect_tail = if at_boundary {
                    RecoveryTailPosture::Clean
                } else {
                    match (c.mode, k) {
                        (RecoveryAccessMode::Writable, 0) => RecoveryTailPosture::TruncatedAll,
                        (RecoveryAccessMode::ReadOnly, 0) => RecoveryTailPosture::WouldTruncateAll,
                        (RecoveryAccessMode::Writable, _) => RecoveryTailPosture::TruncatedAfter(txs[k - 1].commit.last_lsn),
                        (RecoveryAccessMode::ReadOnly, _) => RecoveryTailPosture::WouldTruncateAfter(txs[k - 1].commit.last_lsn),
                    }
                };
                if r.report.tail_posture != expect_tail {
                    o.fails.push(("C10.tail-posture".into(), format!("cut {m}: posture {:?}, expected {:?}", r.report.tail_posture, expect_tail)));
                    break;
                }
            }
        }
    }
    o.tags.push(format!("txs={}", txs.len().min(9)));
    o.tags.push(format!("cuts-bucket={}", cuts.len() / 500));
    o.tags.push(if c.spec.chain { "chained".into() } else { "const-prev".into() });
    o.tags.push(if c.mode == RecoveryAccessMode::Writable { "writable".into() } else { "read-only".into() });
    if tier == Tier::Thorough {
        o.tags.push("every-byte".into());
    }
    o.nontrivial = txs.len() >= 2;
    Ok(o)
}

fn gen_cut(rng: &mut Rng, tier: Tier) -> Vec<String> {
    let n = if tier == Tier::Thorough { 40 } else { 12 };
    let mut out = Vec::new();
    for i in 0..n {
        let spec = gen_spec(rng, if i % 4 == 0 { 5 } else { 3 }, if i % 3 == 0 { 40 } else { 9 });
        let stride = if tier == Tier::Thorough { 1 } else { 7 };
        out.push(format!("{} {} {}", if rng.chance(2, 3) { "w" } else { "r" }, stride, render_spec(&spec)));
    }
    out
}

// ------------------------------------------------------------------ C10.bytes (recover arbitrary bytes)

fn imp_bytes(t: &mut Toks) -> Result<String, String> {
    let mode = mode_of(t.next()?)?;
    let seg = t.num()?;
    let b = t.bytes()?;
    Ok(match recover_wal_segment_bytes(WalSegmentId::from_raw(seg), &b, mode) {
        Ok(r) => format!("ok seg={} {}", hex::encode(&r.segment_digest[..8]), long_report(&r.report)),
        Err(e) => format!("err {}", r_err(&e)),
    })
}

fn oracle_bytes(t: &mut Toks, _: Tier) -> Result<OracleOut, String> {
    // determinism + read-only/writable agreement on arbitrary bytes
    let mode = mode_of(t.next()?)?;
    let seg = WalSegmentId::from_raw(t.num()?);
    let b = t.bytes()?;
    let mut o = OracleOut::default();
    let a = recover_wal_segment_bytes(seg, &b, mode);
    let other = if mode == RecoveryAccessMode::Writable { RecoveryAccessMode::ReadOnly } else { RecoveryAccessMode::Writable };
    let c = recover_wal_segment_bytes(seg, &b, other);
    match (&a, &c) {
        (Ok(x), Ok(y)) => {
            if x.report.transactions != y.report.transactions {
                o.fails.push(("C10.mode-dependent-history".into(), "read-only and writable recovery return different transactions".into()));
            }
            o.tags.push(format!("ok-txs={}", x.report.transactions.len().min(9)));
        }
        (Err(x), Err(y)) => {
            if r_err(x) != r_err(y) {
                o.fails.push(("C10.mode-dependent-error".into(), format!("{} vs {}", r_err(x), r_err(y))));
            }
            o.tags.push(format!("err:{}", r_err(x).split('.').take(2).collect::<Vec<_>>().join(".")));
        }
        _ => o.fails.push(("C10.mode-dependent-outcome".into(), "one access mode succeeds, the other fails".into())),
    }
    o.nontrivial = b.len() > 100;
    Ok(o)
}

fn gen_bytes(rng: &mut Rng, tier: Tier) -> Vec<String> {
    // whole logs, logs with an appended uncommitted tail, two concatenated logs, junk
    let n = if tier == Tier::Thorough { 120 } else { 30 };
    let mut out = Vec::new();
    for i in 0..n {
        let spec = gen_spec(rng, 4, 12);
        let Ok((mut b, _)) = write_log(&spec) else { continue };
        match i % 5 {
            1 => {
                let mut s2 = gen_spec(rng, 2, 8);
                s2.first_lsn = spec.first_lsn + spec.txs.iter().map(|t| t.records.len() as u64).sum::<u64>();
                s2.segment = spec.segment;
                if let Ok((b2, _)) = write_log(&s2) {
                    let ends = record_ends(&b2);
                    let keep = ends.get(rng.below(ends.len() as u64) as usize).map(|(e, _)| *e).unwrap_or(0);
                    b.extend_from_slice(&b2[..keep]);
                }
            }
            2 => {
                let cut = rng.below(b.len() as u64 + 1) as usize;
                b.truncate(cut);
            }
            3 => {
                let extra = rng.below(40) as usize;
                b.extend(rng.bytes(extra));
            }
            4 => {
                // commit markers that do not tile the frame LSNs (the check of /repo 891bbae): a marker
                // record repeated at the end, or a marker record removed
                let ends = record_ends(&b);
                let markers: Vec<usize> = (0..ends.len()).filter(|i| ends[*i].1 == 2).collect();
                if !markers.is_empty() {
                    let i = markers[rng.below(markers.len() as u64) as usize];
                    let start = if i == 0 { 0 } else { ends[i - 1].0 };
                    let rec = b[start..ends[i].0].to_vec();
                    if rng.chance(1, 2) {
                        b.extend_from_slice(&rec);
                    } else {
                        b.drain(start..ends[i].0);
                    }
                }
            }
            _ => {}
        }
        let seg = if rng.chance(1, 8) { spec.segment + 1 } else { spec.segment };
        out.push(format!("{} {} {}", if rng.chance(1, 2) { "w" } else { "r" }, seg, hex(&b)));
    }
    out
}

// ------------------------------------------------------------------ C10.fs (file-level recovery, rewrite, idempotence)

fn fs_recover_twice(b: &[u8]) -> Result<String, String> {
    let dir = Scratch::new("fs");
    let segdir = dir.0.join("segments");
    std::fs::create_dir_all(&segdir).map_err(|e| e.to_string())?;
    let path = warp_core::causal_wal::canonical_segment_path(&dir.0, WalSegmentId::from_raw(1));
    std::fs::write(&path, b).map_err(|e| e.to_string())?;
    let r1 = match recover_filesystem_store(&dir.0, RecoveryAccessMode::Writable) {
        Ok(r) => r,
        Err(e) => return Ok(format!("err {}", r_err(&e))),
    };
    let b2 = std::fs::read(&path).map_err(|e| e.to_string())?;
    let second = match recover_filesystem_store(&dir.0, RecoveryAccessMode::Writable) {
        Ok(r) => long_report(&r),
        Err(e) => format!("err {}", r_err(&e)),
    };
    Ok(format!("r1: {} ; file {} {} ; r2: {}", long_report(&r1), b2.len(), hex::encode(blake3::hash(&b2).as_bytes()), second))
}

fn imp_fs(t: &mut Toks) -> Result<String, String> {
    let b = t.bytes()?;
    fs_recover_twice(&b)
}

/// Idempotence and stability of writable recovery on the file system: the second recovery returns
/// the same transactions with a Clean tail and leaves the file unchanged.
fn oracle_fs(t: &mut Toks, _: Tier) -> Result<OracleOut, String> {
    let b = t.bytes()?;
    let mut o = OracleOut::default();
    let dir = Scratch::new("fso");
    std::fs::create_dir_all(dir.0.join("segments")).map_err(|e| e.to_string())?;
    let path = warp_core::causal_wal::canonical_segment_path(&dir.0, WalSegmentId::from_raw(1));
    std::fs::write(&path, &b).map_err(|e| e.to_string())?;
    let ro = recover_filesystem_store(&dir.0, RecoveryAccessMode::ReadOnly);
    let unchanged = std::fs::read(&path).map_err(|e| e.to_string())? == b;
    if !unchanged {
        o.fails.push(("C10.read-only-recovery-wrote".into(), "read-only recovery modified the segment file".into()));
    }
    match recover_filesystem_store(&dir.0, RecoveryAccessMode::Writable) {
        Err(e) => {
            o.tags.push(format!("err:{}", r_err(&e).split('.').take(2).collect::<Vec<_>>().join(".")));
            if ro.is_ok() {
                o.fails.push(("C10.mode-dependent-outcome".into(), "read-only recovery succeeds where writable fails".into()));
            }
        }
        Ok(r1) => {
            if let Ok(ro) = &ro {
                if ro.transactions != r1.transactions {
                    o.fails.push(("C10.mode-dependent-history".into(), "read-only and writable recovery disagree".into()));
                }
            }
            let b2 = std::fs::read(&path).map_err(|e| e.to_string())?;
            match recover_filesystem_store(&dir.0, RecoveryAccessMode::Writable) {
                Err(e) => o.fails.push(("C10.recovery-not-idempotent.error".into(), format!("second recovery failed: {e:?}"))),
                Ok(r2) => {
                    if r2.transactions != r1.transactions {
                        o.fails.push(("C10.recovery-not-idempotent.history".into(), format!("first recovery returned {} transactions, second {}", r1.transactions.len(), r2.transactions.len())));
                    }
                    if r2.tail_posture != RecoveryTailPosture::Clean {
                        o.fails.push(("C10.recovery-not-idempotent.tail".into(), format!("second recovery posture {:?}", r2.tail_posture)));
                    }
                    let b3 = std::fs::read(&path).map_err(|e| e.to_string())?;
                    if b3 != b2 {
                        o.fails.push(("C10.recovery-not-idempotent.file".into(), "second recovery rewrote the file".into()));
                    }
                }
            }
            o.tags.push(format!("fs-ok-txs={}", r1.transactions.len().min(9)));
            o.tags.push(format!("fs-tail:{}", tail_tok(r1.tail_posture).chars().take(2).collect::<String>()));
            o.nontrivial = !r1.transactions.is_empty();
        }
    }
    Ok(o)
}

fn gen_fs(rng: &mut Rng, tier: Tier) -> Vec<String> {
    let n = if tier == Tier::Thorough { 40 } else { 8 };
    let per = if tier == Tier::Thorough { 30 } else { 8 };
    let mut out = Vec::new();
    for _ in 0..n {
        let mut spec = gen_spec(rng, 4, 10);
        spec.segment = 1;
        let Ok((b, _)) = write_log(&spec) else { continue };
        let ends = record_ends(&b);
        out.push(hex(&b));
        for _ in 0..per {
            let m = if rng.chance(1, 2) && !ends.is_empty() {
                let (e, _) = ends[rng.below(ends.len() as u64) as usize];
                (e + rng.below(3) as usize).saturating_sub(1).min(b.len())
            } else {
                rng.below(b.len() as u64 + 1) as usize
            };
            out.push(hex(&b[..m]));
        }
    }
    out
}

// ------------------------------------------------------------------ C10.rewrite (crash while recovery truncates)

/// Writable recovery of `b` in a scratch root; returns (first report, rewritten segment bytes).
fn rewrite_once(b: &[u8]) -> Result<Result<(RecoveryScanReport, Vec<u8>), String>, String> {
    let dir = Scratch::new("rw");
    std::fs::create_dir_all(dir.0.join("segments")).map_err(|e| e.to_string())?;
    let path = warp_core::causal_wal::canonical_segment_path(&dir.0, WalSegmentId::from_raw(1));
    std::fs::write(&path, b).map_err(|e| e.to_string())?;
    match recover_filesystem_store(&dir.0, RecoveryAccessMode::Writable) {
        Err(e) => Ok(Err(r_err(&e))),
        Ok(r) => Ok(Ok((r, std::fs::read(&path).map_err(|e| e.to_string())?))),
    }
}

fn recover_prefix_ro(b: &[u8]) -> Result<Result<RecoveryScanReport, WalRecoveryError>, String> {
    let dir = Scratch::new("rp");
    std::fs::create_dir_all(dir.0.join("segments")).map_err(|e| e.to_string())?;
    let path = warp_core::causal_wal::canonical_segment_path(&dir.0, WalSegmentId::from_raw(1));
    std::fs::write(&path, b).map_err(|e| e.to_string())?;
    Ok(recover_filesystem_store(&dir.0, RecoveryAccessMode::ReadOnly))
}

fn imp_rewrite(t: &mut Toks) -> Result<String, String> {
    let b = t.bytes()?;
    match rewrite_once(&b)? {
        Err(e) => Ok(format!("err {e}")),
        Ok((r1, b2)) => {
            let cuts = cut_set(b2.len(), 0, &record_ends(&b2));
            let mut res = Vec::new();
            for m in &cuts {
                let r = match recover_prefix_ro(&b2[..*m])? {
                    Ok(r) => short_report(&r),
                    Err(e) => format!("E{}", r_err(&e)),
                };
                res.push((*m, r));
            }
            Ok(format!("r1: {} ; file {} {} ;{}", short_report(&r1), b2.len(), hex::encode(blake3::hash(&b2).as_bytes()), rle(&res)))
        }
    }
}

#[repr(C)]
struct RLimit {
    cur: u64,
    max: u64,
}
extern "C" {
    fn setrlimit(resource: i32, rlim: *const RLimit) -> i32;
}
const RLIMIT_FSIZE: i32 = 1;

/// Child side: writable recovery of the root `dir` with the process file-size limit set to `limit`
/// bytes, so the kernel kills this process (SIGXFSZ) at the first write that would grow any file
/// beyond `limit` — a real process death in the middle of whatever the recovery is writing.
fn imp_child_recover(t: &mut Toks) -> Result<String, String> {
    let dir = t.next()?.to_string();
    let limit = t.num()?;
    let rl = RLimit { cur: limit, max: limit };
    // SAFETY: plain libc call with a valid pointer to a properly laid out struct
    let rc = unsafe { setrlimit(RLIMIT_FSIZE, &rl) };
    if rc != 0 {
        return Err("setrlimit failed".into());
    }
    Ok(match recover_filesystem_store(&dir, RecoveryAccessMode::Writable) {
        Ok(r) => format!("done ok {}", r.transactions.len()),
        Err(e) => format!("done err {}", r_err(&e)),
    })
}

/// Runs writable recovery on `b` in a child process that dies once it has written `limit` bytes to
/// a file; returns the state of the root afterwards as seen by a read-only recovery.
fn recover_killed_at(b: &[u8], limit: usize) -> Result<Result<RecoveryScanReport, WalRecoveryError>, String> {
    use std::io::Write as _;
    let dir = Scratch::new("kill");
    std::fs::create_dir_all(dir.0.join("segments")).map_err(|e| e.to_string())?;
    let path = warp_core::causal_wal::canonical_segment_path(&dir.0, WalSegmentId::from_raw(1));
    std::fs::write(&path, b).map_err(|e| e.to_string())?;
    let exe = std::env::current_exe().map_err(|e| e.to_string())?;
    let mut child = std::process::Command::new(exe)
        .arg("impl")
        .stdin(std::process::Stdio::piped())
        .stdout(std::process::Stdio::null())
        .stderr(std::process::Stdio::null())
        .spawn()
        .map_err(|e| e.to_string())?;
    {
        let mut stdin = child.stdin.take().ok_or("no stdin")?;
        writeln!(stdin, "C10.child-recover {} {}", dir.0.display(), limit).map_err(|e| e.to_string())?;
    }
    let _ = child.wait();
    Ok(recover_filesystem_store(&dir.0, RecoveryAccessMode::ReadOnly))
}

/// The transactions reported by a writable recovery are committed (and were acknowledged before the
/// first crash). If the process dies while that recovery truncates the tail (it rewrites the
/// segment), the next recovery must still return every one of them. The death is real: a child
/// process runs the real `recover_filesystem_store` and is killed by the kernel after N bytes.
fn oracle_rewrite(t: &mut Toks, tier: Tier) -> Result<OracleOut, String> {
    let b = t.bytes()?;
    let mut o = OracleOut::default();
    match rewrite_once(&b)? {
        Err(e) => o.tags.push(format!("rewrite-err:{e}")),
        Ok((r1, b2)) => {
            let rewritten = b2 != b;
            o.tags.push(if rewritten { "rewritten".into() } else { "not-rewritten".into() });
            if rewritten {
                let stride = if tier == Tier::Thorough { 16 } else { 0 };
                let cuts = cut_set(b2.len(), stride, &record_ends(&b2));
                let mut killed = 0;
                for m in &cuts {
                    if *m >= b2.len() {
                        continue;
                    }
                    killed += 1;
                    match recover_killed_at(&b, *m)? {
                        Err(e) => {
                            o.fails.push(("C10.truncation-rewrite-not-atomic.error".into(), format!("process killed after writing {m} bytes during the truncation rewrite: next recovery fails with {e:?}")));
                            break;
                        }
                        Ok(r) => {
                            if r.transactions != r1.transactions {
                                o.fails.push((
                                    "C10.truncation-rewrite-not-atomic.lost".into(),
                                    format!(
                                        "recovery found {} committed transactions and began truncating the tail; the process was killed after writing {m} of {} bytes; the next recovery finds {}",
                                        r1.transactions.len(),
                                        b2.len(),
                                        r.transactions.len()
                                    ),
                                ));
                                break;
                            }
                        }
                    }
                }
                o.tags.push(format!("kill-points={}", (killed / 10) * 10));
            }
            o.tags.push(format!("rw-txs={}", r1.transactions.len().min(9)));
            o.nontrivial = rewritten && !r1.transactions.is_empty();
        }
    }
    Ok(o)
}

fn gen_rewrite(rng: &mut Rng, tier: Tier) -> Vec<String> {
    let n = if tier == Tier::Thorough { 30 } else { 6 };
    let mut out = Vec::new();
    for _ in 0..n {
        let mut spec = gen_spec(rng, 4, 10);
        spec.segment = 1;
        if spec.txs.len() < 2 {
            continue;
        }
        let Ok((b, _)) = write_log(&spec) else { continue };
        let ends = record_ends(&b);
        let commit_ends: Vec<usize> = ends.iter().filter(|(_, k)| *k == 2).map(|(e, _)| *e).collect();
        // a cut strictly after the first commit marker and not at a transaction boundary
        for _ in 0..3 {
            let lo = commit_ends[0] + 1;
            let m = lo + rng.below((b.len() - lo) as u64) as usize;
            if commit_ends.contains(&m) {
                continue;
            }
            out.push(hex(&b[..m]));
        }
    }
    out
}
