//! C16 — observation is read-only and bound to its coordinate.
//! Real code: `ObservationService::{observe, observe_optic}` over a `WorldlineRuntime` /
//! `ProvenanceService` / `Engine` driven through `SchedulerCoordinator::super_tick`,
//! `WorldlineRuntime::fork_strand`, `ProvenanceService::{append_local_commit, replay_worldline_state_at,
//! checkpoint}`; hook `echo_verif::c09::{fingerprint, set_frontier_tick}`.
//!
//! Case line (after the stream token): `W n {wl nheads}` then items
//!   ing wl hid bytes | tick | fork src tick child sid | syn <C07 history tokens> | reg wl | sft wl tick
//!   | cp wl | world <dump> | obs <request> | opt <optic request>
//! `world` carries the dump of what observation may read (the model's input); it is produced by `gen`
//! running the real code and re-checked by `imp` (`world ok` / `world MISMATCH`).
//! request := wl at frame proj plan inst budget rights
//!   at := f | t n ; frame := cb|rt|qv ; proj := head | snap | truth - | truth n chan… | query id vars
//!   plan := bh|bs|bt|bq | a n ; inst := - | i n ; budget := u | b maxPayload maxWitness ; rights := k | c n
use crate::c07;
use crate::prng::Rng;
use crate::util::{hex, small_id, Toks};
use crate::{OracleOut, Stream, Tier};
use std::collections::BTreeMap;
use warp_core::echo_verif::c09 as hook;
use warp_core::{
    make_intent_kind, make_node_id, make_type_id, ActorId, AttachmentDescentPolicy, AttachmentValue,
    AuthoredObserverPlan, AuthorityBinding, AuthorityDomainId, AuthorityDomainRef, BuiltinObserverPlan,
    CausalAuthority, CausalPosture, ConflictPolicy, CoordinateAt, EchoCoordinate, Engine, EngineBuilder,
    Footprint, ForkStrandRequest, GraphStore, GraphView, HeadId, InboxPolicy, IngressEnvelope, IngressTarget,
    NodeId, NodeKey, NodeRecord, ObservationArtifact, ObservationAt, ObservationBasisPosture,
    ObservationCoordinate, ObservationError, ObservationFrame, ObservationPayload, ObservationProjection,
    ObservationProjectionKind, ObservationReadBudget, ObservationRequest, ObservationRights,
    ObservationService, ObserveOpticRequest, ObserveOpticResult, ObserverInstanceId, ObserverInstanceRef,
    ObserverPlanId, OpticAperture, OpticApertureShape, OpticCapabilityId, OpticFocus, OpticId,
    OpticReadBudget, OriginId, PatternGraph, PlaybackMode, PostureDerivation, ProjectionVersion,
    ProvenanceRef, ProvenanceService, ProvenanceStore, ReadingBudgetPosture, ReadingObserverPlan,
    ReadingResidualPosture, ReadingWitnessRef, RetentionContractId, RetentionPosture, RewriteRule,
    SchedulerCoordinator, SealStrength, SlotId, StrandRevalidationState, TickDelta, TypeId, WarpOp,
    WorldlineId, WorldlineRuntime, WorldlineState, WorldlineTick, WriterHead, WriterHeadKey,
};

pub fn streams() -> Vec<Stream> {
    vec![Stream { name: "C16.observe", gen: gen_observe, imp: imp_observe, oracle: oracle_observe }]
}

type Id = [u8; 32];

// ---------------------------------------------------------------------------------------------
// case
// ---------------------------------------------------------------------------------------------

#[derive(Clone, Debug, PartialEq)]
enum At {
    Frontier,
    Tick(u64),
}

#[derive(Clone, Debug, PartialEq)]
enum Proj {
    Head,
    Snap,
    Truth(Option<Vec<Id>>),
    Query(u32, Vec<u8>),
}

#[derive(Clone, Debug, PartialEq)]
enum Plan {
    B(BuiltinObserverPlan),
    A(u64),
}

#[derive(Clone, Debug, PartialEq)]
struct Req {
    wl: u64,
    at: At,
    frame: ObservationFrame,
    proj: Proj,
    plan: Plan,
    inst: Option<u64>,
    budget: Option<(u64, u64)>,
    rights: Option<u64>,
}

#[derive(Clone, Debug)]
struct OptReq {
    focus_wl: u64,
    coord_wl: u64,
    /// f | t n | p wl n (provenance ref on `wl` at tick n, commit hash looked up; garbage when absent)
    at: OptAt,
    /// h | s | t | q | b | a
    shape: String,
    max_bytes: Option<u64>,
    max_ticks: Option<u64>,
}

#[derive(Clone, Debug)]
enum OptAt {
    Frontier,
    Tick(u64),
    Prov(u64, u64),
}

#[derive(Clone, Debug)]
enum Item {
    Ing { wl: u64, hid: u64, bytes: Vec<u8> },
    Tick,
    Fork { src: u64, tick: u64, child: u64, sid: u64 },
    Syn(c07::HistS),
    Reg(u64),
    Sft(u64, u64),
    Cp(u64),
    World(String),
    Obs(Req),
    Opt(OptReq),
}

struct Case {
    wls: Vec<(u64, u64)>,
    items: Vec<Item>,
}

fn opt_num(t: &mut Toks) -> Result<Option<u64>, String> {
    let s = t.next()?;
    if s == "-" {
        Ok(None)
    } else {
        s.parse::<u64>().map(Some).map_err(|e| format!("bad num {s}: {e}"))
    }
}

fn parse_req(t: &mut Toks) -> Result<Req, String> {
    let wl = t.num()?;
    let at = match t.next()? {
        "f" => At::Frontier,
        "t" => At::Tick(t.num()?),
        x => return Err(format!("bad at {x}")),
    };
    let frame = match t.next()? {
        "cb" => ObservationFrame::CommitBoundary,
        "rt" => ObservationFrame::RecordedTruth,
        "qv" => ObservationFrame::QueryView,
        x => return Err(format!("bad frame {x}")),
    };
    let proj = match t.next()? {
        "head" => Proj::Head,
        "snap" => Proj::Snap,
        "truth" => match opt_num(t)? {
            None => Proj::Truth(None),
            Some(n) => {
                let mut v = Vec::new();
                for _ in 0..n {
                    v.push(t.id()?);
                }
                Proj::Truth(Some(v))
            }
        },
        "query" => {
            let id = t.num()? as u32;
            Proj::Query(id, t.bytes()?)
        }
        x => return Err(format!("bad proj {x}")),
    };
    let plan = match t.next()? {
        "bh" => Plan::B(BuiltinObserverPlan::CommitBoundaryHead),
        "bs" => Plan::B(BuiltinObserverPlan::CommitBoundarySnapshot),
        "bt" => Plan::B(BuiltinObserverPlan::RecordedTruthChannels),
        "bq" => Plan::B(BuiltinObserverPlan::QueryBytes),
        "a" => Plan::A(t.num()?),
        x => return Err(format!("bad plan {x}")),
    };
    let inst = match t.next()? {
        "-" => None,
        "i" => Some(t.num()?),
        x => return Err(format!("bad inst {x}")),
    };
    let budget = match t.next()? {
        "u" => None,
        "b" => Some((t.num()?, t.num()?)),
        x => return Err(format!("bad budget {x}")),
    };
    let rights = match t.next()? {
        "k" => None,
        "c" => Some(t.num()?),
        x => return Err(format!("bad rights {x}")),
    };
    Ok(Req { wl, at, frame, proj, plan, inst, budget, rights })
}

fn req_tok(r: &Req) -> String {
    let at = match r.at {
        At::Frontier => "f".to_string(),
        At::Tick(n) => format!("t {n}"),
    };
    let frame = match r.frame {
        ObservationFrame::CommitBoundary => "cb",
        ObservationFrame::RecordedTruth => "rt",
        ObservationFrame::QueryView => "qv",
    };
    let proj = match &r.proj {
        Proj::Head => "head".to_string(),
        Proj::Snap => "snap".to_string(),
        Proj::Truth(None) => "truth -".to_string(),
        Proj::Truth(Some(v)) => {
            let mut s = format!("truth {}", v.len());
            for c in v {
                s.push(' ');
                s.push_str(&hex(c));
            }
            s
        }
        Proj::Query(id, vars) => format!("query {id} {}", hex(vars)),
    };
    let plan = match &r.plan {
        Plan::B(BuiltinObserverPlan::CommitBoundaryHead) => "bh".to_string(),
        Plan::B(BuiltinObserverPlan::CommitBoundarySnapshot) => "bs".to_string(),
        Plan::B(BuiltinObserverPlan::RecordedTruthChannels) => "bt".to_string(),
        Plan::B(BuiltinObserverPlan::QueryBytes) => "bq".to_string(),
        Plan::A(n) => format!("a {n}"),
    };
    let inst = match r.inst {
        None => "-".to_string(),
        Some(n) => format!("i {n}"),
    };
    let budget = match r.budget {
        None => "u".to_string(),
        Some((p, w)) => format!("b {p} {w}"),
    };
    let rights = match r.rights {
        None => "k".to_string(),
        Some(n) => format!("c {n}"),
    };
    format!("{} {at} {frame} {proj} {plan} {inst} {budget} {rights}", r.wl)
}

fn parse_opt(t: &mut Toks) -> Result<OptReq, String> {
    let focus_wl = t.num()?;
    let coord_wl = t.num()?;
    let at = match t.next()? {
        "f" => OptAt::Frontier,
        "t" => OptAt::Tick(t.num()?),
        "p" => OptAt::Prov(t.num()?, t.num()?),
        x => return Err(format!("bad opt at {x}")),
    };
    let shape = t.next()?.to_string();
    if !["h", "s", "t", "q", "b", "a"].contains(&shape.as_str()) {
        return Err(format!("bad shape {shape}"));
    }
    let max_bytes = opt_num(t)?;
    let max_ticks = opt_num(t)?;
    Ok(OptReq { focus_wl, coord_wl, at, shape, max_bytes, max_ticks })
}

fn optnum_tok(n: Option<u64>) -> String {
    n.map_or("-".to_string(), |v| v.to_string())
}

fn opt_tok(o: &OptReq) -> String {
    let at = match o.at {
        OptAt::Frontier => "f".to_string(),
        OptAt::Tick(n) => format!("t {n}"),
        OptAt::Prov(w, n) => format!("p {w} {n}"),
    };
    format!("{} {} {at} {} {} {}", o.focus_wl, o.coord_wl, o.shape, optnum_tok(o.max_bytes), optnum_tok(o.max_ticks))
}

fn parse_case(t: &mut Toks) -> Result<Case, String> {
    if t.next()? != "W" {
        return Err("expected W".into());
    }
    let n = t.num()?;
    let mut wls = Vec::new();
    for _ in 0..n {
        wls.push((t.num()?, t.num()?));
    }
    let mut items = Vec::new();
    while !t.done() {
        match t.next()? {
            "ing" => items.push(Item::Ing { wl: t.num()?, hid: t.num()?, bytes: t.bytes()? }),
            "tick" => items.push(Item::Tick),
            "fork" => items.push(Item::Fork { src: t.num()?, tick: t.num()?, child: t.num()?, sid: t.num()? }),
            "syn" => {
                let _ntoks = t.num()?;
                items.push(Item::Syn(c07::parse_hist(t)?));
            }
            "reg" => items.push(Item::Reg(t.num()?)),
            "sft" => items.push(Item::Sft(t.num()?, t.num()?)),
            "cp" => items.push(Item::Cp(t.num()?)),
            "world" => {
                let n = t.num()? as usize;
                let mut v = Vec::with_capacity(n);
                for _ in 0..n {
                    v.push(t.next()?.to_string());
                }
                items.push(Item::World(v.join(" ")));
            }
            "obs" => items.push(Item::Obs(parse_req(t)?)),
            "opt" => items.push(Item::Opt(parse_opt(t)?)),
            x => return Err(format!("bad item {x}")),
        }
    }
    Ok(Case { wls, items })
}

// ---------------------------------------------------------------------------------------------
// real-code world
// ---------------------------------------------------------------------------------------------

fn wlid(n: u64) -> WorldlineId {
    WorldlineId::from_bytes(small_id(n))
}
fn hkey(wl: u64, hid: u64) -> WriterHeadKey {
    WriterHeadKey { worldline_id: wlid(wl), head_id: HeadId::from_bytes(small_id(hid)) }
}
fn wt(n: u64) -> WorldlineTick {
    WorldlineTick::from_raw(n)
}

fn payload_of(view: &GraphView<'_>, scope: &NodeId) -> Option<Vec<u8>> {
    match view.node_attachment(scope) {
        Some(AttachmentValue::Atom(payload)) => Some(payload.bytes.as_ref().to_vec()),
        _ => None,
    }
}
fn m_put(view: GraphView<'_>, scope: &NodeId) -> bool {
    payload_of(&view, scope).map_or(false, |b| b.first() == Some(&b'S') && b.len() >= 2)
}
fn x_put(view: GraphView<'_>, scope: &NodeId, delta: &mut TickDelta) {
    // writes the (reachable) root node's alpha attachment, so the state root moves with every commit
    let b = payload_of(&view, scope).unwrap_or_default();
    let root = NodeKey { warp_id: view.warp_id(), local_id: make_node_id("root") };
    let ty = make_type_id(&format!("c16-ty-{}", b.get(2).copied().unwrap_or(0)));
    delta.emit(WarpOp::SetAttachment {
        key: warp_core::AttachmentKey::node_alpha(root),
        value: Some(AttachmentValue::Atom(warp_core::AtomPayload::new(ty, bytes::Bytes::from(b)))),
    });
}
fn f_put(view: GraphView<'_>, scope: &NodeId) -> Footprint {
    let mut fp = Footprint::default();
    let w = view.warp_id();
    fp.a_read.insert(warp_core::AttachmentKey::node_alpha(NodeKey { warp_id: w, local_id: *scope }));
    fp.a_write.insert(warp_core::AttachmentKey::node_alpha(NodeKey { warp_id: w, local_id: make_node_id("root") }));
    fp.factor_mask = u64::MAX;
    fp
}

fn rules() -> Vec<RewriteRule> {
    vec![RewriteRule {
        id: [0x16; 32],
        name: "cmd/c16-put",
        left: PatternGraph { nodes: vec![] },
        matcher: m_put,
        executor: x_put,
        compute_footprint: f_put,
        factor_mask: 0,
        conflict_policy: ConflictPolicy::Abort,
        join_fn: None,
    }]
}

struct World {
    rt: WorldlineRuntime,
    prov: ProvenanceService,
    eng: Engine,
    /// initial state each provenance worldline was registered with (replay base)
    bases: BTreeMap<u64, WorldlineState>,
}

fn retention() -> Result<RetentionPosture, String> {
    let origin_id = OriginId::from_bytes([0x41; 32]);
    let authority = AuthorityDomainRef::new(origin_id, AuthorityDomainId::from_bytes([0x42; 32]));
    RetentionPosture::new(
        CausalPosture::AuthorOnly,
        PostureDerivation::ExplicitIntent,
        CausalAuthority::new(
            origin_id,
            ActorId::from_bytes([0x43; 32]),
            authority,
            AuthorityBinding::LocalUnbound { origin: origin_id },
            SealStrength::Advisory,
        )
        .map_err(|e| format!("authority: {e:?}"))?,
        RetentionContractId::from_bytes([0x44; 32]),
        None,
    )
    .map_err(|e| format!("retention: {e:?}"))
}

fn head(wl: u64, hid: u64) -> WriterHead {
    WriterHead::with_routing(hkey(wl, hid), PlaybackMode::Play, InboxPolicy::AcceptAll, None, hid == 1)
}

fn build(c: &Case) -> Result<World, String> {
    let mut store = GraphStore::default();
    let root = make_node_id("root");
    store.insert_node(root, NodeRecord { ty: make_type_id("world") });
    let mut eng = EngineBuilder::new(store, root).build();
    for r in rules() {
        eng.register_rule(r).map_err(|e| format!("rule: {e:?}"))?;
    }
    let mut rt = WorldlineRuntime::new();
    let mut prov = ProvenanceService::new();
    let mut bases = BTreeMap::new();
    for (wl, nheads) in &c.wls {
        let st = WorldlineState::empty();
        rt.register_worldline(wlid(*wl), st.clone()).map_err(|e| format!("wl: {e:?}"))?;
        prov.register_worldline(wlid(*wl), &st).map_err(|e| format!("prov: {e:?}"))?;
        bases.insert(*wl, st);
        for h in 1..=*nheads {
            rt.register_writer_head(head(*wl, h)).map_err(|e| format!("head: {e:?}"))?;
        }
    }
    Ok(World { rt, prov, eng, bases })
}

/// Executes one mutating item on the real code; returns a short status (not compared with the model).
fn exec(w: &mut World, it: &Item) -> Result<String, String> {
    match it {
        Item::Ing { wl, hid, bytes } => {
            let env = IngressEnvelope::local_intent(
                IngressTarget::ExactHead { key: hkey(*wl, *hid) },
                make_intent_kind("c16"),
                bytes.clone(),
            );
            Ok(match w.rt.ingest(env) {
                Ok(_) => "ing".into(),
                Err(_) => "ing".into(),
            })
        }
        Item::Tick => {
            let _ = std::panic::catch_unwind(std::panic::AssertUnwindSafe(|| {
                let _ = SchedulerCoordinator::super_tick(&mut w.rt, &mut w.prov, &mut w.eng);
            }));
            Ok("tick".into())
        }
        Item::Fork { src, tick, child, sid } => {
            let req = ForkStrandRequest {
                strand_id: warp_core::StrandId::from_bytes(small_id(*sid)),
                source_lane_id: wlid(*src),
                fork_tick: wt(*tick),
                child_worldline_id: wlid(*child),
                writer_heads: vec![head(*child, 1)],
                retention_posture: retention()?,
            };
            let base = w.bases.get(src).cloned();
            if w.rt.fork_strand(&mut w.prov, req).is_ok() {
                if let Some(b) = base {
                    w.bases.insert(*child, b);
                }
            }
            Ok("fork".into())
        }
        Item::Syn(h) => {
            let honest = c07::honest_history(h)?;
            let wl = WorldlineId::from_bytes(h.wl);
            if w.prov.register_worldline(wl, &honest.base).is_err() {
                return Ok("syn".into());
            }
            for e in &honest.entries {
                let _ = w.prov.append_local_commit(e.clone());
            }
            let n = w.prov.len(wl).unwrap_or(0);
            let live = w
                .prov
                .replay_worldline_state_at(wl, &honest.base, wt(n))
                .map_err(|e| format!("syn replay: {e:?}"))?;
            let _ = w.rt.register_worldline(wl, live);
            let small = u64::from_be_bytes(h.wl[24..32].try_into().unwrap());
            w.bases.insert(small, honest.base.clone());
            Ok("syn".into())
        }
        Item::Reg(wl) => {
            // runtime-only worldline: provenance never hears of it
            let _ = w.rt.register_worldline(wlid(*wl), WorldlineState::empty());
            Ok("reg".into())
        }
        Item::Sft(wl, tick) => {
            hook::set_frontier_tick(&mut w.rt, wlid(*wl), *tick);
            Ok("sft".into())
        }
        Item::Cp(wl) => {
            if let Some(fr) = w.rt.worldlines().get(&wlid(*wl)) {
                let st = fr.state().clone();
                let _ = w.prov.checkpoint(wlid(*wl), &st);
            }
            Ok("cp".into())
        }
        Item::World(_) | Item::Obs(_) | Item::Opt(_) => Err("not a mutating item".into()),
    }
}

// ---------------------------------------------------------------------------------------------
// world dump (what observation may read)
// ---------------------------------------------------------------------------------------------

fn small_of(b: &[u8; 32]) -> u64 {
    u64::from_be_bytes(b[24..32].try_into().unwrap())
}

fn pref_tok(r: &ProvenanceRef) -> String {
    format!("{} {} {}", hex(r.worldline_id.as_bytes()), r.worldline_tick.as_u64(), hex(&r.commit_hash))
}

/// `overlap_slots_digest` of observation.rs (private there): domain ‖ count ‖ tagged slots.
fn overlap_digest(slots: &[SlotId]) -> Id {
    use warp_core::{AttachmentOwner, AttachmentPlane};
    let mut h = blake3::Hasher::new();
    h.update(b"echo:observation-overlap-slots:v1\0");
    h.update(&(slots.len() as u64).to_le_bytes());
    for s in slots {
        match s {
            SlotId::Node(n) => {
                h.update(&[1]);
                h.update(n.warp_id.as_bytes());
                h.update(n.local_id.as_bytes());
            }
            SlotId::Edge(e) => {
                h.update(&[2]);
                h.update(e.warp_id.as_bytes());
                h.update(e.local_id.as_bytes());
            }
            SlotId::Attachment(a) => {
                h.update(&[3]);
                match a.owner {
                    AttachmentOwner::Node(n) => {
                        h.update(&[1]);
                        h.update(n.warp_id.as_bytes());
                        h.update(n.local_id.as_bytes());
                    }
                    AttachmentOwner::Edge(e) => {
                        h.update(&[2]);
                        h.update(e.warp_id.as_bytes());
                        h.update(e.local_id.as_bytes());
                    }
                }
                match a.plane {
                    AttachmentPlane::Alpha => h.update(&[1]),
                    AttachmentPlane::Beta => h.update(&[2]),
                };
            }
            SlotId::Port((warp, key)) => {
                h.update(&[4]);
                h.update(warp.as_bytes());
                h.update(&key.to_le_bytes());
            }
        }
    }
    *h.finalize().as_bytes()
}

fn dump_world(w: &World) -> String {
    let mut out: Vec<String> = Vec::new();
    out.push(format!("G {}", w.rt.global_tick().as_u64()));
    let fronts: Vec<_> = w.rt.worldlines().iter().collect();
    out.push(format!("R {}", fronts.len()));
    for (id, fr) in fronts {
        let st = fr.state();
        let ls = match st.last_snapshot() {
            Some(s) => format!("ls {} {}", hex(&s.state_root), hex(&s.hash)),
            None => "nols".to_string(),
        };
        let u0 = w.eng.snapshot_for_state(st);
        let strand = match w.rt.strands().find_by_child_worldline(id) {
            None => "n".to_string(),
            Some(s) => {
                let live = match s.live_basis_report(&w.prov) {
                    Err(_) => "err".to_string(),
                    Ok(rep) => match rep.parent_revalidation {
                        StrandRevalidationState::AtAnchor => "anchor".to_string(),
                        StrandRevalidationState::ParentAdvancedDisjoint { parent_from, parent_to } => {
                            format!("adv {} {}", pref_tok(&parent_from), pref_tok(&parent_to))
                        }
                        StrandRevalidationState::RevalidationRequired { parent_from, parent_to, overlapping_slots } => {
                            format!(
                                "reval {} {} {} {}",
                                pref_tok(&parent_from),
                                pref_tok(&parent_to),
                                overlapping_slots.len(),
                                hex(&overlap_digest(&overlapping_slots))
                            )
                        }
                    },
                };
                format!("s {} {live}", hex(s.strand_id().as_bytes()))
            }
        };
        out.push(format!(
            "{} {} {ls} {} {} {strand}",
            hex(id.as_bytes()),
            fr.frontier_tick().as_u64(),
            hex(&u0.state_root),
            hex(&u0.hash)
        ));
    }
    // provenance: every worldline id the harness ever used (registered or not)
    let mut ids: Vec<u64> = w.bases.keys().copied().collect();
    ids.sort_unstable();
    let known: Vec<u64> = ids.into_iter().filter(|n| w.prov.len(wlid(*n)).is_ok()).collect();
    out.push(format!("P {}", known.len()));
    for n in known {
        let id = wlid(n);
        let len = w.prov.len(id).unwrap_or(0);
        out.push(format!("{} {len}", hex(id.as_bytes())));
        for t in 0..len {
            match w.prov.entry(id, wt(t)) {
                Ok(e) => {
                    let mut s = format!(
                        "{} {} {} {}",
                        e.commit_global_tick.as_u64(),
                        hex(&e.expected.state_root),
                        hex(&e.expected.commit_hash),
                        e.outputs.len()
                    );
                    for (c, d) in &e.outputs {
                        s.push_str(&format!(" {} {}", hex(&c.0), hex(d)));
                    }
                    out.push(s);
                }
                Err(_) => out.push("0 - - 0".to_string()),
            }
        }
    }
    out.join(" ")
}

fn world_item(w: &World) -> String {
    let d = dump_world(w);
    let n = d.split_ascii_whitespace().count();
    format!("world {n} {d}")
}

// ---------------------------------------------------------------------------------------------
// requests on the real code
// ---------------------------------------------------------------------------------------------

fn authored(n: u64) -> AuthoredObserverPlan {
    let b = n as u8;
    AuthoredObserverPlan {
        plan_id: ObserverPlanId::from_bytes(small_id(n)),
        artifact_hash: [b; 32],
        schema_hash: [b.wrapping_add(1); 32],
        state_schema_hash: [b.wrapping_add(2); 32],
        update_law_hash: [b.wrapping_add(3); 32],
        emission_law_hash: [b.wrapping_add(4); 32],
    }
}

fn real_req(r: &Req) -> ObservationRequest {
    ObservationRequest {
        coordinate: ObservationCoordinate {
            worldline_id: wlid(r.wl),
            at: match r.at {
                At::Frontier => ObservationAt::Frontier,
                At::Tick(n) => ObservationAt::Tick(wt(n)),
            },
        },
        frame: r.frame,
        projection: match &r.proj {
            Proj::Head => ObservationProjection::Head,
            Proj::Snap => ObservationProjection::Snapshot,
            Proj::Truth(f) => ObservationProjection::TruthChannels {
                channels: f.as_ref().map(|v| v.iter().map(|c| TypeId(*c)).collect()),
            },
            Proj::Query(id, vars) => ObservationProjection::Query { query_id: *id, vars_bytes: vars.clone() },
        },
        observer_plan: match &r.plan {
            Plan::B(p) => ReadingObserverPlan::Builtin { plan: *p },
            Plan::A(n) => ReadingObserverPlan::Authored { plan: Box::new(authored(*n)) },
        },
        observer_instance: r.inst.map(|n| ObserverInstanceRef {
            instance_id: ObserverInstanceId::from_bytes(small_id(n)),
            plan_id: ObserverPlanId::from_bytes(small_id(n)),
            state_hash: [n as u8; 32],
        }),
        budget: match r.budget {
            None => ObservationReadBudget::UnboundedOneShot,
            Some((p, w)) => ObservationReadBudget::Bounded { max_payload_bytes: p, max_witness_refs: w },
        },
        rights: match r.rights {
            None => ObservationRights::KernelPublic,
            Some(n) => ObservationRights::CapabilityScoped { capability: OpticCapabilityId::from_bytes(small_id(n)) },
        },
    }
}

fn frame_name(f: ObservationFrame) -> &'static str {
    match f {
        ObservationFrame::CommitBoundary => "cb",
        ObservationFrame::RecordedTruth => "rt",
        ObservationFrame::QueryView => "qv",
    }
}

fn at_name(a: ObservationAt) -> String {
    match a {
        ObservationAt::Frontier => "f".into(),
        ObservationAt::Tick(t) => format!("t{}", t.as_u64()),
    }
}

fn err_tok(e: &ObservationError) -> String {
    match e {
        ObservationError::InvalidWorldline(w) => format!("err invalid-worldline {}", hex(w.as_bytes())),
        ObservationError::InvalidTick { worldline_id, tick } => {
            format!("err invalid-tick {} {}", hex(worldline_id.as_bytes()), tick.as_u64())
        }
        ObservationError::UnsupportedFrameProjection { frame, projection } => format!(
            "err unsupported-frame-projection {} {}",
            frame_name(*frame),
            match projection {
                ObservationProjectionKind::Head => "head",
                ObservationProjectionKind::Snapshot => "snap",
                ObservationProjectionKind::TruthChannels => "truth",
                ObservationProjectionKind::Query => "query",
            }
        ),
        ObservationError::UnsupportedQuery { query_id } => format!("err unsupported-query {query_id}"),
        ObservationError::ContractQueryObserverFailed { query_id, source } => format!(
            "err query-failed {query_id} {}",
            match source {
                warp_core::ContractQueryObserverError::InvalidVars { .. } => "invalid-vars",
                warp_core::ContractQueryObserverError::Failed { .. } => "failed",
            }
        ),
        ObservationError::UnsupportedObserverPlan(_) => "err unsupported-plan".into(),
        ObservationError::UnsupportedObserverInstance(_) => "err unsupported-instance".into(),
        ObservationError::UnsupportedRights(_) => "err unsupported-rights".into(),
        ObservationError::BudgetExceeded { max_payload_bytes, payload_bytes, max_witness_refs, witness_refs } => {
            format!("err budget-exceeded {max_payload_bytes} {payload_bytes} {max_witness_refs} {witness_refs}")
        }
        ObservationError::ObservationUnavailable { worldline_id, at } => {
            format!("err unavailable {} {}", hex(worldline_id.as_bytes()), at_name(*at))
        }
        ObservationError::CodecFailure(_) => "err codec".into(),
    }
}

fn optg(g: Option<warp_core::GlobalTick>) -> String {
    g.map_or("-".to_string(), |v| v.as_u64().to_string())
}

fn posture_tok(p: &ObservationBasisPosture) -> String {
    match p {
        ObservationBasisPosture::Worldline => "worldline".into(),
        ObservationBasisPosture::StrandHistorical { strand_id } => format!("historical:{}", hex(strand_id.as_bytes())),
        ObservationBasisPosture::StrandAtAnchor { strand_id } => format!("anchor:{}", hex(strand_id.as_bytes())),
        ObservationBasisPosture::StrandParentAdvancedDisjoint { strand_id, parent_from, parent_to } => format!(
            "adv:{}:{}:{}",
            hex(strand_id.as_bytes()),
            pref_tok(parent_from).replace(' ', ":"),
            pref_tok(parent_to).replace(' ', ":")
        ),
        ObservationBasisPosture::StrandRevalidationRequired { strand_id, parent_from, parent_to, overlapping_slots } => {
            format!(
                "reval:{}:{}:{}:{}:{}",
                hex(strand_id.as_bytes()),
                pref_tok(parent_from).replace(' ', ":"),
                pref_tok(parent_to).replace(' ', ":"),
                overlapping_slots.len(),
                hex(&overlap_digest(overlapping_slots))
            )
        }
    }
}

fn payload_tok(p: &ObservationPayload) -> String {
    match p {
        ObservationPayload::Head(h) => format!(
            "head:{}:{}:{}:{}",
            h.worldline_tick.as_u64(),
            optg(h.commit_global_tick),
            hex(&h.state_root),
            hex(&h.commit_hash)
        ),
        ObservationPayload::Snapshot(h) => format!(
            "snap:{}:{}:{}:{}",
            h.worldline_tick.as_u64(),
            optg(h.commit_global_tick),
            hex(&h.state_root),
            hex(&h.commit_hash)
        ),
        ObservationPayload::TruthChannels(chs) => {
            let mut s = format!("truth:{}", chs.len());
            for (c, d) in chs {
                s.push_str(&format!(":{}={}", hex(&c.0), hex(d)));
            }
            s
        }
        ObservationPayload::QueryBytes(d) => format!("query:{}", hex(d)),
    }
}

fn artifact_tok(a: &ObservationArtifact) -> String {
    let r = &a.resolved;
    let wit: Vec<String> = a
        .reading
        .witness_refs
        .iter()
        .map(|w| match w {
            ReadingWitnessRef::ResolvedCommit { reference } => format!("rc:{}", pref_tok(reference).replace(' ', ":")),
            ReadingWitnessRef::EmptyFrontier { worldline_id, state_root, commit_hash } => {
                format!("ef:{}:{}:{}", hex(worldline_id.as_bytes()), hex(state_root), hex(commit_hash))
            }
        })
        .collect();
    let budget = match a.reading.budget_posture {
        ReadingBudgetPosture::UnboundedOneShot => "u".to_string(),
        ReadingBudgetPosture::Bounded { max_payload_bytes, payload_bytes, max_witness_refs, witness_refs } => {
            format!("b:{max_payload_bytes}:{payload_bytes}:{max_witness_refs}:{witness_refs}")
        }
    };
    let plan = match &a.reading.observer_plan {
        ReadingObserverPlan::Builtin { plan } => match plan {
            BuiltinObserverPlan::CommitBoundaryHead => "bh".to_string(),
            BuiltinObserverPlan::CommitBoundarySnapshot => "bs".to_string(),
            BuiltinObserverPlan::RecordedTruthChannels => "bt".to_string(),
            BuiltinObserverPlan::QueryBytes => "bq".to_string(),
        },
        ReadingObserverPlan::Authored { plan } => format!("a:{}", small_of(plan.plan_id.as_bytes())),
    };
    let residual = match a.reading.residual_posture {
        ReadingResidualPosture::Complete => "complete",
        ReadingResidualPosture::Residual => "residual",
        ReadingResidualPosture::PluralityPreserved => "plurality",
        ReadingResidualPosture::Obstructed => "obstructed",
    };
    format!(
        "ok v={} wl={} at={} tick={} cg={} oa={} root={} commit={} wit={} posture={} budget={budget} plan={plan} residual={residual} payload={} hash {}",
        r.observation_version,
        hex(r.worldline_id.as_bytes()),
        at_name(r.requested_at),
        r.resolved_worldline_tick.as_u64(),
        optg(r.commit_global_tick),
        optg(r.observed_after_global_tick),
        hex(&r.state_root),
        hex(&r.commit_hash),
        wit.join(","),
        posture_tok(&a.reading.parent_basis_posture),
        payload_tok(&a.payload),
        hex(&a.artifact_hash)
    )
}

fn observe(w: &World, r: &Req) -> Result<ObservationArtifact, ObservationError> {
    ObservationService::observe(&w.rt, &w.prov, &w.eng, real_req(r))
}

fn obs_tok(w: &World, r: &Req) -> String {
    match observe(w, r) {
        Ok(a) => artifact_tok(&a),
        Err(e) => err_tok(&e),
    }
}

fn real_opt(w: &World, o: &OptReq) -> ObserveOpticRequest {
    let at = match o.at {
        OptAt::Frontier => CoordinateAt::Frontier,
        OptAt::Tick(n) => CoordinateAt::Tick(wt(n)),
        OptAt::Prov(wl, n) => CoordinateAt::Provenance(ProvenanceRef {
            worldline_id: wlid(wl),
            worldline_tick: wt(n),
            commit_hash: w.prov.entry(wlid(wl), wt(n)).map(|e| e.expected.commit_hash).unwrap_or([0xEE; 32]),
        }),
    };
    let shape = match o.shape.as_str() {
        "h" => OpticApertureShape::Head,
        "s" => OpticApertureShape::SnapshotMetadata,
        "t" => OpticApertureShape::TruthChannels { channels: None },
        "q" => OpticApertureShape::QueryBytes { query_id: 7, vars_digest: [7; 32] },
        "b" => OpticApertureShape::ByteRange { start: 0, len: 64 },
        _ => OpticApertureShape::AttachmentBoundary,
    };
    ObserveOpticRequest {
        optic_id: OpticId::from_bytes([70; 32]),
        focus: OpticFocus::Worldline { worldline_id: wlid(o.focus_wl) },
        coordinate: EchoCoordinate::Worldline { worldline_id: wlid(o.coord_wl), at },
        aperture: OpticAperture {
            shape,
            budget: OpticReadBudget { max_bytes: o.max_bytes, max_nodes: None, max_ticks: o.max_ticks, max_attachments: None },
            attachment_descent: AttachmentDescentPolicy::BoundaryOnly,
        },
        projection_version: ProjectionVersion::from_raw(1),
        reducer_version: None,
        capability: OpticCapabilityId::from_bytes([71; 32]),
    }
}

fn optic_bytes(res: &ObserveOpticResult) -> Vec<u8> {
    echo_wasm_abi::encode_cbor(&res.to_abi()).unwrap_or_else(|e| format!("encode-error {e}").into_bytes())
}

// ---------------------------------------------------------------------------------------------
// imp
// ---------------------------------------------------------------------------------------------

fn imp_observe(t: &mut Toks) -> Result<String, String> {
    let c = parse_case(t)?;
    let mut w = build(&c)?;
    let mut out: Vec<String> = Vec::new();
    for it in &c.items {
        match it {
            Item::World(d) => {
                let real = dump_world(&w);
                out.push(if &real == d { "world ok".into() } else { "world MISMATCH".into() });
            }
            Item::Obs(r) => out.push(obs_tok(&w, r)),
            Item::Opt(o) => {
                // optic reads are not modelled yet: the model prints `opt`; the oracle checks them
                let _ = ObservationService::observe_optic(&w.rt, &w.prov, &w.eng, real_opt(&w, o));
                out.push("opt".into());
            }
            other => out.push(exec(&mut w, other)?),
        }
    }
    Ok(out.join(" ; "))
}

// ---------------------------------------------------------------------------------------------
// oracle: the property evaluated directly on the real code
// ---------------------------------------------------------------------------------------------

fn fp(w: &World) -> Vec<(String, String)> {
    let mut v = hook::fingerprint(&w.rt, &w.prov, &w.eng);
    // fault evidence is excluded from the hook's fingerprint by construction; add it here
    let mut faults: Vec<String> = w.rt.scheduler_faults().map(|f| format!("{f:?}")).collect();
    faults.sort();
    v.push(("faults".into(), format!("{}", blake3::hash(faults.join("|").as_bytes()).to_hex())));
    // the one interior-mutable object an `&Engine` reaches: the materialization bus (RefCell)
    v.push(("bus".into(), format!("{}", blake3::hash(format!("{:?}", w.eng.materialization_bus()).as_bytes()).to_hex())));
    v.push(("strands".into(), format!("{}", blake3::hash(format!("{:?}", w.rt.strands()).as_bytes()).to_hex())));
    v
}

fn fp_diff(a: &[(String, String)], b: &[(String, String)]) -> Option<String> {
    let ma: BTreeMap<_, _> = a.iter().cloned().collect();
    let mb: BTreeMap<_, _> = b.iter().cloned().collect();
    for (k, v) in &ma {
        if mb.get(k) != Some(v) {
            return Some(k.clone());
        }
    }
    for k in mb.keys() {
        if !ma.contains_key(k) {
            return Some(k.clone());
        }
    }
    None
}

/// the fields of an artifact that a later commit may not change (everything but the observation-time
/// watermark and, hence, the artifact hash): the ABI artifact with those two blanked, as bytes
fn stable_bytes(a: &ObservationArtifact) -> Vec<u8> {
    let mut abi = a.to_abi();
    abi.resolved.observed_after_global_tick = None;
    abi.artifact_hash = Vec::new();
    echo_wasm_abi::encode_cbor(&abi).unwrap_or_default()
}

fn abi_bytes(a: &ObservationArtifact) -> Vec<u8> {
    echo_wasm_abi::encode_cbor(&a.to_abi()).unwrap_or_default()
}

fn shape_key(r: &Req) -> String {
    let at = match r.at {
        At::Frontier => "frontier",
        At::Tick(_) => "tick",
    };
    let proj = match &r.proj {
        Proj::Head => "head",
        Proj::Snap => "snap",
        Proj::Truth(None) => "truth-all",
        Proj::Truth(Some(_)) => "truth-filter",
        Proj::Query(..) => "query",
    };
    format!("{at}-{}-{proj}", frame_name(r.frame))
}

/// every builtin frame × projection at the given coordinate (valid and invalid pairings), plus plan /
/// instance / rights / budget variations
fn battery(wl: u64, at: At, chans: &[Id]) -> Vec<Req> {
    let mut v = Vec::new();
    let frames = [ObservationFrame::CommitBoundary, ObservationFrame::RecordedTruth, ObservationFrame::QueryView];
    let projs = [
        (Proj::Head, Plan::B(BuiltinObserverPlan::CommitBoundaryHead)),
        (Proj::Snap, Plan::B(BuiltinObserverPlan::CommitBoundarySnapshot)),
        (Proj::Truth(None), Plan::B(BuiltinObserverPlan::RecordedTruthChannels)),
        (Proj::Truth(Some(chans.to_vec())), Plan::B(BuiltinObserverPlan::RecordedTruthChannels)),
        (Proj::Query(7, vec![1, 2, 3]), Plan::B(BuiltinObserverPlan::QueryBytes)),
    ];
    for f in frames {
        for (p, plan) in &projs {
            v.push(Req { wl, at: at.clone(), frame: f, proj: p.clone(), plan: plan.clone(), inst: None, budget: None, rights: None });
        }
    }
    let base = |p: Proj, plan: Plan, frame| Req { wl, at: at.clone(), frame, proj: p, plan, inst: None, budget: None, rights: None };
    let cb = ObservationFrame::CommitBoundary;
    let mut r = base(Proj::Head, Plan::B(BuiltinObserverPlan::CommitBoundarySnapshot), cb);
    v.push(r.clone());
    r.plan = Plan::A(5);
    v.push(r.clone());
    r.plan = Plan::B(BuiltinObserverPlan::CommitBoundaryHead);
    r.inst = Some(3);
    v.push(r.clone());
    r.inst = None;
    r.rights = Some(9);
    v.push(r.clone());
    r.rights = None;
    for b in [(10, 1), (4096, 0), (4096, 1), (u64::MAX, u64::MAX)] {
        r.budget = Some(b);
        v.push(r.clone());
    }
    let mut tr = base(Proj::Truth(None), Plan::B(BuiltinObserverPlan::RecordedTruthChannels), ObservationFrame::RecordedTruth);
    for b in [(1, 1), (4096, 1)] {
        tr.budget = Some(b);
        v.push(tr.clone());
    }
    v
}

fn optic_battery(wl: u64, other: u64, at: &At) -> Vec<OptReq> {
    let mut v = Vec::new();
    let ats: Vec<OptAt> = match at {
        At::Frontier => vec![OptAt::Frontier],
        At::Tick(n) => vec![OptAt::Tick(*n), OptAt::Prov(wl, *n), OptAt::Prov(other, *n)],
    };
    for a in ats {
        for shape in ["h", "s", "t", "q", "b", "a"] {
            for (mb, mt) in [(None, None), (Some(0), None), (Some(64), None), (Some(4096), None), (Some(4096), Some(1))] {
                v.push(OptReq { focus_wl: wl, coord_wl: wl, at: a.clone(), shape: shape.into(), max_bytes: mb, max_ticks: mt });
            }
        }
        v.push(OptReq { focus_wl: wl, coord_wl: other, at: a.clone(), shape: "h".into(), max_bytes: Some(4096), max_ticks: None });
    }
    v
}

struct Remembered {
    req: Req,
    stable: Vec<u8>,
    /// history length of the worldline when first read
    len: u64,
}

struct RememberedOpt {
    req: OptReq,
    bytes: Vec<u8>,
    ncp: usize,
}

fn ncheckpoints(w: &World, wl: u64) -> usize {
    // number of distinct checkpoints visible through checkpoint_before
    let mut n = 0;
    let len = w.prov.len(wlid(wl)).unwrap_or(0);
    let mut last = None;
    for t in 0..=len + 1 {
        let c = w.prov.checkpoint_before(wlid(wl), wt(t)).map(|c| c.worldline_tick.as_u64());
        if c != last {
            if c.is_some() {
                n += 1;
            }
            last = c;
        }
    }
    n
}

/// Runs `f` twice; the two results must be equal. With `with_fp` the full fingerprint is taken before,
/// between and after (used for explicit requests and to localise a battery-level change).
fn check_read_only(
    w: &World,
    out: &mut OracleOut,
    what: &str,
    key: &str,
    with_fp: bool,
    f: &mut dyn FnMut(&World) -> Vec<u8>,
) -> Vec<u8> {
    let before = if with_fp { fp(w) } else { Vec::new() };
    let a = f(w);
    let mid = if with_fp { fp(w) } else { Vec::new() };
    let b = f(w);
    let after = if with_fp { fp(w) } else { Vec::new() };
    if let Some(c) = fp_diff(&before, &mid).or_else(|| fp_diff(&mid, &after)) {
        out.fails.push((format!("C16.mutates.{c}.{key}"), format!("{what} changed fingerprint component {c}")));
    }
    if a != b {
        out.fails.push((format!("C16.nondeterministic.{key}"), format!("{what} asked twice gave different artifacts")));
    }
    a
}

fn replayed_check(w: &World, out: &mut OracleOut, r: &Req, a: &ObservationArtifact) {
    let At::Tick(t) = r.at else { return };
    let Some(base) = w.bases.get(&r.wl) else { return };
    let key = shape_key(r);
    match w.prov.replay_worldline_state_at(wlid(r.wl), base, wt(t + 1)) {
        Err(e) => out.fails.push((
            format!("C16.historical.reading-without-replayable-state.{key}"),
            format!("tick {t} read ok but replay to {} failed: {e:?}", t + 1),
        )),
        Ok(st) => {
            let root = st.state_root();
            let snap = st.last_snapshot().cloned();
            if a.resolved.state_root != root {
                out.fails.push((format!("C16.historical.root-differs-from-replay.{key}"), format!("tick {t}")));
            }
            match &snap {
                None => out.fails.push((format!("C16.historical.replay-has-no-snapshot.{key}"), format!("tick {t}"))),
                Some(s) => {
                    if s.hash != a.resolved.commit_hash || s.state_root != a.resolved.state_root {
                        out.fails.push((format!("C16.historical.commit-differs-from-replay.{key}"), format!("tick {t}")));
                    }
                }
            }
            if a.resolved.resolved_worldline_tick.as_u64() != t {
                out.fails.push((format!("C16.historical.resolved-other-tick.{key}"), format!("asked {t}")));
            }
            match &a.payload {
                ObservationPayload::Head(h) => {
                    if h.state_root != root || h.worldline_tick.as_u64() != t {
                        out.fails.push((format!("C16.historical.payload-differs-from-replay.{key}"), format!("tick {t}")));
                    }
                }
                ObservationPayload::Snapshot(h) => {
                    if h.state_root != root || h.worldline_tick.as_u64() != t {
                        out.fails.push((format!("C16.historical.payload-differs-from-replay.{key}"), format!("tick {t}")));
                    }
                }
                ObservationPayload::TruthChannels(chs) => {
                    let want: Vec<(TypeId, Vec<u8>)> = st
                        .last_materialization()
                        .iter()
                        .map(|c| (c.channel, c.data.clone()))
                        .filter(|(c, _)| match &r.proj {
                            Proj::Truth(Some(f)) => f.contains(&c.0),
                            _ => true,
                        })
                        .collect();
                    if &want != chs {
                        out.fails.push((format!("C16.historical.payload-differs-from-replay.{key}"), format!("tick {t}")));
                    }
                }
                ObservationPayload::QueryBytes(_) => {}
            }
        }
    }
}

struct Orc {
    remembered: Vec<Remembered>,
    remembered_opt: Vec<RememberedOpt>,
    nreads: usize,
    ok_hist: usize,
    reasked: usize,
    tags: std::collections::BTreeSet<String>,
    rr: usize,
}

fn judge_obs(w: &World, out: &mut OracleOut, o: &mut Orc, r: &Req, res: Result<ObservationArtifact, ObservationError>) {
    let key = shape_key(r);
    let len = w.prov.len(wlid(r.wl)).unwrap_or(0);
    let registered = w.rt.worldlines().get(&wlid(r.wl)).is_some();
    match res {
        Ok(a) => {
            o.tags.insert(format!("ok-{key}"));
            if !registered {
                out.fails.push((format!("C16.unavailable.reading-of-unknown-worldline.{key}"), req_tok(r)));
            }
            if a.resolved.worldline_id != wlid(r.wl) {
                out.fails.push((format!("C16.bound.other-worldline.{key}"), req_tok(r)));
            }
            if let At::Tick(t) = r.at {
                if t >= len {
                    out.fails.push((format!("C16.unavailable.reading-of-future-tick.{key}"), format!("{} len {len}", req_tok(r))));
                } else {
                    o.ok_hist += 1;
                    replayed_check(w, out, r, &a);
                    if !o.remembered.iter().any(|m| &m.req == r) && o.remembered.len() < 300 {
                        o.remembered.push(Remembered { req: r.clone(), stable: stable_bytes(&a), len });
                    }
                }
            } else if let Some(fr) = w.rt.worldlines().get(&wlid(r.wl)) {
                // frontier reads resolve to the live frontier
                let want_tick = match r.frame {
                    ObservationFrame::RecordedTruth => fr.frontier_tick().as_u64().wrapping_sub(1),
                    _ => fr.frontier_tick().as_u64(),
                };
                if a.resolved.resolved_worldline_tick.as_u64() != want_tick {
                    out.fails.push((format!("C16.bound.frontier-resolved-elsewhere.{key}"), req_tok(r)));
                }
                if r.frame != ObservationFrame::RecordedTruth && a.resolved.state_root != fr.state().state_root() {
                    out.fails.push((format!("C16.bound.frontier-root-not-live.{key}"), req_tok(r)));
                }
            }
            // the artifact hash is the hash of (resolved, reading, frame, projection, payload)
            let abi = a.to_abi();
            let input = echo_wasm_abi::kernel_port::ObservationHashInput {
                resolved: abi.resolved.clone(),
                reading: abi.reading.clone(),
                frame: abi.frame.clone(),
                projection: abi.projection.clone(),
                payload: abi.payload.clone(),
            };
            let mut h = blake3::Hasher::new();
            h.update(b"echo:observation-artifact:v4\0");
            h.update(&echo_wasm_abi::encode_cbor(&input).unwrap_or_default());
            if h.finalize().as_bytes() != &a.artifact_hash {
                out.fails.push((format!("C16.hash.not-hash-of-artifact.{key}"), req_tok(r)));
            }
        }
        Err(e) => {
            let et = err_tok(&e);
            o.tags.insert(et.split(' ').take(2).collect::<Vec<_>>().join("-"));
            if !registered && !matches!(e, ObservationError::InvalidWorldline(_)) {
                out.fails.push((format!("C16.unavailable.unknown-worldline-wrong-error.{key}"), format!("{} -> {et}", req_tok(r))));
            }
        }
    }
}

fn run_obs(w: &World, out: &mut OracleOut, o: &mut Orc, r: &Req, with_fp: bool) {
    let key = shape_key(r);
    let mut last: Option<Result<ObservationArtifact, ObservationError>> = None;
    let mut run = |w: &World| {
        let res = observe(w, r);
        let bytes = match &res {
            Ok(a) => abi_bytes(a),
            Err(e) => err_tok(e).into_bytes(),
        };
        last = Some(res);
        bytes
    };
    check_read_only(w, out, &format!("obs {}", req_tok(r)), &key, with_fp, &mut run);
    o.nreads += 1;
    if let Some(res) = last.take() {
        judge_obs(w, out, o, r, res);
    }
}

fn run_opt(w: &World, out: &mut OracleOut, o: &mut Orc, q: &OptReq, with_fp: bool) {
    let mut run = |w: &World| optic_bytes(&ObservationService::observe_optic(&w.rt, &w.prov, &w.eng, real_opt(w, q)));
    let bytes = check_read_only(w, out, &format!("opt {}", opt_tok(q)), &format!("optic-{}", q.shape), with_fp, &mut run);
    o.nreads += 1;
    let res = ObservationService::observe_optic(&w.rt, &w.prov, &w.eng, real_opt(w, q));
    let len = w.prov.len(wlid(q.coord_wl)).unwrap_or(0);
    match &res {
        ObserveOpticResult::Reading(rd) => {
            o.tags.insert(format!("optic-reading-{}", q.shape));
            let t = match q.at {
                OptAt::Tick(t) | OptAt::Prov(_, t) => Some(t),
                OptAt::Frontier => None,
            };
            if let Some(t) = t {
                if t >= len {
                    out.fails.push((format!("C16.unavailable.optic-reading-of-future-tick.{}", q.shape), opt_tok(q)));
                } else {
                    // the optic payload must be the payload of the plain observation at that tick
                    let head = q.shape == "h";
                    let plain = observe(
                        w,
                        &Req {
                            wl: q.coord_wl,
                            at: At::Tick(t),
                            frame: ObservationFrame::CommitBoundary,
                            proj: if head { Proj::Head } else { Proj::Snap },
                            plan: Plan::B(if head { BuiltinObserverPlan::CommitBoundaryHead } else { BuiltinObserverPlan::CommitBoundarySnapshot }),
                            inst: None,
                            budget: None,
                            rights: None,
                        },
                    );
                    if plain.map(|a| a.payload).ok().as_ref() != Some(&rd.payload) {
                        out.fails.push((format!("C16.historical.optic-payload-differs.{}", q.shape), opt_tok(q)));
                    }
                    if o.remembered_opt.len() < 150 && !o.remembered_opt.iter().any(|m| opt_tok(&m.req) == opt_tok(q)) {
                        o.remembered_opt.push(RememberedOpt { req: q.clone(), bytes, ncp: ncheckpoints(w, q.coord_wl) });
                    }
                }
            }
        }
        ObserveOpticResult::Obstructed(ob) => {
            o.tags.insert(format!("optic-obstructed-{:?}", ob.kind));
        }
    }
}

/// Re-asks every remembered historical question; then runs the batteries on `pick` worldlines (all when
/// `full`) between two full fingerprints; a fingerprint change is localised by a second, per-request pass.
fn probe(w: &World, out: &mut OracleOut, o: &mut Orc, full: bool) {
    for i in 0..o.remembered.len() {
        let m = &o.remembered[i];
        let now = observe(w, &m.req).map(|a| stable_bytes(&a)).unwrap_or_else(|e| err_tok(&e).into_bytes());
        o.reasked += 1;
        if now != m.stable {
            out.fails.push((
                format!("C16.historical.changed-by-later-commit.{}", shape_key(&m.req)),
                format!("{} first asked at len {}", req_tok(&m.req), m.len),
            ));
        }
    }
    for i in 0..o.remembered_opt.len() {
        let m = &o.remembered_opt[i];
        if ncheckpoints(w, m.req.coord_wl) != m.ncp {
            continue; // a checkpoint was added since: the witness basis may legitimately change shape
        }
        let now = optic_bytes(&ObservationService::observe_optic(&w.rt, &w.prov, &w.eng, real_opt(w, &m.req)));
        o.reasked += 1;
        if now != m.bytes {
            out.fails.push((format!("C16.historical.optic-changed-by-later-commit.{}", m.req.shape), format!("opt {}", opt_tok(&m.req))));
        }
    }
    let mut all: Vec<u64> = w.rt.worldlines().iter().map(|(id, _)| small_of(id.as_bytes())).collect();
    for k in w.bases.keys() {
        if !all.contains(k) {
            all.push(*k);
        }
    }
    let mut wls: Vec<u64> = if full || all.len() <= 2 {
        all.clone()
    } else {
        o.rr += 1;
        vec![all[o.rr % all.len()], all[(o.rr * 2 + 1) % all.len()], *all.last().unwrap()]
    };
    wls.dedup();
    wls.push(0xEE);
    let mut reqs: Vec<Req> = Vec::new();
    let mut opts: Vec<OptReq> = Vec::new();
    for wl in &wls {
        let len = w.prov.len(wlid(*wl)).unwrap_or(0);
        let mut chans: Vec<Id> = Vec::new();
        for t in 0..len {
            if let Ok(e) = w.prov.entry(wlid(*wl), wt(t)) {
                for (c, _) in e.outputs.iter().take(1) {
                    chans.push(c.0);
                }
            }
        }
        chans.push(small_id(0x77));
        chans.truncate(3);
        let mut ats = vec![At::Frontier];
        let mut ticks: Vec<u64> = vec![0, len / 2, len.saturating_sub(1)];
        ticks.dedup();
        for t in ticks {
            if t < len {
                ats.push(At::Tick(t));
            }
        }
        ats.push(At::Tick(len));
        ats.push(At::Tick(if o.rr % 2 == 0 { len + 3 } else { u64::MAX }));
        let other = all.iter().copied().find(|x| x != wl).unwrap_or(0xEE);
        for at in ats {
            reqs.extend(battery(*wl, at.clone(), &chans));
            if matches!(at, At::Frontier) || matches!(at, At::Tick(t) if t <= len) {
                opts.extend(optic_battery(*wl, other, &at));
            }
        }
    }
    let before = fp(w);
    let nfail = out.fails.len();
    for r in &reqs {
        run_obs(w, out, o, r, false);
    }
    for q in &opts {
        run_opt(w, out, o, q, false);
    }
    let after = fp(w);
    if let Some(c) = fp_diff(&before, &after) {
        // localise: per-request fingerprints until the first culprit (once per case)
        let found = |out: &OracleOut| out.fails[nfail..].iter().any(|(k, _)| k.starts_with("C16.mutates."));
        if !o.tags.contains("mutation-localised") {
            for r in &reqs {
                run_obs(w, out, o, r, true);
                if found(out) {
                    break;
                }
            }
            if !found(out) {
                for q in &opts {
                    run_opt(w, out, o, q, true);
                    if found(out) {
                        break;
                    }
                }
            }
            o.tags.insert("mutation-localised".into());
        }
        if !out.fails[nfail..].iter().any(|(k, _)| k.starts_with("C16.mutates.")) {
            out.fails.push((format!("C16.mutates.{c}.battery"), "a battery of reads changed the fingerprint (not reproducible per request)".into()));
        }
    }
}

fn oracle_observe(t: &mut Toks, _tier: Tier) -> Result<OracleOut, String> {
    let c = parse_case(t)?;
    let mut w = build(&c)?;
    let mut out = OracleOut::default();
    let mut o = Orc {
        remembered: Vec::new(),
        remembered_opt: Vec::new(),
        nreads: 0,
        ok_hist: 0,
        reasked: 0,
        tags: Default::default(),
        rr: 0,
    };
    for it in &c.items {
        match it {
            Item::World(_) => probe(&w, &mut out, &mut o, false),
            Item::Obs(r) => {
                let with_fp = !out.fails.iter().any(|(k, _)| k.starts_with("C16.mutates."));
                run_obs(&w, &mut out, &mut o, r, with_fp)
            }
            Item::Opt(q) => {
                let with_fp = !out.fails.iter().any(|(k, _)| k.starts_with("C16.mutates."));
                run_opt(&w, &mut out, &mut o, q, with_fp)
            }
            other => {
                exec(&mut w, other)?;
            }
        }
    }
    probe(&w, &mut out, &mut o, true);
    out.tags = o.tags.iter().cloned().collect();
    out.tags.push(format!("reads>={}", o.nreads / 1000 * 1000));
    out.nontrivial = o.ok_hist > 0 && o.reasked > 0;
    out.fails.sort();
    out.fails.dedup_by(|a, b| a.0 == b.0);
    Ok(out)
}

// ---------------------------------------------------------------------------------------------
// gen
// ---------------------------------------------------------------------------------------------

fn gen_req(rng: &mut Rng, wls: &[u64], lens: &BTreeMap<u64, u64>, chans: &[Id]) -> Req {
    let wl = if rng.below(12) == 0 { 0xEE } else { wls[rng.below(wls.len() as u64) as usize] };
    let len = lens.get(&wl).copied().unwrap_or(0);
    let at = match rng.below(10) {
        0..=2 => At::Frontier,
        3 => At::Tick(len),
        4 => At::Tick(len + 1 + rng.below(3)),
        5 if len > 0 => At::Tick(len - 1),
        _ => At::Tick(if len == 0 { 0 } else { rng.below(len) }),
    };
    let (mut frame, proj, mut plan) = match rng.below(9) {
        0 | 1 => (ObservationFrame::CommitBoundary, Proj::Head, Plan::B(BuiltinObserverPlan::CommitBoundaryHead)),
        2 | 3 => (ObservationFrame::CommitBoundary, Proj::Snap, Plan::B(BuiltinObserverPlan::CommitBoundarySnapshot)),
        4 | 5 => (ObservationFrame::RecordedTruth, Proj::Truth(None), Plan::B(BuiltinObserverPlan::RecordedTruthChannels)),
        6 | 7 => {
            let n = rng.below(3) as usize;
            let mut f = Vec::new();
            for _ in 0..n {
                f.push(if !chans.is_empty() && rng.below(4) != 0 { chans[rng.below(chans.len() as u64) as usize] } else { small_id(0x70 + rng.below(3)) });
            }
            (ObservationFrame::RecordedTruth, Proj::Truth(Some(f)), Plan::B(BuiltinObserverPlan::RecordedTruthChannels))
        }
        _ => (ObservationFrame::QueryView, Proj::Query(rng.below(3) as u32 + 6, vec![rng.below(256) as u8; rng.below(3) as usize]), Plan::B(BuiltinObserverPlan::QueryBytes)),
    };
    if rng.below(10) == 0 {
        frame = [ObservationFrame::CommitBoundary, ObservationFrame::RecordedTruth, ObservationFrame::QueryView][rng.below(3) as usize];
    }
    if rng.below(12) == 0 {
        plan = match rng.below(5) {
            0 => Plan::B(BuiltinObserverPlan::CommitBoundaryHead),
            1 => Plan::B(BuiltinObserverPlan::CommitBoundarySnapshot),
            2 => Plan::B(BuiltinObserverPlan::RecordedTruthChannels),
            3 => Plan::B(BuiltinObserverPlan::QueryBytes),
            _ => Plan::A(rng.below(200)),
        };
    }
    let inst = if rng.below(15) == 0 { Some(rng.below(300)) } else { None };
    let rights = if rng.below(15) == 0 { Some(rng.below(300)) } else { None };
    let budget = match rng.below(8) {
        0 => Some((rng.below(200), rng.below(3))),
        1 => Some((4096, 1)),
        2 => Some(([100, 110, 118, 119, 120, 121, 130][rng.below(7) as usize], 1)),
        3 => Some((u64::MAX, u64::MAX)),
        _ => None,
    };
    Req { wl, at, frame, proj, plan, inst, budget, rights }
}

fn gen_case(rng: &mut Rng, big: bool) -> Result<String, String> {
    let nw = 1 + rng.below(3);
    let wls: Vec<(u64, u64)> = (1..=nw).map(|i| (i, 1 + rng.below(2))).collect();
    let mut line = format!("W {}", wls.len());
    for (w, h) in &wls {
        line.push_str(&format!(" {w} {h}"));
    }
    let case0 = Case { wls: wls.clone(), items: vec![] };
    let mut world = build(&case0)?;
    let mut known: Vec<u64> = wls.iter().map(|x| x.0).collect();
    let mut heads: BTreeMap<u64, u64> = wls.iter().cloned().collect();
    let mut next_wl = 10u64;
    let mut nonce = 0u8;
    let steps = if big { 10 + rng.below(14) } else { 5 + rng.below(8) };
    let push = |world: &mut World, line: &mut String, it: Item, tok: String| -> Result<(), String> {
        exec(world, &it)?;
        line.push(' ');
        line.push_str(&tok);
        Ok(())
    };
    for _ in 0..steps {
        // a few mutations
        let nm = 1 + rng.below(3);
        for _ in 0..nm {
            match rng.below(20) {
                0..=9 => {
                    // ingest on 1..3 heads then tick
                    let k = 1 + rng.below(3);
                    for _ in 0..k {
                        let live: Vec<u64> = known.iter().copied().filter(|w| heads.contains_key(w)).collect();
                        if live.is_empty() {
                            break;
                        }
                        let wl = live[rng.below(live.len() as u64) as usize];
                        let hid = 1 + rng.below(heads[&wl]);
                        nonce = nonce.wrapping_add(1);
                        let bytes = if rng.below(3) == 0 {
                            vec![b'N', nonce]
                        } else {
                            vec![b'S', rng.below(6) as u8, rng.below(3) as u8, nonce]
                        };
                        let tok = format!("ing {wl} {hid} {}", hex(&bytes));
                        push(&mut world, &mut line, Item::Ing { wl, hid, bytes }, tok)?;
                    }
                    push(&mut world, &mut line, Item::Tick, "tick".into())?;
                }
                10 | 11 => {
                    // fork a strand from a worldline with history
                    let cands: Vec<u64> = known.iter().copied().filter(|w| heads.contains_key(w) && world.prov.len(wlid(*w)).unwrap_or(0) > 0).collect();
                    if let Some(&src) = cands.get(rng.below(cands.len().max(1) as u64) as usize) {
                        let len = world.prov.len(wlid(src)).unwrap_or(0);
                        let tick = if rng.below(8) == 0 { len } else { rng.below(len) };
                        let child = next_wl;
                        next_wl += 1;
                        let tok = format!("fork {src} {tick} {child} {}", 100 + child);
                        push(&mut world, &mut line, Item::Fork { src, tick, child, sid: 100 + child }, tok)?;
                        if world.rt.worldlines().get(&wlid(child)).is_some() {
                            known.push(child);
                            heads.insert(child, 1);
                        }
                    }
                }
                12 | 13 => {
                    // synthetic recorded worldline with outputs (honest C07-style history)
                    let mut h = { let nt = 1 + rng.below(4) as usize; c07::gen_hist(rng, nt) };
                    let mut tries = 0;
                    while !c07::honest_history(&h).map(|x| x.all_applied).unwrap_or(false) && tries < 20 {
                        h = { let nt = 1 + rng.below(4) as usize; c07::gen_hist(rng, nt) };
                        tries += 1;
                    }
                    if tries < 20 {
                        let id = next_wl;
                        next_wl += 1;
                        h.wl = small_id(id);
                        let ht = c07::hist_tok(&h);
                        let tok = format!("syn {} {ht}", ht.split_ascii_whitespace().count());
                        push(&mut world, &mut line, Item::Syn(h), tok)?;
                        if world.rt.worldlines().get(&wlid(id)).is_some() {
                            known.push(id);
                        }
                    }
                }
                14 => {
                    let id = next_wl;
                    next_wl += 1;
                    push(&mut world, &mut line, Item::Reg(id), format!("reg {id}"))?;
                    known.push(id);
                }
                15 => {
                    let wl = known[rng.below(known.len() as u64) as usize];
                    let len = world.prov.len(wlid(wl)).unwrap_or(0);
                    let tick = match rng.below(3) {
                        0 => len + 1 + rng.below(2),
                        1 => len.saturating_sub(1),
                        _ => rng.below(len + 2),
                    };
                    push(&mut world, &mut line, Item::Sft(wl, tick), format!("sft {wl} {tick}"))?;
                    // a worldline whose frontier tick was forced no longer ticks consistently
                    heads.remove(&wl);
                }
                16 | 17 => {
                    let wl = known[rng.below(known.len() as u64) as usize];
                    push(&mut world, &mut line, Item::Cp(wl), format!("cp {wl}"))?;
                }
                _ => {
                    push(&mut world, &mut line, Item::Tick, "tick".into())?;
                }
            }
        }
        line.push(' ');
        line.push_str(&world_item(&world));
        let lens: BTreeMap<u64, u64> = known.iter().map(|w| (*w, world.prov.len(wlid(*w)).unwrap_or(0))).collect();
        let mut chans: Vec<Id> = Vec::new();
        for w in &known {
            for t in 0..lens[w] {
                if let Ok(e) = world.prov.entry(wlid(*w), wt(t)) {
                    for (c, _) in &e.outputs {
                        if !chans.contains(&c.0) {
                            chans.push(c.0);
                        }
                    }
                }
            }
        }
        let no = 2 + rng.below(5);
        for _ in 0..no {
            let r = gen_req(rng, &known, &lens, &chans);
            line.push_str(&format!(" obs {}", req_tok(&r)));
        }
    }
    Ok(line)
}

fn gen_observe(rng: &mut Rng, tier: Tier) -> Vec<String> {
    let n = match tier {
        Tier::Quick => 28,
        Tier::Thorough => 600,
    };
    let mut v = Vec::new();
    for i in 0..n {
        let r = std::panic::catch_unwind(std::panic::AssertUnwindSafe(|| gen_case(rng, i % 4 == 3)));
        match r {
            Ok(Ok(l)) => v.push(l),
            Ok(Err(e)) => v.push(format!("W 0 BAD {}", e.replace(' ', "_"))),
            Err(p) => v.push(format!("W 0 PANIC {}", crate::panic_msg(p))),
        }
    }
    v
}
