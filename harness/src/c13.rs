//! C13 — decoders and byte-level entry points are total.
//!
//! Every case runs the REAL decoder in an isolated child process (`harness child c13`), on a
//! dedicated thread with a fixed 8 MiB stack, under the counting global allocator of main.rs.
//! The child is a persistent worker (many benign cases per process); when a case kills it
//! (allocation abort, stack overflow, signal, timeout) the parent records the exit class for that
//! case and spawns a fresh worker.
//!
//! Case payload: `<seg>…` where a segment is `<hex>` or `<hex>*<count>` (repeat), `-` = empty.
//! Output (imp): `<class…> alloc-ok|alloc-excess`, or `abort-alloc|abort-stack|signal-N|timeout|panic`.
use crate::prng::Rng;
use crate::util::Toks;
use crate::{OracleOut, Stream, Tier};
use std::io::{BufRead, BufReader, Write};
use std::process::{Child, ChildStdin, ChildStdout, Command, Stdio};
use std::sync::Mutex;

const STACK_BYTES: usize = 8 << 20;
const CASE_TIMEOUT_S: u64 = 20;
/// hard cap on an expanded input (bytes)
const MAX_INPUT: usize = 2 << 20;

// --------------------------------------------------------------------------- byte specs

pub fn expand(segs: &[&str]) -> Result<Vec<u8>, String> {
    let mut out = Vec::new();
    for s in segs {
        let (h, n) = match s.split_once('*') {
            Some((h, n)) => (h, n.parse::<usize>().map_err(|e| format!("bad repeat {s}: {e}"))?),
            None => (*s, 1),
        };
        let b = crate::util::unhex(h)?;
        if out.len() + b.len().saturating_mul(n) > MAX_INPUT {
            return Err("input too large".into());
        }
        for _ in 0..n {
            out.extend_from_slice(&b);
        }
    }
    Ok(out)
}

fn rest<'a>(t: &mut Toks<'a>) -> Vec<&'a str> {
    let mut v = Vec::new();
    while let Ok(s) = t.next() {
        v.push(s);
    }
    v
}

// --------------------------------------------------------------------------- real decoders (child side)

type Decoder = fn(&[u8]) -> String;

fn codecs() -> Vec<(&'static str, Decoder, Bound)> {
    vec![
        ("abi", dec_abi as Decoder, Bound { per_byte: 256, constant: 64 << 10 }),
        // Edict: reservations are bounded by the node budget (65 536 nodes of 32 bytes), not by len
        ("edict", dec_edict as Decoder, Bound { per_byte: 256, constant: 4 << 20 }),
        ("le", dec_le as Decoder, Bound { per_byte: 256, constant: 64 << 10 }),
        // ---- decoders without a cost model (oracle + trivial "total" model only) ----
        ("ingress", dec_ingress as Decoder, Bound { per_byte: 256, constant: 64 << 10 }),
        ("walseg", dec_walseg as Decoder, Bound { per_byte: 256, constant: 256 << 10 }),
        ("walpayload", dec_walpayload as Decoder, Bound { per_byte: 256, constant: 64 << 10 }),
        ("wsc", dec_wsc as Decoder, Bound { per_byte: 256, constant: 64 << 10 }),
        ("dto", dec_dto as Decoder, Bound { per_byte: 512, constant: 64 << 10 }),
        // documented constant budgets instead of proportionality: MAX_FRAME_LEN = 10 MiB, MAX_OPS = 10 000
        ("elog", dec_elog as Decoder, Bound { per_byte: 256, constant: 11 << 20 }),
        ("scene", dec_scene as Decoder, Bound { per_byte: 256, constant: 4 << 20 }),
        // host boundary: the embedded kernel's own state is part of the measurement
        ("host", dec_host as Decoder, Bound { per_byte: 1024, constant: 16 << 20 }),
    ]
}

/// Allocation proportionality bound for one decoder: peak bytes ≤ per_byte·len + constant.
#[derive(Clone, Copy)]
pub struct Bound {
    per_byte: usize,
    constant: usize,
}

fn abi_err(e: &echo_wasm_abi::CanonError) -> String {
    use echo_wasm_abi::CanonError as E;
    match e {
        E::Incomplete => "incomplete".into(),
        E::Trailing => "trailing".into(),
        E::Tag => "tag".into(),
        E::Indefinite => "indefinite".into(),
        E::NonCanonicalInt => "noncanon-int".into(),
        E::NonCanonicalFloat => "noncanon-float".into(),
        E::FloatShouldBeInt => "float-should-be-int".into(),
        E::MapKeyOrder => "key-order".into(),
        E::MapKeyDuplicate => "key-dup".into(),
        E::Decode(m) => {
            let m = m.as_str();
            let k = if m.starts_with("invalid length info") {
                "len-info"
            } else if m.starts_with("integer out of range") {
                "int-range"
            } else if m.starts_with("utf8") {
                "utf8"
            } else if m.starts_with("simple value") {
                "simple"
            } else if m.contains("nesting") || m.contains("depth") {
                "depth"
            } else {
                "other"
            };
            format!("decode-{k}")
        }
        E::Encode(_) => "encode".into(),
        #[allow(unreachable_patterns)]
        other => {
            // variants added by later repo commits (the C13 fix adds the nesting limit)
            if other.to_string().contains("nesting") { "depth".into() } else { "other".into() }
        }
    }
}

fn value_stats(v: &ciborium::value::Value) -> (u64, u64) {
    // (nodes, container depth) — iterative: the value may be arbitrarily deep on unfixed code
    use ciborium::value::Value as V;
    let mut nodes = 0u64;
    let mut maxd = 0u64;
    let mut stack: Vec<(&V, u64)> = vec![(v, 0)];
    while let Some((x, d)) = stack.pop() {
        nodes += 1;
        maxd = maxd.max(d);
        match x {
            V::Array(xs) => {
                for y in xs {
                    stack.push((y, d + 1));
                }
            }
            V::Map(es) => {
                for (k, w) in es {
                    stack.push((k, d + 1));
                    stack.push((w, d + 1));
                }
            }
            _ => {}
        }
    }
    (nodes, maxd)
}

fn dec_abi(b: &[u8]) -> String {
    match echo_wasm_abi::decode_value(b) {
        Ok(v) => {
            let (n, d) = value_stats(&v);
            format!("ok nodes={n} depth={d}")
        }
        Err(e) => format!("err {}", abi_err(&e)),
    }
}

fn dec_edict(b: &[u8]) -> String {
    use echo_edict_canonical::{CanonicalValueErrorKind as K, CanonicalValueV1 as V};
    match echo_edict_canonical::decode_canonical_cbor_v1(b) {
        Ok(v) => {
            let mut nodes = 0u64;
            let mut maxd = 0u64;
            let mut stack: Vec<(&V, u64)> = vec![(&v, 0)];
            while let Some((x, d)) = stack.pop() {
                nodes += 1;
                maxd = maxd.max(d);
                match x {
                    V::Array(xs) => xs.iter().for_each(|y| stack.push((y, d + 1))),
                    V::Map(es) => es.iter().for_each(|(k, w)| {
                        stack.push((k, d + 1));
                        stack.push((w, d + 1));
                    }),
                    _ => {}
                }
            }
            format!("ok nodes={nodes} depth={maxd}")
        }
        Err(e) => {
            let k = match e.kind() {
                K::UnsupportedValue => "unsupported-value",
                K::InvalidInteger => "invalid-integer",
                K::UnexpectedEof => "unexpected-eof",
                K::TrailingData => "trailing-data",
                K::UnsupportedCbor => "unsupported-cbor",
                K::NonCanonical => "noncanonical",
                K::NestingLimitExceeded => "nesting-limit-exceeded",
                K::DuplicateMapKey => "duplicate-map-key",
                K::InvalidUtf8 => "invalid-utf8",
            };
            format!("err {k}")
        }
    }
}

// LE `Reader`: a fixed two-level schema decoded with the real combinators (mirrored by Model/CostLe.lean)
//   Item := kind:u8 (0..2) , flag:bool , vals:list<u16> , label:option<string(16)>
//   Doc  := tag:u8 , name:string(64) , items:list<Item> , extra:option<list<u32>> , blob:bytes(1024)
mod le_schema {
    use echo_wasm_abi::codec::{CodecError, Decode, Reader};
    pub struct Item {
        pub kind: u8,
        pub flag: bool,
        pub vals: Vec<u16>,
        pub label: Option<String>,
    }
    pub struct Doc {
        pub tag: u8,
        pub name: String,
        pub items: Vec<Item>,
        pub extra: Option<Vec<u32>>,
        pub blob: Vec<u8>,
    }
    impl Decode for Item {
        fn decode(r: &mut Reader<'_>) -> Result<Self, CodecError> {
            let kind = r.read_u8()?;
            if kind > 2 {
                return Err(CodecError::InvalidEnum);
            }
            let flag = r.read_bool()?;
            let vals = r.read_list(|r| r.read_u16_le())?;
            let label = r.read_option(|r| r.read_string(16))?;
            Ok(Item { kind, flag, vals, label })
        }
    }
    impl Decode for Doc {
        fn decode(r: &mut Reader<'_>) -> Result<Self, CodecError> {
            let tag = r.read_u8()?;
            let name = r.read_string(64)?;
            let items = r.read_list(Item::decode)?;
            let extra = r.read_option(|r| r.read_list(|r| r.read_u32_le()))?;
            let blob = r.read_len_prefixed_bytes(1024)?.to_vec();
            Ok(Doc { tag, name, items, extra, blob })
        }
    }
}

fn dec_le(b: &[u8]) -> String {
    use echo_wasm_abi::codec::CodecError as E;
    match echo_wasm_abi::codec::decode_from_bytes::<le_schema::Doc>(b) {
        Ok(d) => {
            let elems = d.items.len() + d.items.iter().map(|i| i.vals.len()).sum::<usize>() + d.extra.as_ref().map_or(0, Vec::len);
            let _ = (d.tag, &d.name, &d.blob, d.items.iter().map(|i| (i.kind, i.flag, i.label.is_some())).count());
            format!("ok elems={elems}")
        }
        Err(e) => format!(
            "err {}",
            match e {
                E::OutOfBounds => "out-of-bounds",
                E::InvalidUtf8 => "invalid-utf8",
                E::StringTooLong => "string-too-long",
                E::LengthTooLarge => "length-too-large",
                E::InvalidEnum => "invalid-enum",
                E::InvalidBoolTag => "invalid-bool-tag",
                E::Trailing => "trailing",
            }
        ),
    }
}

// ---- decoders without a cost model ------------------------------------------------------------

fn variant<T: std::fmt::Debug>(e: &T) -> String {
    // first identifier of the Debug rendering = the variant name (no payloads, no addresses)
    let d = format!("{e:?}");
    d.chars().take_while(|c| c.is_ascii_alphanumeric() || *c == '_').collect()
}

fn dec_ingress(b: &[u8]) -> String {
    match warp_core::IngressEnvelope::from_retained_bytes(b) {
        Ok(_) => "ok".into(),
        Err(e) => format!("err {}", variant(&e)),
    }
}

fn dec_walseg(b: &[u8]) -> String {
    use warp_core::causal_wal::{recover_wal_segment_bytes, RecoveryAccessMode, WalSegmentId};
    match recover_wal_segment_bytes(WalSegmentId::from_raw(1), b, RecoveryAccessMode::ReadOnly) {
        Ok(r) => format!("ok txs={}", r.report.transactions.len()),
        Err(e) => format!("err {}", variant(&e)),
    }
}

fn dec_walpayload(b: &[u8]) -> String {
    use warp_core::causal_wal as w;
    let mut ok = 0;
    macro_rules! t {
        ($($ty:ident),*) => { $( if w::$ty::from_payload_bytes(b).is_ok() { ok += 1; } )* };
    }
    t!(
        SubmissionAcceptanceRecord, WalSubmissionEnvelopeRecord, WalRuntimeStateDeltaRecord, TickReceiptRecord,
        WalReceiptCorrelationRecord, RetainedMaterialRecord, ReadingRefRecord, CheckpointRecord,
        CheckpointPublicationRecord, MaterializationIntentRecord, MaterializationObservationRecord,
        StrandForkRecord, StrandDropRecord, TopologyBraidEventRecord, BraidShellRetentionRecord, SuffixImportRecord
    );
    if ok > 0 { format!("ok accepted={ok}") } else { "err all".into() }
}

fn wsc_walk(file: &warp_core::wsc::WscFile) -> usize {
    let mut touched = 0usize;
    for i in 0..file.warp_count().min(64) {
        if let Ok(v) = file.warp_view(i) {
            touched += v.nodes().len() + v.edges().len();
            let _ = (v.warp_id(), v.root_node_id());
            for n in 0..v.nodes().len().min(4096) {
                touched += v.out_edges_for_node(n).len();
                for a in v.node_attachments(n) {
                    touched += v.blob_for_attachment(a).map_or(0, <[u8]>::len);
                }
                let _ = v.node_ix(&v.nodes()[n].node_id);
            }
            for e in 0..v.edges().len().min(4096) {
                for a in v.edge_attachments(e) {
                    touched += v.blob_for_attachment(a).map_or(0, <[u8]>::len);
                }
                let _ = v.edge_ix(&v.edges()[e].edge_id);
            }
        }
    }
    touched
}

fn dec_wsc(b: &[u8]) -> String {
    use warp_core::wsc::{validate_wsc, WscFile};
    let file = match WscFile::from_bytes(b.to_vec()) {
        Ok(f) => f,
        Err(e) => return format!("err open-{}", variant(&e)),
    };
    let valid = match std::panic::catch_unwind(std::panic::AssertUnwindSafe(|| validate_wsc(&file))) {
        Ok(v) => v,
        Err(p) => panic!("validate_wsc: {}", crate::panic_msg(p)),
    };
    // The accessors document "returns an empty slice if out of bounds": walk every accessor of every
    // view whether or not validation passed (lying offsets), reporting which phase panicked.
    let phase = if valid.is_ok() { "accessors-after-validate-ok" } else { "accessors-unvalidated" };
    if let Err(p) = std::panic::catch_unwind(std::panic::AssertUnwindSafe(|| wsc_walk(&file))) {
        panic!("{phase}: {}", crate::panic_msg(p));
    }
    match valid {
        Ok(()) => "ok".into(),
        Err(e) => format!("err validate-{}", variant(&e)),
    }
}

fn dec_dto(b: &[u8]) -> String {
    use echo_wasm_abi::kernel_port::ObservationRequest;
    let mut ok = Vec::new();
    if echo_wasm_abi::decode_cbor::<ObservationRequest>(b).is_ok() {
        ok.push("obsreq");
    }
    if echo_wasm_abi::decode_cbor::<echo_wasm_abi::WarpGraph>(b).is_ok() {
        ok.push("graph");
    }
    if echo_wasm_abi::decode_cbor::<echo_wasm_abi::Rewrite>(b).is_ok() {
        ok.push("rewrite");
    }
    if echo_wasm_abi::unpack_intent_v1(b).is_ok() {
        ok.push("eint");
    }
    if echo_wasm_abi::unpack_control_intent_v1(b).is_ok() {
        ok.push("ctl");
    }
    if echo_wasm_abi::unpack_import_suffix_intent_v1(b).is_ok() {
        ok.push("suffix");
    }
    if ok.is_empty() { "err all".into() } else { format!("ok {}", ok.join("+")) }
}

fn dec_elog(b: &[u8]) -> String {
    let mut r = std::io::Cursor::new(b);
    if let Err(e) = echo_wasm_abi::read_elog_header(&mut r) {
        return format!("err header-{:?}", e.kind());
    }
    let mut frames = 0;
    loop {
        match echo_wasm_abi::read_elog_frame(&mut r) {
            Ok(Some(_)) => frames += 1,
            Ok(None) => return format!("ok frames={frames}"),
            Err(e) => return format!("err frame-{:?}", e.kind()),
        }
    }
}

fn dec_scene(b: &[u8]) -> String {
    let a = echo_scene_codec::decode_scene_delta(b).is_ok();
    let c = echo_scene_codec::decode_camera_state(b).is_ok();
    let h = echo_scene_codec::decode_highlight_state(b).is_ok();
    if a || c || h { format!("ok {}{}{}", u8::from(a), u8::from(c), u8::from(h)) } else { "err all".into() }
}

fn dec_host(b: &[u8]) -> String {
    // the kernel lives in a thread-local of the decode thread; install it once per child
    thread_local! { static READY: std::cell::Cell<bool> = const { std::cell::Cell::new(false) }; }
    if !READY.with(std::cell::Cell::get) {
        if warp_wasm::init_embedded().is_err() {
            return "err init".into();
        }
        READY.with(|r| r.set(true));
    }
    // first byte selects the entry point, the rest is the payload
    let (sel, payload) = match b.split_first() {
        Some((s, p)) => (*s % 3, p),
        None => (0, b),
    };
    let out = match sel {
        0 => warp_wasm::dispatch_intent_cbor(payload),
        1 => warp_wasm::observe_cbor(payload),
        _ => warp_wasm::dispatch_control_intent_trusted_cbor(payload),
    };
    // every reply must itself be a canonical CBOR envelope
    match echo_wasm_abi::decode_value(&out) {
        Ok(_) => format!("ok entry={sel}"),
        Err(_) => panic!("host entry {sel} returned bytes that are not canonical CBOR"),
    }
}

// --------------------------------------------------------------------------- child process

/// `harness child c13`: read `<codec> <seg>…` lines, answer `R <peak> <total> <maxreq> <us> <class…>`.
pub fn child_main(args: &[String]) -> i32 {
    if args.first().map(String::as_str) != Some("c13") {
        return 2;
    }
    let table = codecs();
    let (job_tx, job_rx) = std::sync::mpsc::channel::<(Decoder, Vec<u8>)>();
    let (res_tx, res_rx) = std::sync::mpsc::channel::<String>();
    let worker = std::thread::Builder::new().name("c13-decode".into()).stack_size(STACK_BYTES).spawn(move || {
        while let Ok((f, bytes)) = job_rx.recv() {
            let base = crate::alloc_count::reset();
            let t0 = std::time::Instant::now();
            let r = std::panic::catch_unwind(std::panic::AssertUnwindSafe(|| f(&bytes)));
            let us = t0.elapsed().as_micros();
            let (peak, total, maxreq) = crate::alloc_count::snapshot(base);
            let class = match r {
                Ok(c) => c,
                Err(p) => format!("panic {}", crate::panic_msg(p)),
            };
            if res_tx.send(format!("R {peak} {total} {maxreq} {us} {class}")).is_err() {
                break;
            }
        }
    });
    if worker.is_err() {
        return 3;
    }
    let stdin = std::io::stdin();
    let stdout = std::io::stdout();
    for line in stdin.lock().lines() {
        let Ok(line) = line else { break };
        let toks: Vec<&str> = line.split_ascii_whitespace().collect();
        let reply = match toks.split_first() {
            None => continue,
            Some((codec, segs)) => match (table.iter().find(|c| c.0 == *codec), expand(segs)) {
                (Some(c), Ok(bytes)) => {
                    if job_tx.send((c.1, bytes)).is_err() {
                        return 4;
                    }
                    match res_rx.recv_timeout(std::time::Duration::from_secs(CASE_TIMEOUT_S)) {
                        Ok(r) => r,
                        Err(_) => {
                            // the decode thread is stuck or dead: report and die (parent respawns)
                            let mut o = stdout.lock();
                            let _ = writeln!(o, "T timeout");
                            let _ = o.flush();
                            return 9;
                        }
                    }
                }
                (None, _) => "E bad-codec".to_string(),
                (_, Err(e)) => format!("E {}", e.replace(' ', "_")),
            },
        };
        let mut o = stdout.lock();
        if writeln!(o, "{reply}").is_err() || o.flush().is_err() {
            return 5;
        }
    }
    0
}

// --------------------------------------------------------------------------- parent side

struct Worker {
    child: Child,
    stdin: ChildStdin,
    stdout: BufReader<ChildStdout>,
}

static WORKER: Mutex<Option<Worker>> = Mutex::new(None);

fn spawn() -> Result<Worker, String> {
    let exe = std::env::current_exe().map_err(|e| e.to_string())?;
    let mut child = Command::new(exe)
        .args(["child", "c13"])
        .stdin(Stdio::piped())
        .stdout(Stdio::piped())
        .stderr(Stdio::piped())
        .spawn()
        .map_err(|e| format!("spawn: {e}"))?;
    let stdin = child.stdin.take().ok_or("no stdin")?;
    let stdout = BufReader::new(child.stdout.take().ok_or("no stdout")?);
    Ok(Worker { child, stdin, stdout })
}

#[derive(Debug, Clone)]
pub struct Obs {
    /// `ok …` / `err …` / `panic …` when the child survived; else `abort-alloc`, `abort-stack`,
    /// `signal-N`, `exit-N`, `timeout`
    pub class: String,
    pub survived: bool,
    pub peak: usize,
    pub total: usize,
    pub maxreq: usize,
    pub us: u64,
}

/// Run one case in the (persistent) child worker. A timeout is confirmed once in a fresh worker
/// (a loaded machine must not turn into a finding; a genuinely slow input times out again).
pub fn observe(codec: &str, segs: &[&str]) -> Result<Obs, String> {
    let o = observe_once(codec, segs)?;
    if o.class == "timeout" {
        return observe_once(codec, segs);
    }
    Ok(o)
}

fn observe_once(codec: &str, segs: &[&str]) -> Result<Obs, String> {
    let mut guard = WORKER.lock().map_err(|_| "worker lock poisoned")?;
    if guard.is_none() {
        *guard = Some(spawn()?);
    }
    let w = guard.as_mut().ok_or("no worker")?;
    let line = format!("{codec} {}\n", segs.join(" "));
    let sent = w.stdin.write_all(line.as_bytes()).and_then(|_| w.stdin.flush());
    let mut reply = String::new();
    let got = if sent.is_ok() { w.stdout.read_line(&mut reply).unwrap_or(0) } else { 0 };
    let reply = reply.trim_end().to_string();
    if got > 0 && reply.starts_with("R ") {
        let p: Vec<&str> = reply.splitn(6, ' ').collect();
        if p.len() == 6 {
            let n = |s: &str| s.parse::<u64>().unwrap_or(u64::MAX);
            return Ok(Obs {
                class: p[5].to_string(),
                survived: true,
                peak: n(p[1]) as usize,
                total: n(p[2]) as usize,
                maxreq: n(p[3]) as usize,
                us: n(p[4]),
            });
        }
    }
    if got > 0 && reply.starts_with("E ") {
        return Err(reply[2..].to_string());
    }
    // the worker died (or timed out): collect its status and stderr, then forget it
    let mut w = guard.take().ok_or("no worker")?;
    drop(w.stdin);
    let timed_out = reply.starts_with("T ");
    let mut err = String::new();
    if let Some(mut e) = w.child.stderr.take() {
        use std::io::Read;
        let _ = e.read_to_string(&mut err);
    }
    let status = w.child.wait().map_err(|e| format!("wait: {e}"))?;
    use std::os::unix::process::ExitStatusExt;
    let class = if timed_out {
        "timeout".to_string()
    } else if err.contains("overflowed its stack") || err.contains("stack overflow") {
        "abort-stack".to_string()
    } else if err.contains("memory allocation of") || err.contains("capacity overflow") {
        "abort-alloc".to_string()
    } else if let Some(s) = status.signal() {
        format!("signal-{s}")
    } else {
        format!("exit-{}", status.code().unwrap_or(-1))
    };
    Ok(Obs { class, survived: false, peak: 0, total: 0, maxreq: 0, us: 0 })
}

fn bound_of(codec: &str) -> Bound {
    codecs().iter().find(|c| c.0 == codec).map(|c| c.2).unwrap_or(Bound { per_byte: 0, constant: 0 })
}

fn alloc_bucket(codec: &str, len: usize, o: &Obs) -> &'static str {
    let b = bound_of(codec);
    if o.peak <= b.per_byte.saturating_mul(len).saturating_add(b.constant) {
        "alloc-ok"
    } else {
        "alloc-excess"
    }
}

fn imp_codec(codec: &str, t: &mut Toks) -> Result<String, String> {
    let segs = rest(t);
    let len = expand(&segs)?.len();
    let o = observe(codec, &segs)?;
    if !o.survived {
        return Ok(o.class);
    }
    // a caught panic is still one token class for the comparison
    let class = if o.class.starts_with("panic") { "panic".to_string() } else { o.class.clone() };
    Ok(format!("{class} {}", alloc_bucket(codec, len, &o)))
}

fn size_tag(len: usize) -> &'static str {
    match len {
        0..=8 => "len<=8",
        9..=64 => "len<=64",
        65..=1024 => "len<=1K",
        1025..=65536 => "len<=64K",
        _ => "len>64K",
    }
}

fn oracle_codec(codec: &str, t: &mut Toks) -> Result<OracleOut, String> {
    let segs = rest(t);
    let len = expand(&segs)?.len();
    let o = observe(codec, &segs)?;
    let mut out = OracleOut::default();
    let what = |s: &str| format!("{s} on {len}-byte input (peak={} total={} maxreq={} us={})", o.peak, o.total, o.maxreq, o.us);
    if !o.survived {
        let key = match o.class.as_str() {
            "abort-alloc" => "abort.alloc".to_string(),
            "abort-stack" => "abort.stack".to_string(),
            "timeout" => "timeout".to_string(),
            c => format!("died.{c}"),
        };
        out.fails.push((format!("C13.{codec}.{key}"), what(&format!("decoder killed the process ({})", o.class))));
    } else if o.class.starts_with("panic") {
        out.fails.push((format!("C13.{codec}.panic"), what(&o.class)));
    } else if alloc_bucket(codec, len, &o) == "alloc-excess" {
        let b = bound_of(codec);
        out.fails.push((
            format!("C13.{codec}.alloc-excess"),
            what(&format!("peak allocation exceeds {}*len+{}", b.per_byte, b.constant)),
        ));
    }
    let mut cl = o.class.split(' ');
    let head = match (cl.next(), cl.next()) {
        (Some("err"), Some(k)) => format!("err:{k}"),
        (Some(c), _) => c.to_string(),
        _ => "?".to_string(),
    };
    out.tags.push(format!("{codec}:{head}"));
    out.tags.push(format!("{codec}:{}", size_tag(len)));
    // non-trivial: the decoder got past the first item (accepted, or failed after ≥ 2 bytes were needed)
    out.nontrivial = len >= 2;
    Ok(out)
}

// --------------------------------------------------------------------------- ABI CBOR generators

fn hx(b: &[u8]) -> String {
    crate::util::hex(b)
}

fn head(major: u8, n: u64) -> Vec<u8> {
    let m = major << 5;
    match n {
        0..=23 => vec![m | n as u8],
        24..=0xff => vec![m | 24, n as u8],
        0x100..=0xffff => {
            let mut v = vec![m | 25];
            v.extend_from_slice(&(n as u16).to_be_bytes());
            v
        }
        0x1_0000..=0xffff_ffff => {
            let mut v = vec![m | 26];
            v.extend_from_slice(&(n as u32).to_be_bytes());
            v
        }
        _ => {
            let mut v = vec![m | 27];
            v.extend_from_slice(&n.to_be_bytes());
            v
        }
    }
}

/// head with an explicit width (possibly non-minimal)
fn head_w(major: u8, info: u8, n: u64) -> Vec<u8> {
    let mut v = vec![(major << 5) | info];
    match info {
        24 => v.push(n as u8),
        25 => v.extend_from_slice(&(n as u16).to_be_bytes()),
        26 => v.extend_from_slice(&(n as u32).to_be_bytes()),
        27 => v.extend_from_slice(&n.to_be_bytes()),
        _ => {}
    }
    v
}

const TEXTS: [&str; 6] = ["", "a", "kind", "héllo", "日本", "\u{10348}z"];

fn gen_item(r: &mut Rng, depth: u32, out: &mut Vec<u8>) {
    let pick = if depth == 0 { r.below(8) } else { r.below(12) };
    match pick {
        0 => out.extend(head(0, *r.pick(&[0u64, 1, 23, 24, 255, 256, 65535, 65536, u32::MAX as u64, 1 << 32, u64::MAX]))),
        1 => out.extend(head(1, *r.pick(&[0u64, 23, 24, 255, 256, 1 << 31, (1u64 << 63) - 1]))),
        2 => {
            let n = r.below(6) as usize;
            out.extend(head(2, n as u64));
            out.extend(r.bytes(n));
        }
        3 => {
            let s = r.pick(&TEXTS);
            out.extend(head(3, s.len() as u64));
            out.extend_from_slice(s.as_bytes());
        }
        4 => out.push(*r.pick(&[0xf4u8, 0xf5, 0xf6])),
        5 => {
            // canonical non-integral floats at each width
            let fs: [&[u8]; 7] = [
                &[0xf9, 0x38, 0x00],             // 0.5
                &[0xf9, 0x7c, 0x00],             // +inf
                &[0xf9, 0xfc, 0x00],             // -inf
                &[0xf9, 0x7e, 0x00],             // NaN
                &[0xf9, 0x00, 0x01],             // smallest f16 subnormal
                &[0xfa, 0x3d, 0xcc, 0xcc, 0xcd], // 0.1f32
                &[0xfb, 0x3f, 0xb9, 0x99, 0x99, 0x99, 0x99, 0x99, 0x9a], // 0.1f64
            ];
            out.extend_from_slice(fs[r.below(7) as usize]);
        }
        6 | 7 | 8 | 9 => {
            let n = r.below(4);
            out.extend(head(4, n));
            for _ in 0..n {
                gen_item(r, depth.saturating_sub(1), out);
            }
        }
        _ => {
            // map with strictly increasing small-int keys (canonical); sometimes text keys
            let n = r.below(4);
            out.extend(head(5, n));
            let mut keys: Vec<Vec<u8>> = Vec::new();
            let mut k = 0u64;
            for _ in 0..n {
                k += 1 + r.below(30);
                keys.push(head(0, k));
            }
            keys.sort();
            for kb in keys {
                out.extend(kb);
                gen_item(r, depth.saturating_sub(1), out);
            }
        }
    }
}

fn mutate(r: &mut Rng, b: &[u8]) -> Vec<u8> {
    let mut v = b.to_vec();
    match r.below(7) {
        0 if !v.is_empty() => {
            let i = r.below(v.len() as u64) as usize;
            v[i] ^= 1 << r.below(8);
        }
        1 if !v.is_empty() => {
            let i = r.below(v.len() as u64) as usize;
            v[i] = r.next() as u8;
        }
        2 if !v.is_empty() => {
            v.truncate(r.below(v.len() as u64) as usize);
        }
        3 => {
            let i = r.below(v.len() as u64 + 1) as usize;
            v.insert(i, r.next() as u8);
        }
        4 if !v.is_empty() => {
            let i = r.below(v.len() as u64) as usize;
            v.remove(i);
        }
        5 if !v.is_empty() => {
            // turn some byte into a wide container/string head with a huge declared length
            let i = r.below(v.len() as u64) as usize;
            let major = *r.pick(&[2u8, 3, 4, 5]);
            let info = *r.pick(&[24u8, 25, 26, 27]);
            let n = *r.pick(&[0xffu64, 0xffff, 0x10000, 0xffff_ffff, 1 << 32, 1 << 40, u64::MAX >> 1, u64::MAX]);
            let h = head_w(major, info, n);
            v.splice(i..=i, h);
        }
        _ => {
            let n = 1 + r.below(3) as usize;
            v.extend(r.bytes(n));
        }
    }
    v
}

fn gen_abi(r: &mut Rng, tier: Tier) -> Vec<String> {
    let thorough = tier == Tier::Thorough;
    let mut out: Vec<String> = Vec::new();
    // 1. random short byte strings
    for _ in 0..(if thorough { 4000 } else { 500 }) {
        let n = r.below(12) as usize;
        out.push(hx(&r.bytes(n)));
    }
    // 2. every single byte, every float head followed by random payload
    for b in 0..=255u8 {
        out.push(hx(&[b]));
    }
    for _ in 0..(if thorough { 3000 } else { 400 }) {
        let w = *r.pick(&[0xf9u8, 0xfa, 0xfb]);
        let n = match w {
            0xf9 => 2,
            0xfa => 4,
            _ => 8,
        };
        let mut v = vec![w];
        let mut p = r.bytes(n);
        // bias towards structured patterns: few mantissa bits, boundary exponents
        if r.chance(2, 3) {
            for x in p.iter_mut().skip(2) {
                if r.chance(3, 4) {
                    *x = 0;
                }
            }
        }
        if r.chance(1, 4) {
            p[0] = *r.pick(&[0x00u8, 0x80, 0x7f, 0xff, 0x7c, 0xfc, 0x7e, 0x3f, 0x40, 0x47, 0x43, 0x41, 0xc7, 0x38, 0x33]);
        }
        v.extend(p);
        out.push(hx(&v));
    }
    // 3. valid values and their mutations
    for _ in 0..(if thorough { 4000 } else { 500 }) {
        let mut v = Vec::new();
        gen_item(r, 3, &mut v);
        out.push(hx(&v));
        let m = mutate(r, &v);
        out.push(hx(&m));
        if r.chance(1, 2) {
            let m2 = mutate(r, &m);
            out.push(hx(&m2));
        }
    }
    // 4. huge declared lengths at every head width, for bytes/text/array/map, with short tails
    let lens: [u64; 12] = [0, 23, 24, 0xff, 0x100, 0xffff, 0x1_0000, 0x00ff_ffff, 0xffff_ffff, 1 << 32, 0x0000_00ff_ffff_ffff, u64::MAX];
    for major in [2u8, 3, 4, 5] {
        for info in [24u8, 25, 26, 27] {
            for n in lens {
                let h = head_w(major, info, n);
                for tail in [0usize, 1, 7] {
                    out.push(format!("{} {}", hx(&h), if tail == 0 { "-".to_string() } else { format!("00*{tail}") }));
                }
            }
        }
    }
    // nested lying heads: every level claims far more than is left
    for k in [2usize, 16, 100, 127, 128, 129, 300] {
        for m in [0usize, 64, 4096, if thorough { 1 << 20 } else { 60000 }] {
            out.push(format!("9a00010000*{k} 00*{m}"));
            out.push(format!("ba00010000*{k} 00*{m}"));
            out.push(format!("9a000fffff*{k} 00*{m}"));
        }
    }
    // wide flat honest containers
    for n in [24u64, 255, 256, 65535, 65536, if thorough { 1_000_000 } else { 60000 }] {
        out.push(format!("{} 00*{n}", hx(&head(4, n))));
        out.push(format!("{} f6*{}", hx(&head(4, n)), n - 1));
        out.push(format!("{} 61*{n}", hx(&head(3, n))));
        out.push(format!("{} ff*{n}", hx(&head(3, n))));
        out.push(format!("{} ab*{n}", hx(&head(2, n))));
    }
    // 5. nesting: arrays, maps through the value, maps through the key — to the input size
    let mut depths: Vec<usize> = vec![1, 2, 16, 64, 100, 126, 127, 128, 129, 130, 255, 256, 257, 1000, 5000, 20000, 65536];
    if thorough {
        depths.extend([200_000, 1 << 20]);
    }
    for d in depths {
        out.push(format!("81*{d} f6"));
        out.push(format!("81*{d}"));
        // two bytes per level: keep the whole input within 1 MiB
        let d = d.min(500_000);
        out.push(format!("a100*{d} 01"));
        out.push(format!("a1*{d} 00*{}", d + 1));
        out.push(format!("8201*{d} 02"));
        out.push(format!("9818*{d}"));
    }
    out
}

fn gen_edict(r: &mut Rng, tier: Tier) -> Vec<String> {
    let thorough = tier == Tier::Thorough;
    // the ABI generator's byte strings are just as relevant here (same CBOR core); floats become
    // unsupported-cbor. Drop the 1 Mi-element flat cases' duplicates to keep the model's O(n²) key check cheap.
    let mut out = gen_abi(r, tier);
    // node budget: cumulative reservations across nested/sibling containers, around 65 536
    for (k, n) in [(1usize, 65535u64), (1, 65536), (2, 32768), (2, 32767), (3, 21845), (3, 21846), (16, 4096), (16, 4095), (100, 655), (128, 512), (100, 60000), (128, 65000)] {
        // k nested arrays each declaring n elements, then enough null bytes to satisfy `declared <= remaining`
        out.push(format!("{}*{k} f6*{}", hx(&head(4, n)), n + 8));
        out.push(format!("{}*{k} f6*{}", hx(&head(5, n / 2)), n + 8));
    }
    // a flat array that spends the node budget exactly / one over (charge_nodes)
    for n in [65534u64, 65535, 65536, 70000] {
        out.push(format!("{} f6*{n}", hx(&head(4, n))));
    }
    // sibling containers: 8 arrays of 8000 nulls inside one array
    out.push(format!("88 {}", format!("{} f6*8000 ", hx(&head(4, 8000))).repeat(8).trim_end()));
    out.push(format!("89 {}", format!("{} f6*8000 ", hx(&head(4, 8000))).repeat(9).trim_end()));
    // canonical / non-canonical maps and duplicate keys through non-minimal key encodings
    for s in [
        "a2 01 02 03 04", "a2 03 04 01 02", "a2 01 02 01 03", "a2 01 02 1801 03", "a2 1801 02 01 03", "a2 6161 01 6162 02",
        "a2 6162 01 6161 02", "a2 0a 01 6161 02", "a2 6161 01 0a 02", "a1 a1 01 02 03", "a2 80 01 a0 02", "a2 a0 01 80 02",
        "1817", "1818", "190018", "1a00000001", "1b0000000000000001", "3b ffffffffffffffff", "1b ffffffffffffffff",
        "58 01 41", "5801 41", "78 02 c3a9", "62 c328", "82 01", "81 01 01", "f7", "f8 20", "f9 3c00", "c0 00", "5f", "9f ff", "1c", "1f",
    ] {
        out.push(s.to_string());
    }
    let _ = thorough;
    out
}

fn le_doc(r: &mut Rng, big: bool) -> Vec<u8> {
    let u32le = |n: u32| n.to_le_bytes().to_vec();
    let mut v = vec![r.next() as u8];
    let name = *r.pick(&TEXTS);
    v.extend(u32le(name.len() as u32));
    v.extend_from_slice(name.as_bytes());
    let n_items = if big { r.range(50, 400) } else { r.below(4) } as u32;
    v.extend(u32le(n_items));
    for _ in 0..n_items {
        v.push(r.below(3) as u8);
        v.push(r.below(2) as u8);
        let nv = r.below(4) as u32;
        v.extend(u32le(nv));
        v.extend(r.bytes(2 * nv as usize));
        if r.chance(1, 2) {
            v.push(0);
        } else {
            v.push(1);
            let l = *r.pick(&["", "a", "héllo", "0123456789abcdef"]);
            v.extend(u32le(l.len() as u32));
            v.extend_from_slice(l.as_bytes());
        }
    }
    if r.chance(1, 2) {
        v.push(0);
    } else {
        v.push(1);
        let ne = r.below(5) as u32;
        v.extend(u32le(ne));
        v.extend(r.bytes(4 * ne as usize));
    }
    let nb = r.below(8) as u32;
    v.extend(u32le(nb));
    v.extend(r.bytes(nb as usize));
    v
}

fn gen_le(r: &mut Rng, tier: Tier) -> Vec<String> {
    let thorough = tier == Tier::Thorough;
    let mut out = Vec::new();
    for _ in 0..(if thorough { 3000 } else { 300 }) {
        let n = r.below(24) as usize;
        out.push(hx(&r.bytes(n)));
    }
    for i in 0..(if thorough { 4000 } else { 600 }) {
        let d = le_doc(r, i % 50 == 49);
        out.push(hx(&d));
        // structure-aware mutations: flip/insert/delete/truncate, and overwrite a u32 with a huge count
        let mut m = mutate(r, &d);
        out.push(hx(&m));
        if m.len() >= 4 {
            let i = r.below(m.len() as u64 - 3) as usize;
            let huge = *r.pick(&[0xffff_ffffu32, 0x7fff_ffff, 0x0100_0000, 0x0001_0000, 1025, 65, 17]);
            m[i..i + 4].copy_from_slice(&huge.to_le_bytes());
            out.push(hx(&m));
        }
    }
    // lying counts at every list position, with tails of every shape
    let pre = "07 00000000"; // tag, empty name
    for c in ["ffffffff", "ffffff7f", "00000001", "00000100", "10270000"] {
        for tail in ["-", "00*3", "00*64", "0000 ffffffff", "0000 ffffffff 00*40", if thorough { "00*1000000" } else { "00*60000" }] {
            out.push(format!("{pre} {c} {tail}"));
            // first item honest, its vals list lies
            out.push(format!("{pre} 02000000 0001 {c} {tail}"));
            // extra list lies
            out.push(format!("{pre} 00000000 01 {c} {tail}"));
        }
    }
    // many items each with a lying inner list: only the first can lie, the rest are never reached
    out.push(format!("{pre} 00010000 {}", "0001ffffffff ".repeat(200).trim_end()));
    // honest wide lists
    for n in [1000u32, if thorough { 200_000 } else { 20_000 }] {
        out.push(format!("{pre} {} 000000000000*{n} 00 00000000", hx(&n.to_le_bytes())));
        out.push(format!("{pre} 00000000 01 {} deadbeef*{n} 00000000", hx(&n.to_le_bytes())));
    }
    out
}

// ---- generators for the model-less decoders ----------------------------------------------------

fn generic_bytes(r: &mut Rng, n_cases: usize, max_len: u64) -> Vec<String> {
    (0..n_cases)
        .map(|_| {
            let n = r.below(max_len) as usize;
            hx(&r.bytes(n))
        })
        .collect()
}

fn with_mutations(r: &mut Rng, seeds: &[Vec<u8>], per_seed: usize) -> Vec<String> {
    let mut out = Vec::new();
    for s in seeds {
        out.push(hx(s));
        for k in 0..s.len().min(40) {
            out.push(hx(&s[..s.len() * k / 40])); // truncated tails
        }
        for _ in 0..per_seed {
            let mut m = mutate(r, s);
            if r.chance(1, 3) {
                m = mutate(r, &m);
            }
            out.push(hx(&m));
            // overwrite an aligned u64/u32 with a huge little-endian value (lying lengths / offsets)
            if m.len() >= 8 {
                let i = (r.below(m.len() as u64 - 7) as usize) & !3;
                let huge = *r.pick(&[u64::MAX, u64::MAX >> 1, 1 << 40, 1 << 32, 0xffff_ffff, 0x7fff_ffff, m.len() as u64, m.len() as u64 + 1, 0x1000]);
                let w = if r.chance(1, 2) { 8 } else { 4 };
                m[i..i + w].copy_from_slice(&huge.to_le_bytes()[..w]);
                out.push(hx(&m));
            }
        }
    }
    out
}

fn ingress_seeds(r: &mut Rng) -> Vec<Vec<u8>> {
    use warp_core::{IngressEnvelope, IngressTarget};
    let mut v = Vec::new();
    for i in 0..6u8 {
        let target = match i % 3 {
            0 => IngressTarget::DefaultWriter { worldline_id: warp_core::WorldlineId::from_bytes([i; 32]) },
            1 => IngressTarget::InboxAddress {
                worldline_id: warp_core::WorldlineId::from_bytes([i; 32]),
                inbox: warp_core::InboxAddress("orders".to_string()),
            },
            _ => IngressTarget::ExactHead {
                key: warp_core::WriterHeadKey {
                    worldline_id: warp_core::WorldlineId::from_bytes([i; 32]),
                    head_id: warp_core::HeadId::from_bytes([7; 32]),
                },
            },
        };
        let n = r.below(40) as usize;
        let env = IngressEnvelope::local_intent(target, warp_core::IntentKind::from_hash([9; 32]), r.bytes(n));
        v.push(env.to_retained_bytes_v2());
    }
    v
}

fn gen_ingress(r: &mut Rng, tier: Tier) -> Vec<String> {
    let t = tier == Tier::Thorough;
    let mut out = generic_bytes(r, if t { 2000 } else { 200 }, 80);
    let seeds = ingress_seeds(r);
    out.extend(with_mutations(r, &seeds, if t { 400 } else { 40 }));
    // hand-made v2 heads with lying parent counts / inbox / intent lengths
    let magic = hx(&seeds[0][..8]);
    for c in ["ffffffffffffffff", "ffffffffffffff7f", "0000000001000000", "1000000000000000", "0100000000000000"] {
        for tail in ["-", "01*41", "01*500", "00*60000"] {
            out.push(format!("{magic} 01 11*32 {c} {tail}"));
            out.push(format!("{magic} 02 11*32 {c} {tail}"));
            out.push(format!("{magic} 01 11*32 0000000000000000 01 22*32 {c} {tail}"));
        }
    }
    out
}

fn disk_record(kind: u8, payload: &[u8], declared: Option<u64>) -> Vec<u8> {
    let mut h = blake3::Hasher::new();
    h.update(b"echo:causal_wal:disk_record:v1\0");
    h.update(&[kind]);
    h.update(&(payload.len() as u64).to_le_bytes());
    h.update(payload);
    let mut v = b"ECWALR1!".to_vec();
    v.push(kind);
    v.extend_from_slice(&declared.unwrap_or(payload.len() as u64).to_le_bytes());
    v.extend_from_slice(payload);
    v.extend_from_slice(h.finalize().as_bytes());
    v
}

fn gen_walseg(r: &mut Rng, tier: Tier) -> Vec<String> {
    let t = tier == Tier::Thorough;
    let mut out = generic_bytes(r, if t { 1000 } else { 100 }, 64);
    // correctly framed + digested records around arbitrary payloads: reaches decode_frame / decode_commit
    for _ in 0..(if t { 6000 } else { 700 }) {
        let mut seg = Vec::new();
        for _ in 0..r.range(1, 3) {
            let kind = *r.pick(&[1u8, 1, 2, 2, 0, 3, 255]);
            let n = *r.pick(&[0u64, 1, 8, 31, 32, 33, 64, 100, 200, 400]) + r.below(8);
            let mut p = r.bytes(n as usize);
            // sprinkle small little-endian counts / huge lengths, as a frame header would have
            for _ in 0..r.below(4) {
                if p.len() >= 8 {
                    let i = r.below(p.len() as u64 - 7) as usize;
                    let val = *r.pick(&[0u64, 1, 2, 3, 32, u64::MAX, 1 << 32, 0xffff_ffff, p.len() as u64]);
                    p[i..i + 8].copy_from_slice(&val.to_le_bytes());
                }
            }
            seg.extend(disk_record(kind, &p, None));
        }
        out.push(hx(&seg));
        out.push(hx(&mutate(r, &seg)));
    }
    // lying record lengths (torn-tail classification must not slice out of bounds)
    for d in [u64::MAX, u64::MAX - 31, u64::MAX - 32, u64::MAX - 40, 1 << 63, 1 << 32, 1000, 33, 32, 1, 0] {
        for n in [0usize, 1, 31, 32, 33, 100] {
            out.push(hx(&disk_record(1, &vec![0xabu8; n], Some(d))));
            let mut two = disk_record(2, &[], None);
            two.extend(disk_record(1, &vec![0u8; n], Some(d)));
            out.push(hx(&two));
        }
    }
    out
}

fn gen_walpayload(r: &mut Rng, tier: Tier) -> Vec<String> {
    let t = tier == Tier::Thorough;
    let mut out = generic_bytes(r, if t { 3000 } else { 300 }, 200);
    // 32-byte-hash shaped payloads with small tags/counts and lying lengths in between
    for _ in 0..(if t { 8000 } else { 900 }) {
        let mut p = Vec::new();
        for _ in 0..r.range(1, 8) {
            match r.below(5) {
                0 => p.extend(r.bytes(32)),
                1 => p.push(r.below(6) as u8),
                2 => p.extend_from_slice(&r.pick(&[0u64, 1, 2, 3, 32, 64, u64::MAX, 1 << 32, 0xffff_ffff]).to_le_bytes()),
                3 => p.extend_from_slice(&(r.below(4) as u32).to_le_bytes()),
                _ => {
                    let n = r.below(20) as usize;
                    p.extend(r.bytes(n));
                }
            }
        }
        out.push(hx(&p));
    }
    out
}

fn wsc_seeds(r: &mut Rng) -> Vec<Vec<u8>> {
    use warp_core::{make_edge_id, make_node_id, make_type_id, make_warp_id, AtomPayload, AttachmentValue, EdgeRecord, GraphStore, NodeRecord};
    let mut v = Vec::new();
    for k in 0..4u32 {
        let mut g = GraphStore::new(make_warp_id("c13"));
        let n_nodes = 1 + k as usize * 2;
        let ids: Vec<_> = (0..n_nodes).map(|i| make_node_id(&format!("n{i}"))).collect();
        for id in &ids {
            g.insert_node(*id, NodeRecord { ty: make_type_id("t") });
        }
        for i in 0..n_nodes.saturating_sub(1) {
            let e = EdgeRecord { id: make_edge_id(&format!("e{i}")), from: ids[i], to: ids[i + 1], ty: make_type_id("et") };
            g.insert_edge(ids[i], e.clone());
            if i % 2 == 0 {
                let n = r.below(20) as usize;
                g.set_edge_attachment(e.id, Some(AttachmentValue::Atom(AtomPayload::new(make_type_id("a"), r.bytes(n).into()))));
            }
        }
        let n = r.below(30) as usize;
        g.set_node_attachment(ids[0], Some(AttachmentValue::Atom(AtomPayload::new(make_type_id("a"), r.bytes(n).into()))));
        let input = warp_core::wsc::build_one_warp_input(&g, ids[0]);
        if let Ok(bytes) = warp_core::wsc::write_wsc_one_warp(&input, [3; 32], u64::from(k)) {
            v.push(bytes);
        }
    }
    v
}

fn gen_wsc(r: &mut Rng, tier: Tier) -> Vec<String> {
    let t = tier == Tier::Thorough;
    let mut out = generic_bytes(r, if t { 500 } else { 60 }, 300);
    let seeds = wsc_seeds(r);
    out.extend(with_mutations(r, &seeds, if t { 1500 } else { 150 }));
    // every aligned u64 of the smallest seed overwritten by a lying offset/count, one at a time
    if let Some(s) = seeds.first() {
        for off in (0..s.len().saturating_sub(7).min(if t { 4096 } else { 512 })).step_by(8) {
            for val in [u64::MAX, u64::MAX - 7, 1 << 62, s.len() as u64, s.len() as u64 - 1, s.len() as u64 + 1, 1 << 32] {
                let mut m = s.clone();
                m[off..off + 8].copy_from_slice(&val.to_le_bytes());
                out.push(hx(&m));
            }
        }
    }
    out
}

fn gen_dto(r: &mut Rng, tier: Tier) -> Vec<String> {
    // everything the ABI CBOR generator makes is a candidate DTO payload; add EINT envelopes
    let t = tier == Tier::Thorough;
    let mut out: Vec<String> = gen_abi(r, tier).into_iter().filter(|s| s.len() < 400).collect();
    let mut seeds = Vec::new();
    if let Ok(b) = echo_wasm_abi::pack_intent_v1(7, b"vars") {
        seeds.push(b);
    }
    for _ in 0..4 {
        let n = r.below(30) as usize;
        if let Ok(b) = echo_wasm_abi::pack_intent_v1(r.next() as u32, &r.bytes(n)) {
            seeds.push(b);
        }
    }
    out.extend(with_mutations(r, &seeds, if t { 300 } else { 40 }));
    // DTO-shaped CBOR: maps with text keys of the DTOs, wrong value types, deep values under a key
    for s in [
        "a2 626964 6161 666669656c6473 a0", "a2 656e6f646573 a0 656564676573 80", "a2 656e6f646573 81*200 656564676573 80",
        "a1 656e6f646573 a1*130 00*131", "a1 656564676573 9a00100000", "a1 656564676573 9b000000ffffffffff",
    ] {
        out.push(s.to_string());
    }
    out
}

fn gen_elog(r: &mut Rng, tier: Tier) -> Vec<String> {
    let t = tier == Tier::Thorough;
    let mut out = generic_bytes(r, if t { 500 } else { 60 }, 80);
    let mut hdr = Vec::new();
    let _ = echo_wasm_abi::write_elog_header(&mut hdr, &echo_wasm_abi::ElogHeader { schema_hash: [5; 32], flags: 0 });
    let h = hx(&hdr);
    for len in [0u32, 1, 4, 1000, (10 << 20) - 1, 10 << 20, (10 << 20) + 1, u32::MAX, 0x7fff_ffff] {
        for tail in ["-", "00*1", "00*4", "00*1000"] {
            out.push(format!("{h} {} {tail}", hx(&len.to_le_bytes())));
            out.push(format!("{h} 01000000 aa {} {tail}", hx(&len.to_le_bytes())));
        }
    }
    let seeds = vec![{
        let mut s = hdr.clone();
        for _ in 0..3 {
            let n = r.below(20) as usize;
            let _ = echo_wasm_abi::write_elog_frame(&mut s, &r.bytes(n));
        }
        s
    }];
    out.extend(with_mutations(r, &seeds, if t { 500 } else { 60 }));
    out
}

fn gen_scene(r: &mut Rng, tier: Tier) -> Vec<String> {
    let t = tier == Tier::Thorough;
    // minicbor-based: reuse the ABI byte strings (arrays, maps, huge heads, nesting) and add op-count heads
    let mut out: Vec<String> = gen_abi(r, tier).into_iter().filter(|s| s.len() < 300).collect();
    for n in [0u64, 1, 9_999, 10_000, 10_001, 65_535, 1 << 20, u32::MAX as u64, u64::MAX] {
        for tail in ["-", "00*8", "80*64"] {
            // SceneDelta is an array whose ops member is itself a counted array
            out.push(format!("85 5820 11*32 5820 22*32 00 {} {tail}", hx(&head(4, n))));
            out.push(format!("84 00 {} {tail}", hx(&head(4, n))));
            out.push(format!("{} {tail}", hx(&head(4, n))));
        }
    }
    // valid encodings and their mutations
    use echo_scene_port::{CameraState, HighlightState, NodeKey, SceneDelta, SceneOp};
    let mut seeds = Vec::new();
    for k in [0usize, 1, 5] {
        let mut ops = vec![SceneOp::Clear; k];
        ops.push(SceneOp::RemoveNode { key: NodeKey([k as u8; 32]) });
        seeds.push(echo_scene_codec::encode_scene_delta(&SceneDelta { session_id: [1; 32], cursor_id: [2; 32], epoch: k as u64, ops }));
    }
    seeds.push(echo_scene_codec::encode_camera_state(&CameraState::default()));
    seeds.push(echo_scene_codec::encode_highlight_state(&HighlightState {
        selected_nodes: vec![NodeKey([4; 32]), NodeKey([5; 32])],
        selected_edges: vec![],
        hovered_node: Some(NodeKey([6; 32])),
        hovered_edge: None,
    }));
    out.extend(with_mutations(r, &seeds, if t { 400 } else { 60 }));
    out
}

fn gen_host(r: &mut Rng, tier: Tier) -> Vec<String> {
    let t = tier == Tier::Thorough;
    let mut out = Vec::new();
    // selector byte + payloads from the DTO generator (CBOR requests, EINT envelopes, hostile CBOR)
    let payloads = gen_dto(r, tier);
    for (i, p) in payloads.iter().enumerate() {
        if t || i % 4 == 0 {
            out.push(format!("{:02x} {p}", r.below(3)));
        }
    }
    for sel in ["00", "01", "02"] {
        out.push(sel.to_string());
        out.push(format!("{sel} 9b000000ffffffffff"));
        out.push(format!("{sel} 81*65536 f6"));
        out.push(format!("{sel} a100*20000 01"));
    }
    out
}

/// imp for a decoder without a cost model: the only claim is totality within the allocation bound.
fn imp_total(codec: &str, t: &mut Toks) -> Result<String, String> {
    let segs = rest(t);
    let len = expand(&segs)?.len();
    let o = observe(codec, &segs)?;
    if !o.survived {
        return Ok(o.class);
    }
    if o.class.starts_with("panic") {
        return Ok("panic".into());
    }
    Ok(format!("total {}", alloc_bucket(codec, len, &o)))
}

macro_rules! total_stream {
    ($imp:ident, $orc:ident, $codec:literal) => {
        fn $imp(t: &mut Toks) -> Result<String, String> {
            imp_total($codec, t)
        }
        fn $orc(t: &mut Toks, _tier: Tier) -> Result<OracleOut, String> {
            oracle_codec($codec, t)
        }
    };
}
total_stream!(imp_ingress, oracle_ingress, "ingress");
total_stream!(imp_walseg, oracle_walseg, "walseg");
total_stream!(imp_walpayload, oracle_walpayload, "walpayload");
total_stream!(imp_wsc, oracle_wsc, "wsc");
total_stream!(imp_dto, oracle_dto, "dto");
total_stream!(imp_elog, oracle_elog, "elog");
total_stream!(imp_scene, oracle_scene, "scene");
total_stream!(imp_host, oracle_host, "host");

fn imp_le(t: &mut Toks) -> Result<String, String> {
    imp_codec("le", t)
}
fn oracle_le(t: &mut Toks, _tier: Tier) -> Result<OracleOut, String> {
    oracle_codec("le", t)
}

fn imp_edict(t: &mut Toks) -> Result<String, String> {
    imp_codec("edict", t)
}
fn oracle_edict(t: &mut Toks, _tier: Tier) -> Result<OracleOut, String> {
    oracle_codec("edict", t)
}

fn imp_abi(t: &mut Toks) -> Result<String, String> {
    imp_codec("abi", t)
}
fn oracle_abi(t: &mut Toks, _tier: Tier) -> Result<OracleOut, String> {
    oracle_codec("abi", t)
}

pub fn streams() -> Vec<Stream> {
    vec![
        Stream { name: "C13.abi.cost", gen: gen_abi, imp: imp_abi, oracle: oracle_abi },
        Stream { name: "C13.edict.cost", gen: gen_edict, imp: imp_edict, oracle: oracle_edict },
        Stream { name: "C13.le.cost", gen: gen_le, imp: imp_le, oracle: oracle_le },
        Stream { name: "C13.ingress.total", gen: gen_ingress, imp: imp_ingress, oracle: oracle_ingress },
        Stream { name: "C13.walseg.total", gen: gen_walseg, imp: imp_walseg, oracle: oracle_walseg },
        Stream { name: "C13.walpayload.total", gen: gen_walpayload, imp: imp_walpayload, oracle: oracle_walpayload },
        Stream { name: "C13.wsc.total", gen: gen_wsc, imp: imp_wsc, oracle: oracle_wsc },
        Stream { name: "C13.dto.total", gen: gen_dto, imp: imp_dto, oracle: oracle_dto },
        Stream { name: "C13.elog.total", gen: gen_elog, imp: imp_elog, oracle: oracle_elog },
        Stream { name: "C13.scene.total", gen: gen_scene, imp: imp_scene, oracle: oracle_scene },
        Stream { name: "C13.host.total", gen: gen_host, imp: imp_host, oracle: oracle_host },
    ]
}
