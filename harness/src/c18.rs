//! C18 — materialized output is independent of emission order.
//! Real code: `MaterializationBus`, `ReduceOp::apply`, `compute_emissions_digest`.
use crate::prng::Rng;
use crate::util::{hex, small_id, Toks};
use crate::{OracleOut, Stream, Tier};
use warp_core::compute_emissions_digest;
use warp_core::materialization::{ChannelPolicy, EmitKey, MaterializationBus, ReduceOp};
use warp_core::TypeId;

pub fn streams() -> Vec<Stream> {
    vec![
        Stream { name: "C18.bus", gen: gen_bus, imp: imp_bus, oracle: oracle_bus },
        Stream { name: "C18.reduce", gen: gen_reduce, imp: imp_reduce, oracle: oracle_reduce },
    ]
}

const OPS: [(&str, ReduceOp); 8] = [
    ("sum", ReduceOp::Sum),
    ("max", ReduceOp::Max),
    ("min", ReduceOp::Min),
    ("bitor", ReduceOp::BitOr),
    ("bitand", ReduceOp::BitAnd),
    ("first", ReduceOp::First),
    ("last", ReduceOp::Last),
    ("concat", ReduceOp::Concat),
];

fn op_of(s: &str) -> Result<ReduceOp, String> {
    OPS.iter().find(|(n, _)| *n == s).map(|(_, o)| *o).ok_or_else(|| format!("bad op {s}"))
}

fn policy_of(s: &str) -> Result<ChannelPolicy, String> {
    match s {
        "log" => Ok(ChannelPolicy::Log),
        "strict" => Ok(ChannelPolicy::StrictSingle),
        o => Ok(ChannelPolicy::Reduce(op_of(o)?)),
    }
}

#[derive(Clone)]
struct Emission {
    chan: [u8; 32],
    key: EmitKey,
    data: Vec<u8>,
}

struct BusCase {
    policies: Vec<([u8; 32], ChannelPolicy)>,
    emissions: Vec<Emission>,
}

fn parse_bus(t: &mut Toks) -> Result<BusCase, String> {
    let np = t.num()?;
    let mut policies = Vec::new();
    for _ in 0..np {
        let c = t.id()?;
        let p = policy_of(t.next()?)?;
        policies.push((c, p));
    }
    let ne = t.num()?;
    let mut emissions = Vec::new();
    for _ in 0..ne {
        let chan = t.id()?;
        let scope = t.id()?;
        let rule = t.num()? as u32;
        let subkey = t.num()? as u32;
        let data = t.bytes()?;
        emissions.push(Emission { chan, key: EmitKey::with_subkey(scope, rule, subkey), data });
    }
    if !t.done() {
        return Err("trailing tokens".into());
    }
    Ok(BusCase { policies, emissions })
}

/// Runs the real bus; returns (per-emission results, canonical result string).
fn run_bus(policies: &[([u8; 32], ChannelPolicy)], emissions: &[Emission]) -> (Vec<bool>, String) {
    let mut bus = MaterializationBus::new();
    for (c, p) in policies {
        bus.register_channel(TypeId(*c), *p);
    }
    let mut res = Vec::new();
    for e in emissions {
        res.push(bus.emit(TypeId(e.chan), e.key, e.data.clone()).is_ok());
    }
    let report = bus.finalize();
    let digest = compute_emissions_digest(&report.channels);
    let mut s = String::new();
    s.push_str(&format!("channels {}", report.channels.len()));
    for fc in &report.channels {
        s.push_str(&format!(" {} {}", hex(&fc.channel.0), hex(&fc.data)));
    }
    s.push_str(&format!(" ; errors {}", report.errors.len()));
    for c in &report.errors {
        s.push_str(&format!(" {} {}", hex(&c.channel.0), c.emission_count));
    }
    s.push_str(&format!(" ; digest {}", hex(&digest)));
    // a second finalize must see an empty bus (pending is cleared)
    let again = bus.finalize();
    s.push_str(&format!(" ; after {}", again.channels.len() + again.errors.len()));
    (res, s)
}

fn imp_bus(t: &mut Toks) -> Result<String, String> {
    let c = parse_bus(t)?;
    let (res, s) = run_bus(&c.policies, &c.emissions);
    let rs: Vec<&str> = res.iter().map(|b| if *b { "ok" } else { "dup" }).collect();
    Ok(format!("{} ; {}", rs.join(" "), s))
}

fn permutations<T: Clone>(xs: &[T], limit: usize, rng: &mut Rng) -> (Vec<Vec<T>>, bool) {
    // all permutations when n! <= limit, otherwise `limit` random shuffles (+ reverse)
    let n = xs.len();
    let mut fact: usize = 1;
    for i in 2..=n {
        fact = fact.saturating_mul(i);
    }
    if fact <= limit {
        let mut out = Vec::new();
        let mut idx: Vec<usize> = (0..n).collect();
        // Heap's algorithm, iterative
        let mut c = vec![0usize; n];
        out.push(idx.iter().map(|&i| xs[i].clone()).collect());
        let mut i = 0;
        while i < n {
            if c[i] < i {
                if i % 2 == 0 {
                    idx.swap(0, i);
                } else {
                    idx.swap(c[i], i);
                }
                out.push(idx.iter().map(|&i| xs[i].clone()).collect());
                c[i] += 1;
                i = 0;
            } else {
                c[i] = 0;
                i += 1;
            }
        }
        (out, true)
    } else {
        let mut out = Vec::new();
        let mut rev: Vec<T> = xs.to_vec();
        rev.reverse();
        out.push(rev);
        for _ in 0..limit.min(24) {
            let mut v = xs.to_vec();
            rng.shuffle(&mut v);
            out.push(v);
        }
        (out, false)
    }
}

fn oracle_bus(t: &mut Toks, tier: Tier) -> Result<OracleOut, String> {
    let c = parse_bus(t)?;
    let mut o = OracleOut::default();
    // the duplicate-free emission set: first occurrence of each (channel, key)
    let mut set: Vec<Emission> = Vec::new();
    let mut had_dup = false;
    for e in &c.emissions {
        if set.iter().any(|x| x.chan == e.chan && x.key == e.key) {
            had_dup = true;
        } else {
            set.push(e.clone());
        }
    }
    let (res0, base) = run_bus(&c.policies, &set);
    if res0.iter().any(|b| !*b) {
        o.fails.push(("C18.unique-rejected".into(), "an emission with a fresh (channel,key) was rejected".into()));
    }
    let mut rng = Rng::new(set.len() as u64 * 7919 + 13);
    let limit = if tier == Tier::Thorough { 5040 } else { 120 };
    let (perms, exhaustive) = permutations(&set, limit, &mut rng);
    for p in &perms {
        let (_, s) = run_bus(&c.policies, p);
        if s != base {
            o.fails.push((
                "C18.order-dependence".into(),
                format!("permuted emission order changed the finalized output: {base} vs {s}"),
            ));
            break;
        }
    }
    // a repeated (channel,key) is rejected whatever its payload and changes nothing
    for (i, e) in set.iter().enumerate() {
        for variant in 0..2 {
            let mut with_dup = set.clone();
            let mut d = e.clone();
            if variant == 1 {
                d.data.push(0xEE);
            }
            with_dup.insert((i + 1 + (i * 3) % (set.len() - i)).min(set.len()), d);
            // ensure the duplicate comes after the original
            let (res, s) = run_bus(&c.policies, &with_dup);
            let rejected = res.iter().filter(|b| !**b).count();
            if rejected != 1 || s != base {
                o.fails.push((
                    "C18.duplicate-merged".into(),
                    format!("repeated (channel,key) not rejected cleanly (rejected={rejected})"),
                ));
            }
        }
    }
    let strict_conflict = base.contains("errors 1") || base.contains("errors 2") || base.contains("errors 3");
    o.tags.push(format!("emissions={}", set.len().min(9)));
    if had_dup {
        o.tags.push("has-dup".into());
    }
    if strict_conflict {
        o.tags.push("strict-conflict".into());
    }
    if exhaustive {
        o.tags.push("perms-exhaustive".into());
    }
    for (_, p) in &c.policies {
        o.tags.push(match p {
            ChannelPolicy::Log => "pol:log".into(),
            ChannelPolicy::StrictSingle => "pol:strict".into(),
            ChannelPolicy::Reduce(op) => format!("pol:{op:?}").to_lowercase(),
        });
    }
    o.nontrivial = set.len() >= 2;
    Ok(o)
}

fn gen_bus(rng: &mut Rng, tier: Tier) -> Vec<String> {
    let n = if tier == Tier::Thorough { 1500 } else { 250 };
    let pols = ["log", "strict", "sum", "max", "min", "bitor", "bitand", "first", "last", "concat"];
    let mut out = Vec::new();
    for case in 0..n {
        let nchan = rng.range(1, 4);
        let chans: Vec<[u8; 32]> = (0..nchan).map(|i| small_id(1 + i * 3 + rng.below(2))).collect();
        let mut line = String::new();
        // some channels stay unregistered (default policy = Log)
        let reg: Vec<&[u8; 32]> = chans.iter().filter(|_| rng.chance(4, 5)).collect();
        line.push_str(&format!("{}", reg.len()));
        for c in &reg {
            line.push_str(&format!(" {} {}", hex(*c), rng.pick(&pols)));
        }
        let max_em = if tier == Tier::Thorough { 7 } else { 5 };
        let ne = if case % 17 == 0 { rng.range(8, 20) } else { rng.range(0, max_em) };
        line.push_str(&format!(" {ne}"));
        for _ in 0..ne {
            let c = rng.pick(&chans);
            // scopes share long prefixes; differ in first or last byte
            let mut scope = small_id(rng.below(3));
            if rng.chance(1, 4) {
                scope[0] = rng.below(2) as u8;
            }
            let rule = rng.below(3);
            let subkey = if rng.chance(1, 3) { rng.below(3) } else { 0 };
            let len = rng.below(13) as usize;
            let data: Vec<u8> = if rng.chance(1, 3) {
                (0..len).map(|_| *rng.pick(&[0u8, 1, 0xff, 0x80])).collect()
            } else {
                rng.bytes(len)
            };
            line.push_str(&format!(" {} {} {} {} {}", hex(c), hex(&scope), rule, subkey, hex(&data)));
        }
        out.push(line);
    }
    out
}

// ---------------------------------------------------------------- C18.reduce

fn parse_reduce(t: &mut Toks) -> Result<(ReduceOp, Vec<Vec<u8>>), String> {
    let op = op_of(t.next()?)?;
    let n = t.num()?;
    let mut vs = Vec::new();
    for _ in 0..n {
        vs.push(t.bytes()?);
    }
    if !t.done() {
        return Err("trailing tokens".into());
    }
    Ok((op, vs))
}

fn imp_reduce(t: &mut Toks) -> Result<String, String> {
    let (op, vs) = parse_reduce(t)?;
    Ok(format!("{} comm={}", hex(&op.apply(vs)), u8::from(op.is_commutative())))
}

fn oracle_reduce(t: &mut Toks, tier: Tier) -> Result<OracleOut, String> {
    let (op, vs) = parse_reduce(t)?;
    let mut o = OracleOut::default();
    let base = op.apply(vs.clone());
    let mut rng = Rng::new(vs.len() as u64 + 99);
    let limit = if tier == Tier::Thorough { 5040 } else { 120 };
    let (perms, exhaustive) = permutations(&vs, limit, &mut rng);
    let mut order_dependent = false;
    for p in &perms {
        if op.apply(p.clone()) != base {
            order_dependent = true;
            break;
        }
    }
    if op.is_commutative() && order_dependent {
        o.fails.push((
            format!("C18.reducer-not-commutative.{op:?}").to_lowercase(),
            format!("reducer {op:?} is declared commutative but a permutation of {} values changed its result", vs.len()),
        ));
    }
    o.tags.push(format!("op:{op:?}").to_lowercase());
    o.tags.push(format!("values={}", vs.len().min(9)));
    let lens: std::collections::BTreeSet<usize> = vs.iter().map(Vec::len).collect();
    if lens.len() > 1 {
        o.tags.push("unequal-lengths".into());
    }
    if exhaustive {
        o.tags.push("perms-exhaustive".into());
    }
    if order_dependent {
        o.tags.push("order-dependent-observed".into());
    }
    o.nontrivial = vs.len() >= 2;
    Ok(o)
}

fn gen_reduce(rng: &mut Rng, tier: Tier) -> Vec<String> {
    let n = if tier == Tier::Thorough { 4000 } else { 400 };
    let mut out = Vec::new();
    for case in 0..n {
        let (name, _) = OPS[case % OPS.len()];
        let k = if case % 29 == 0 { rng.range(8, 14) } else { rng.range(0, 6) };
        let mut line = format!("{name} {k}");
        for _ in 0..k {
            let len = rng.below(13) as usize;
            let v: Vec<u8> = match rng.below(4) {
                0 => (0..len).map(|_| *rng.pick(&[0u8, 0xff])).collect(),
                1 => {
                    // shared prefix, differing tail: stresses lexicographic max/min
                    let mut v = vec![0x42u8; len];
                    if len > 0 {
                        v[len - 1] = rng.next() as u8;
                    }
                    v
                }
                _ => rng.bytes(len),
            };
            line.push_str(&format!(" {}", hex(&v)));
        }
        out.push(line);
    }
    out
}
