//! Generates the stream registry from the per-property modules src/c*.rs.
use std::io::Write;
fn main() {
    let mut mods: Vec<String> = std::fs::read_dir("src")
        .unwrap()
        .filter_map(|e| e.ok())
        .map(|e| e.file_name().to_string_lossy().to_string())
        .filter(|n| n.ends_with(".rs") && n.starts_with('c') && n[1..3].chars().all(|c| c.is_ascii_digit()))
        .map(|n| n.trim_end_matches(".rs").to_string())
        .collect();
    mods.sort();
    let out = std::path::Path::new(&std::env::var("OUT_DIR").unwrap()).join("registry.rs");
    let mut f = std::fs::File::create(out).unwrap();
    for m in &mods {
        writeln!(f, "#[path = \"{}/src/{}.rs\"] mod {};", env!("CARGO_MANIFEST_DIR"), m, m).unwrap();
    }
    writeln!(f, "fn streams() -> Vec<Stream> {{ let mut v = Vec::new();").unwrap();
    for m in &mods {
        writeln!(f, "    v.extend({}::streams());", m).unwrap();
    }
    writeln!(f, "    v }}").unwrap();
    println!("cargo:rerun-if-changed=src");
}
