#!/bin/bash
# tools/seedrun.sh <tag> [check ids…]      (default: the seed's own property)
# Runs the registered checks against a seeded change WITHOUT touching /repo or /verif's build dirs:
# a private copy of /verif (incl. build caches) at /tmp/sb-seedrun-<tag>/verif whose harness path-deps
# point at a scratch worktree /tmp/sb-seedrun-<tag>/repo with seeded/<tag>/patch.diff applied.
# Results: seeded/<tag>/results/<Cxx>.txt (+ summary line on stdout).  The sandbox is removed afterwards.
set -u
tag="$1"; shift
sd="/verif/seeded/$tag"
[ -f "$sd/patch.diff" ] || { echo "no $sd/patch.diff"; exit 2; }
prop=$(python3 -c "import json;print(json.load(open('$sd/meta.json'))['property'])")
ids="${*:-$prop}"
sb="/tmp/sb-seedrun-$tag"
git -C /repo worktree remove --force "$sb/repo" >/dev/null 2>&1
rm -rf "$sb"; mkdir -p "$sb"
# sources from the last COMMIT of /verif (never a half-edited working tree); build caches from the working tree
mkdir -p "$sb/verif"
git -C /verif archive HEAD | tar -x -C "$sb/verif"
for d in harness/target harness-rel/target lean/.lake; do
  [ -d "/verif/$d" ] && mkdir -p "$sb/verif/$d" && rsync -a "/verif/$d/" "$sb/verif/$d/"
done
cp -n /verif/harness/Cargo.lock "$sb/verif/harness/Cargo.lock" 2>/dev/null; cp -n /verif/harness-rel/Cargo.lock "$sb/verif/harness-rel/Cargo.lock" 2>/dev/null
touch "$sb/verif/harness/build.rs"
sed -i "s#/verif/harness/target#$sb/verif/harness/target#" "$sb/verif/harness/.cargo/config.toml"
sed -i "s#/verif/harness-rel/target#$sb/verif/harness-rel/target#" "$sb/verif/harness-rel/.cargo/config.toml"
git -C /repo worktree add -f --detach "$sb/repo" HEAD >/dev/null 2>&1
sed -i "s#/repo/crates#$sb/repo/crates#g" "$sb/verif/harness/Cargo.toml" "$sb/verif/harness-rel/Cargo.toml"
( cd "$sb/repo" && git apply "$sd/patch.diff" ) || { echo "patch does not apply"; exit 2; }
mkdir -p "$sd/results"
export VERIF_REPO="$sb/repo"
cd "$sb/verif"
for id in $ids; do
  out=$(./bin/check "$id" quick 2>&1); rc=$?
  echo "$out" | tail -40 > "$sd/results/$id.txt"
  echo "exit=$rc" >> "$sd/results/$id.txt"
  # keep the replay(s) named by VIOLATION lines
  for r in $(echo "$out" | grep -o 'replay=[^ ]*' | cut -d= -f2); do
    [ -f "$r" ] && cp "$r" "$sd/results/$(basename "$r")"
  done
  v=$(echo "$out" | grep -c '^VIOLATION')
  nf=$(echo "$out" | grep '^VIOLATION' | grep -c 'no-failing-input-found')
  echo "seed=$tag check=$id exit=$rc violations=$v no-failing-input=$nf"
done
cd /
git -C /repo worktree remove --force "$sb/repo" >/dev/null 2>&1
rm -rf "$sb"
