"""Generated/WalTables.lean — causal_wal.rs byte-level constants (C10, C11): segment-record magic,
disk-record kind tags, digest/checksum domains, record-kind code/label table, valid enum codes."""
from extract_lib import *


def _match_arms_code(body, what):
    """`Self::Name => 7,` arms -> {Name: 7}"""
    arms = dict((n, int(c)) for n, c in re.findall(r"Self::([A-Za-z0-9_]+)\s*=>\s*(\d+)\s*,", body))
    if not arms:
        raise Anchor(f"no `Self::X => n` arms in {what}")
    return arms


def _impl_block(src, ty):
    m = re.search(r"impl\s+" + ty + r"\s*\{", src)
    if not m:
        raise Anchor(f"impl {ty} not found")
    e = balanced(src, m.end() - 1)
    return src[m.end():e - 1]


def _bytes_const(src, name):
    m = re.search(r"const\s+" + name + r"\s*:\s*&\[u8(?:;\s*\d+)?\]\s*=\s*b\"((?:[^\"\\]|\\.)*)\"\s*;", src)
    if not m:
        raise Anchor(f"const {name} not found")
    s = m.group(1)
    out = []
    i = 0
    while i < len(s):
        if s[i] == "\\":
            if s[i + 1] == "0":
                out.append(0); i += 2
            elif s[i + 1] == "x":
                out.append(int(s[i + 2:i + 4], 16)); i += 4
            elif s[i + 1] == "n":
                out.append(10); i += 2
            else:
                raise Anchor(f"unsupported escape in {name}")
        else:
            out.append(ord(s[i])); i += 1
    return out


def _from_codes(src, ty):
    body = fn_body(_impl_block(src, ty), "from_code", ty + "::from_code")
    codes = [int(c) for c in re.findall(r"(\d+)\s*=>\s*Ok\(", body)]
    if not codes:
        raise Anchor(f"{ty}::from_code has no numeric arms")
    return codes


def generate(repo):
    rel = "crates/warp-core/src/causal_wal.rs"
    raw = read(repo, rel)
    # byte-string constants contain `//`-free text, so strip_comments is safe except for b"..//.." (none)
    src = strip_comments(raw)
    rk = _impl_block(src, "WalRecordKind")
    codes = _match_arms_code(fn_body(rk, "stable_code", "WalRecordKind::stable_code"), "stable_code")
    lab_body = fn_body(rk, "label", "WalRecordKind::label")
    labels = dict(re.findall(r"Self::([A-Za-z0-9_]+)\s*=>\s*\{?\s*\"([^\"]*)\"", lab_body))
    variants = enum_variants(src, "WalRecordKind")
    if sorted(variants) != sorted(codes) or sorted(variants) != sorted(labels):
        raise Anchor("WalRecordKind variants / stable_code / label disagree")
    fc = _from_codes(src, "WalRecordKind")
    if sorted(fc) != sorted(codes.values()):
        raise Anchor("WalRecordKind::from_code and stable_code disagree")
    # disk record kind tags in append_segment_record and read_segment_bytes
    app = fn_body(src, "append_segment_record", "append_segment_record")
    mf = re.search(r"DiskWalRecord::Frame\(\w+\)\s*=>\s*\((\d+)u8", app)
    mc = re.search(r"DiskWalRecord::Commit\(\w+\)\s*=>\s*\((\d+)u8", app)
    if not (mf and mc):
        raise Anchor("disk record kind tags not found in append_segment_record")
    rd = fn_body(src, "read_segment_bytes", "read_segment_bytes")
    rf = re.search(r"(\d+)\s*=>\s*frames\.push", rd)
    rc = re.search(r"(\d+)\s*=>\s*commits\.push", rd)
    if not (rf and rc):
        raise Anchor("disk record kind arms not found in read_segment_bytes")
    if (rf.group(1), rc.group(1)) != (mf.group(1), mc.group(1)):
        raise Anchor("writer and reader disagree on disk record kind tags")
    if "+ 1 + 8" not in rd or "checked_add(32)" not in rd:
        raise Anchor("read_segment_bytes header layout (magic + 1 + 8, digest 32) changed")
    doms = {
        "magic": "WAL_SEGMENT_RECORD_MAGIC", "diskDomain": "WAL_DISK_RECORD_DOMAIN",
        "frameDomain": "WAL_FRAME_DOMAIN", "payloadDomain": "WAL_PAYLOAD_DOMAIN",
        "recordsRootDomain": "WAL_RECORDS_ROOT_DOMAIN", "frontiersRootDomain": "WAL_FRONTIERS_ROOT_DOMAIN",
        "commitDomain": "WAL_COMMIT_DOMAIN", "headerChecksumDomain": "WAL_HEADER_CHECKSUM_DOMAIN",
        "frameChecksumDomain": "WAL_FRAME_CHECKSUM_DOMAIN",
    }
    mver = re.search(r"const\s+CAUSAL_WAL_VERSION\s*:\s*u16\s*=\s*(\d+)\s*;", src)
    if not mver:
        raise Anchor("CAUSAL_WAL_VERSION not found")
    out = HEADER.format(src=rel)
    out += "import EchoVerif.Model.Basic\nnamespace EchoVerif.Generated.WalTables\nopen EchoVerif\n"
    for lean, rust in doms.items():
        bs = _bytes_const(raw, rust)
        out += f"/-- `{rust}` -/\ndef {lean} : Bytes := [{', '.join(str(b) for b in bs)}]\n"
    out += f"def frameTag : Nat := {mf.group(1)}\ndef commitTag : Nat := {mc.group(1)}\n"
    out += f"def walVersion : Nat := {mver.group(1)}\n"
    out += "/-- `WalRecordKind`: (stable_code, label) in declaration order. -/\n"
    out += "def recordKinds : List (Nat × String) :=\n  [" + ",\n   ".join(
        f"({codes[v]}, \"{labels[v]}\")" for v in variants) + "]\n"
    for lean, ty in (("txKindCodes", "WalTransactionKind"), ("durabilityCodes", "WalDurabilityMode"),
                     ("compressionCodes", "WalCompressionKind"), ("redactionCodes", "WalRedactionPosture")):
        out += f"/-- codes accepted by `{ty}::from_code` -/\ndef {lean} : List Nat := {_from_codes(src, ty)}\n"
    fk = _match_arms_code(fn_body(_impl_block(src, "AffectedFrontierKind"), "stable_code", "AffectedFrontierKind::stable_code"), "frontier stable_code")
    fv = enum_variants(src, "AffectedFrontierKind")
    if [fk[v] for v in fv] != sorted(fk.values()):
        raise Anchor("AffectedFrontierKind codes are not in declaration order (sort_by_key(kind) would differ from sort by code)")
    out += "end EchoVerif.Generated.WalTables\n"
    return out
