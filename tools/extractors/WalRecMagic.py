"""Generated/WalRecMagic.lean — magics and enum code tables of the WAL payload records (C12):
tick receipt v2, receipt correlation v2, retained material / reading reference postures
(warp-core causal_wal.rs).  The writer table (`fn code`) and the reader table (`fn from_code`) of each
enum must be the same bijection or the extraction fails."""
from extract_lib import *


def impl_body(src, name):
    m = re.search(r"impl\s+" + name + r"\s*\{", src)
    if not m:
        raise Anchor(f"impl {name} not found")
    e = balanced(src, m.end() - 1)
    return src[m.end():e - 1]


def enum_codes(src, name):
    body = impl_body(src, name)
    w = {v: int(n) for v, n in re.findall(r"Self::(\w+)\s*=>\s*(\d+)", fn_body(body, "code", name + "::code"))}
    r = {v: int(n) for n, v in re.findall(r"(\d+)\s*=>\s*Ok\(Self::(\w+)\)", fn_body(body, "from_code", name + "::from_code"))}
    if not w or w != r:
        raise Anchor(f"{name}: writer codes {w} != reader codes {r}")
    if len(set(w.values())) != len(w):
        raise Anchor(f"{name}: duplicate code")
    return sorted(w.values())


def generate(repo):
    src = strip_comments(read(repo, "crates/warp-core/src/causal_wal.rs"))
    out = HEADER.format(src="warp-core/src/causal_wal.rs")
    out += "namespace EchoVerif.Generated.WalRecMagic\n\n"
    for lean, const in (("tickReceiptMagicV2", "WAL_TICK_RECEIPT_MAGIC_V2"),
                        ("receiptCorrelationMagicV2", "WAL_RECEIPT_CORRELATION_MAGIC_V2")):
        m = re.search(const + r'\s*:\s*&\[u8;\s*8\]\s*=\s*b"([A-Za-z0-9]+)"', src)
        if not m:
            raise Anchor(f"{const} not found")
        out += f"def {lean} : List UInt8 := [" + ", ".join(str(b) for b in m.group(1).encode()) + "]\n"
    for lean, enum in (("tickDecisionCodes", "WalTickDecision"),
                       ("materialKindCodes", "RetainedMaterialKind"),
                       ("materialPostureCodes", "EvidenceMaterialPosture")):
        out += f"def {lean} : List Nat := {enum_codes(src, enum)}\n"
    # the correlation reader's canonical-order check is on the derived Ord of the decoded references
    dec = fn_body(impl_body(src, "WalReceiptCorrelationRecord"), "from_payload_bytes", "WalReceiptCorrelationRecord::from_payload_bytes")
    if not re.search(r"\.windows\(2\)\s*\.all\(\|parents\|\s*parents\[0\]\s*<\s*parents\[1\]\)", dec):
        raise Anchor("receipt correlation: strictly-ascending check on decoded parents not found")
    if not re.search(r"parent_count\s*==\s*0", dec):
        raise Anchor("receipt correlation: explicit zero count is not refused")
    out += "\nend EchoVerif.Generated.WalRecMagic\n"
    return out
