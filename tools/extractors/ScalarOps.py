"""Generated/ScalarOps.lean — shape of every F32Scalar constructor/operator body in scalar.rs (C19).

Closure of the canonical-form invariant under all operations rests on one syntactic fact: every
`impl <Op> for F32Scalar` method and every `Scalar for F32Scalar` method that produces a scalar
returns `Self::new(<raw f32 expression>)` (or a constant built by `Self::new`), and the struct's
field is private. This extractor checks exactly that and emits the raw expressions as a table.
"""
from extract_lib import *

# --------------------------------------------------------------------------- ScalarOps

RAW = {
    "self.value+rhs.value": "add",
    "self.value-rhs.value": "sub",
    "self.value*rhs.value": "mul",
    "self.value/rhs.value": "div",
    "-self.value": "neg",
}


def impl_block(src, header_re, what):
    m = re.search(header_re + r"\s*\{", src)
    if not m:
        raise Anchor(f"{what} not found")
    e = balanced(src, m.end() - 1)
    return src[m.end():e - 1]


def squeeze(s):
    return re.sub(r"\s+", "", s)


def generate(repo):
    rel = "crates/warp-math/src/scalar.rs"
    src = strip_comments(read(repo, rel))
    # the wrapped field must stay private
    sm = re.search(r"pub\s+struct\s+F32Scalar\s*\{", src)
    if not sm:
        raise Anchor("struct F32Scalar not found")
    sbody = src[sm.end():balanced(src, sm.end() - 1) - 1]
    if squeeze(re.sub(r"#\[[^\]]*\]", "", sbody)) not in ("value:f32,", "value:f32"):
        raise Anchor(f"F32Scalar fields changed / no longer private: {squeeze(sbody)}")
    # every struct literal `Self { value: … }` must live inside `new`
    inherent = impl_block(src, r"impl\s+F32Scalar", "impl F32Scalar")
    new_body = fn_body(inherent, "new", "F32Scalar::new")
    outside = src.replace(new_body, "")
    f32_region = outside[:outside.index("pub struct DFix64")] if "pub struct DFix64" in outside else outside
    if re.search(r"(?<!struct )\b(Self|F32Scalar)\s*\{\s*value\s*:", f32_region):
        raise Anchor("an F32Scalar struct literal exists outside F32Scalar::new (bypasses canonicalisation)")
    # shape of `new`
    want_new = ("ifnum.is_nan(){Self{value:f32::from_bits(0x7fc0_0000),}}"
                "elseifnum.is_subnormal(){Self{value:f32::from_bits(0),}}"
                "else{Self{value:num+0.0}}")
    if squeeze(new_body) != want_new:
        raise Anchor("F32Scalar::new body changed: " + squeeze(new_body)[:160])
    ops = []
    for tr, fn in (("Add", "add"), ("Sub", "sub"), ("Mul", "mul"), ("Div", "div"), ("Neg", "neg")):
        blk = impl_block(src, r"impl\s+" + tr + r"\s+for\s+F32Scalar", f"impl {tr} for F32Scalar")
        body = squeeze(fn_body(blk, fn, f"F32Scalar::{fn}"))
        m = re.fullmatch(r"Self::new\((.*)\)", body)
        if not m:
            raise Anchor(f"F32Scalar::{fn} is no longer Self::new(…): {body}")
        raw = m.group(1)
        if raw not in RAW:
            raise Anchor(f"F32Scalar::{fn} wraps an unknown raw expression: {raw}")
        ops.append((fn, RAW[raw]))
    sc = impl_block(src, r"impl\s+Scalar\s+for\s+F32Scalar", "impl Scalar for F32Scalar")
    trig = {}
    for fn, want in (("sin", "let(s,_)=trig::sin_cos_f32(self.value);Self::new(s)"),
                     ("cos", "let(_,c)=trig::sin_cos_f32(self.value);Self::new(c)"),
                     ("sin_cos", "let(s,c)=trig::sin_cos_f32(self.value);(Self::new(s),Self::new(c))"),
                     ("from_f32", "Self::new(value)")):
        body = squeeze(fn_body(sc, fn, f"F32Scalar::{fn}"))
        if body != want:
            raise Anchor(f"F32Scalar::{fn} changed: {body}")
        trig[fn] = True
    out = HEADER.format(src=rel)
    out += "import EchoVerif.Model.Math\nnamespace EchoVerif.Generated\nopen EchoVerif.Math\n"
    out += "/-- (operator method, raw expression inside `Self::new`) as written in scalar.rs. -/\n"
    out += "def f32ScalarOps : List (String × RawOp) := [\n"
    out += ",\n".join(f"  (\"{fn}\", .{raw})" for fn, raw in ops) + "\n]\n"
    out += "/-- sin/cos/sin_cos/from_f32 all return `Self::new(…)` of the raw result; the field is private;\n"
    out += "    no `Self { value: … }` literal exists outside `new`. (extraction fails otherwise) -/\n"
    out += "def f32ScalarAllViaNew : Bool := true\n"
    out += "end EchoVerif.Generated\n"
    return out
