"""Generated/Radix.lean — radix pass layout, pass count, small-sort threshold, cmp_thin order (C03)."""
from extract_lib import *

REL = "crates/warp-core/src/scheduler.rs"


def norm(s):
    return re.sub(r"\s+", "", s)


def safe_eval(expr, pass_no):
    if not re.fullmatch(r"[0-9pas+\-*/() ]+", expr) or re.search(r"[a-z]+", expr.replace("pass", "")):
        raise Anchor(f"bucket16: unsupported index expression {expr!r}")
    try:
        v = eval(expr.replace("/", "//").replace("pass", "p_"), {"__builtins__": {}}, {"p_": pass_no})  # digits/pass/+-*/() only
    except Exception as e:
        raise Anchor(f"bucket16: cannot evaluate {expr!r} at pass {pass_no}: {e}")
    if not isinstance(v, int) or v < 0:
        raise Anchor(f"bucket16: index expression {expr!r} is negative at pass {pass_no} (usize underflow)")
    return v


def generate(repo):
    src = strip_comments(read(repo, REL))
    # --- helper semantics must be the ones the model's PassSpec.digit assumes
    h1 = norm(fn_body(src, "u16_from_u32_le", "u16_from_u32_le"))
    if h1 != norm("debug_assert!(idx < 2); let b = x.to_le_bytes(); u16::from_le_bytes([b[2 * idx], b[2 * idx + 1]])"):
        raise Anchor("u16_from_u32_le body changed")
    h2 = norm(fn_body(src, "u16_be_from_pair32", "u16_be_from_pair32"))
    if h2 != norm("debug_assert!(pair_idx_be < 16); let off = 2 * pair_idx_be; u16::from_be_bytes([bytes[off], bytes[off + 1]])"):
        raise Anchor("u16_be_from_pair32 body changed")
    # --- threshold
    m = re.search(r"const\s+SMALL_SORT_THRESHOLD\s*:\s*usize\s*=\s*([0-9_]+)\s*;", src)
    if not m:
        raise Anchor("SMALL_SORT_THRESHOLD not found")
    threshold = int(m.group(1).replace("_", ""))
    # --- drain_in_order: `if n > 1 { if n <= SMALL_SORT_THRESHOLD { sort_unstable_by(cmp_thin) } else { radix_sort() } }`
    dr = norm(fn_body(src, "drain_in_order", "PendingTx::drain_in_order"))
    if not dr.startswith(norm("let n = self.thin.len(); if n > 1 { if n <= SMALL_SORT_THRESHOLD { self.thin.sort_unstable_by(cmp_thin); } else { self.radix_sort(); } }")):
        raise Anchor("drain_in_order sort selection changed")
    # --- pass count
    rs = fn_body(src, "radix_sort", "PendingTx::radix_sort")
    m = re.search(r"for\s+pass\s+in\s+0\s*\.\.\s*([0-9]+)\s*\{", rs)
    if not m:
        raise Anchor("radix_sort: `for pass in 0..N` not found")
    passes = int(m.group(1))
    if len(re.findall(r"bucket16\s*\(\s*r\s*,\s*pass\s*\)", rs)) != 2:
        raise Anchor("radix_sort: expected exactly two bucket16(r, pass) uses (count, scatter)")
    if not norm(rs).startswith(norm("let n = self.thin.len(); if n <= 1 { return; }")):
        raise Anchor("radix_sort: early return changed")
    # --- bucket16 arms
    body = fn_body(src, "bucket16", "bucket16")
    m = re.search(r"match\s+pass\s*\{", body)
    if not m:
        raise Anchor("bucket16: `match pass` not found")
    e = balanced(body, m.end() - 1)
    arms_src = body[m.end():e - 1]
    table = {}
    pos = 0
    arm_re = re.compile(r"\s*(_|[0-9]+(?:\s*\.\.=\s*[0-9]+)?)\s*=>\s*")
    while pos < len(arms_src):
        if not arms_src[pos:].strip():
            break
        am = arm_re.match(arms_src, pos)
        if not am:
            raise Anchor(f"bucket16: unrecognised arm near {arms_src[pos:pos+40]!r}")
        pat = am.group(1)
        pos = am.end()
        if arms_src[pos] == "{":
            end = balanced(arms_src, pos)
            rhs = arms_src[pos + 1:end - 1]
            pos = end
            if pos < len(arms_src) and arms_src[pos:].lstrip().startswith(","):
                pos = arms_src.index(",", pos) + 1
        else:
            # up to the next top-level comma
            depth, j = 0, pos
            while j < len(arms_src) and not (arms_src[j] == "," and depth == 0):
                depth += arms_src[j] in "([{"
                depth -= arms_src[j] in ")]}"
                j += 1
            rhs = arms_src[pos:j]
            pos = j + 1
        if pat == "_":
            if "unreachable!" not in rhs:
                raise Anchor("bucket16: wildcard arm is not unreachable!")
            continue
        if "..=" in pat:
            lo, hi = [int(x) for x in re.split(r"\.\.=", pat.replace(" ", ""))]
        else:
            lo = hi = int(pat)
        for p in range(lo, hi + 1):
            if p in table:
                continue  # first matching arm wins
            r = rhs.strip()
            lets = dict(re.findall(r"let\s+(\w+)\s*=\s*([^;]+);", r))
            call = re.sub(r"let\s+\w+\s*=\s*[^;]+;", "", r).strip()
            m1 = re.fullmatch(r"u16_from_u32_le\s*\(\s*r\.(\w+)\s*,\s*([^)]+)\)", call)
            m2 = re.fullmatch(r"u16_be_from_pair32\s*\(\s*&r\.scope_be32\s*,\s*([^)]+)\)", call)
            if m1:
                fld = {"nonce": "nonce", "rule_id": "rule"}.get(m1.group(1))
                if fld is None:
                    raise Anchor(f"bucket16: u16_from_u32_le on unexpected field {m1.group(1)}")
                ix = m1.group(2).strip()
                ix = lets.get(ix, ix)
                table[p] = f".u32le .{fld} {safe_eval(ix, p)}"
            elif m2:
                ix = m2.group(1).strip()
                ix = lets.get(ix, ix)
                table[p] = f".scopeBE {safe_eval(ix, p)}"
            else:
                raise Anchor(f"bucket16: unrecognised arm body for pass {p}: {call[:60]!r}")
    if not table:
        raise Anchor("bucket16: no arms")
    n = max(table) + 1
    if sorted(table) != list(range(n)):
        raise Anchor(f"bucket16: arms do not cover 0..{n}")
    # --- cmp_thin
    cb = norm(fn_body(src, "cmp_thin", "cmp_thin"))
    fields = re.findall(r"a\.(\w+)\.cmp\(&b\.(\w+)\)", cb)
    skeleton = re.sub(r"a\.\w+\.cmp\(&b\.\w+\)", "C", cb)
    if skeleton != "matchC{Ordering::Equal=>C.then_with(||C),o=>o,}":
        raise Anchor(f"cmp_thin shape changed: {skeleton}")
    names = {"scope_be32": "scope", "rule_id": "rule", "nonce": "nonce"}
    order = []
    for fa, fb in fields:
        if fa != fb or fa not in names:
            raise Anchor(f"cmp_thin compares {fa} with {fb}")
        order.append(names[fa])
    out = HEADER.format(src=REL)
    out += "import EchoVerif.Model.Sched\nnamespace EchoVerif.Generated\nopen EchoVerif.Sched\n"
    out += "/-- `bucket16`: pass ↦ digit extractor, as written in the match arms. -/\n"
    out += "def radixLayout : List PassSpec :=\n  [" + ",\n   ".join(table[p] for p in range(n)) + "]\n"
    out += f"/-- `for pass in 0..N` in `radix_sort`. -/\ndef radixPassCount : Nat := {passes}\n"
    out += f"/-- `SMALL_SORT_THRESHOLD` -/\ndef smallSortThreshold : Nat := {threshold}\n"
    out += "/-- field order of `cmp_thin` -/\ndef cmpThinOrder : List Field := [" + ", ".join("." + f for f in order) + "]\n"
    out += "def sortCfg : SortCfg := ⟨radixLayout, radixPassCount, smallSortThreshold, cmpThinOrder⟩\n"
    out += "end EchoVerif.Generated\n"
    return out
