"""Generated/CostLe.lean — capacity rule of `Reader::read_list` (C13).
Source: crates/echo-wasm-abi/src/codec.rs."""
from extract_lib import *

REL = "crates/echo-wasm-abi/src/codec.rs"


def generate(repo):
    src = strip_comments(read(repo, REL))
    body = re.sub(r"\s+", "", fn_body(src, "read_list", "Reader::read_list"))
    if not body.startswith("letcount=self.read_u32_le()?asusize;"):
        raise Anchor("read_list no longer starts by reading a u32 count")
    caps = re.findall(r"Vec::with_capacity\(([^()]*)\)", body)
    if len(caps) != 1:
        raise Anchor(f"read_list: expected exactly one Vec::with_capacity, found {caps}")
    if "for_in0..count{out.push(decode(self)?);}" not in body:
        raise Anchor("read_list loop changed")
    if caps[0] == "count":
        rule = "declared"
    elif (caps[0] == "initial_capacity"
          and "letremaining=self.bytes.len().saturating_sub(self.offset);" in body
          and re.search(r"letinitial_capacity=(core::cmp::min\(count,remaining\)|count\.min\(remaining\));", body)):
        rule = "capped"
    else:
        raise Anchor(f"read_list: unknown capacity expression {caps[0]}")
    out = HEADER.format(src=REL)
    out += "import EchoVerif.Model.CostLe\nnamespace EchoVerif.Generated\n"
    out += "/-- what `Reader::read_list` passes to `Vec::with_capacity`, as written in the Rust source. -/\n"
    out += f"def leCapRule : EchoVerif.CostLe.CapRule := .{rule}\n"
    out += "end EchoVerif.Generated\n"
    return out
