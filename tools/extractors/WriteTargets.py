"""Generated/WriteTargets.lean — the write-target table of `footprint_guard.rs::op_write_targets`
(per WarpOp variant: attributed node ids / edge ids / attachment keys, instance flag, target warp,
kind string) plus `parallel/merge.rs::extract_target_warp` and `collect_new_warps` (C14)."""
from extract_lib import *

# variant -> (lean constructor pattern, {rust expression -> lean term})
VARS = {
    "UpsertNode": (".upsertNode w i _ty", {"node.local_id": "i", "node.warp_id": "w"}),
    "DeleteNode": (".deleteNode w i", {"node.local_id": "i", "node.warp_id": "w",
                                       "AttachmentKey::node_alpha(*node)": "AttKey.nodeAlpha w i"}),
    "UpsertEdge": (".upsertEdge w id src dst _ty", {"record.from": "src", "record.to": "dst", "record.id": "id",
                                                    "*warp_id": "w"}),
    "DeleteEdge": (".deleteEdge w src id", {"*from": "src", "*edge_id": "id", "*warp_id": "w",
                                            "AttachmentKey::edge_beta(crate::ident::EdgeKey{warp_id:*warp_id,local_id:*edge_id,})": "AttKey.edgeBeta w id",
                                            "AttachmentKey::edge_beta(crate::ident::EdgeKey{warp_id:*warp_id,local_id:*edge_id})": "AttKey.edgeBeta w id"}),
    "SetAttachment": (".setAtt key _v", {"*key": "key", "key.owner.warp_id()": "ownerWarpId key.owner"}),
    "OpenPortal": (".openPortal key cw _cr _init", {"*key": "key", "key.owner.warp_id()": "ownerWarpId key.owner",
                                                    "*child_warp": "cw"}),
    "UpsertWarpInstance": (".upsertInstance inst", {"instance.warp_id": "inst.warp"}),
    "DeleteWarpInstance": (".deleteInstance w", {"*warp_id": "w"}),
}
# merge.rs uses its own binder names
MERGE_VARS = {
    "UpsertNode": {"node.warp_id": "w"}, "DeleteNode": {"node.warp_id": "w"},
    "UpsertEdge": {"*warp_id": "w"}, "DeleteEdge": {"*warp_id": "w"},
    "UpsertWarpInstance": {"instance.warp_id": "inst.warp"}, "DeleteWarpInstance": {"*warp_id": "w"},
}


def squash(s):
    return re.sub(r"\s+", "", s)


def split_top(s):
    out, depth, cur = [], 0, ""
    for ch in s:
        if ch in "({[":
            depth += 1
        elif ch in ")}]":
            depth -= 1
        if ch == "," and depth == 0:
            out.append(cur)
            cur = ""
        else:
            cur += ch
    if cur.strip():
        out.append(cur)
    return [x for x in (squash(y) for y in out) if x]


def arms(body, prefix):
    """[(variant, arm text)] for a `match op { <prefix>::Variant {..} => … }` body."""
    ms = list(re.finditer(prefix + r"::([A-Za-z]+)\s*\{", body))
    res = []
    for i, m in enumerate(ms):
        end = ms[i + 1].start() if i + 1 < len(ms) else len(body)
        res.append((m.group(1), body[m.start():end]))
    return res


def field(seg, name, what):
    m = re.search(r"\b" + name + r"\s*:\s*", seg)
    if not m:
        raise Anchor(f"{what}: field `{name}` not found")
    rest = seg[m.end():]
    # value runs up to the top-level comma
    depth, out = 0, ""
    for ch in rest:
        if ch in "({[":
            depth += 1
        elif ch in ")}]":
            if depth == 0:
                break
            depth -= 1
        if ch == "," and depth == 0:
            break
        out += ch
    return out.strip()


def vec_items(val, what):
    v = squash(val)
    if v == "Vec::new()":
        return []
    m = re.fullmatch(r"vec!\[(.*)\]", v, flags=re.S)
    if not m:
        raise Anchor(f"{what}: unrecognised list expression `{v[:60]}`")
    return split_top(m.group(1))


def tr(expr, table, what):
    e = squash(expr)
    for k, v in table.items():
        if squash(k) == e:
            return v
    raise Anchor(f"{what}: unrecognised expression `{e[:80]}`")


def generate(repo):
    rel = "crates/warp-core/src/footprint_guard.rs"
    src = strip_comments(read(repo, rel))
    # kind strings
    kbody = fn_body(src, "op_kind_str", "op_kind_str")
    kinds = dict(re.findall(r"WarpOp::([A-Za-z]+)\s*\{[^}]*\}\s*=>\s*\"([A-Za-z_]+)\"", kbody))
    if sorted(kinds) != sorted(VARS):
        raise Anchor(f"op_kind_str: variants {sorted(kinds)}")
    body = fn_body(src, "op_write_targets", "op_write_targets")
    al = arms(body, "WarpOp")
    if sorted(v for v, _ in al) != sorted(VARS):
        raise Anchor(f"op_write_targets: arms {[v for v, _ in al]}")
    rows = {}
    for v, seg in al:
        m = re.search(r"=>\s*OpTargets\s*\{", seg)
        if not m:
            raise Anchor(f"op_write_targets arm {v}: no OpTargets literal")
        e = balanced(seg, m.end() - 1)
        lit = seg[m.end():e - 1]
        table = VARS[v][1]
        what = f"op_write_targets arm {v}"
        nodes = [tr(x, table, what) for x in vec_items(field(lit, "nodes", what), what)]
        edges = [tr(x, table, what) for x in vec_items(field(lit, "edges", what), what)]
        atts = [tr(x, table, what) for x in vec_items(field(lit, "attachments", what), what)]
        inst = squash(field(lit, "is_instance_op", what))
        if inst not in ("true", "false"):
            raise Anchor(f"{what}: is_instance_op = {inst}")
        ow = squash(field(lit, "op_warp", what))
        if ow == "None":
            warp = "none"
        else:
            mm = re.fullmatch(r"Some\((.*)\)", ow)
            if not mm:
                raise Anchor(f"{what}: op_warp = {ow}")
            warp = "some (" + tr(mm.group(1), table, what) + ")"
        if "kind_str" not in lit:
            raise Anchor(f"{what}: kind_str missing")
        rows[v] = (nodes, edges, atts, inst, warp)

    # check_op: order of the checks (instance gate, cross-warp, missing warp, nodes, edges, attachments)
    cbody = fn_body(src, "check_op", "FootprintGuard::check_op")
    order = [cbody.find(k) for k in ("UnauthorizedInstanceOp", "CrossWarpEmission", "OpWarpUnknown",
                                     "NodeWriteNotDeclared", "EdgeWriteNotDeclared", "AttachmentWriteNotDeclared")]
    if -1 in order or order != sorted(order):
        raise Anchor("check_op: the six checks are not in the modelled order")
    if not re.search(r"targets\.is_instance_op\s*&&\s*!\s*self\.is_system", cbody):
        raise Anchor("check_op: instance gate `targets.is_instance_op && !self.is_system` not found")
    if not re.search(r"op_warp\s*!=\s*self\.warp_id", cbody):
        raise Anchor("check_op: cross-warp test `op_warp != self.warp_id` not found")
    for setname, coll in (("nodes_write", "nodes"), ("edges_write", "edges"), ("attachments_write", "attachments")):
        if not re.search(r"for\s+\w+\s+in\s+&targets\." + coll + r"\s*\{\s*if\s*!\s*self\." + setname + r"\.contains", cbody):
            raise Anchor(f"check_op: loop over targets.{coll} against self.{setname} not found")

    # state-dependent target: moved_edge_previous_source + check_op_in + its call site in exec.rs
    pbody = squash(fn_body(src, "moved_edge_previous_source", "moved_edge_previous_source"))
    if pbody.strip("{}") != ("ifletWarpOp::UpsertEdge{warp_id,record}=op{if*warp_id==store.warp_id(){returnstore.edge_index"
                             ".get(&record.id).copied().filter(|prev_from|*prev_from!=record.from);}}None"):
        raise Anchor("moved_edge_previous_source: body is not the modelled one "
                     "(UpsertEdge in the store's warp whose id is indexed under a source != record.from)")
    ibody = squash(fn_body(src, "check_op_in", "FootprintGuard::check_op_in"))
    if not re.fullmatch(r"self\.check_op\(op\);ifletSome\(prev_from\)=moved_edge_previous_source\(store,op\)\{"
                        r"if!self\.nodes_write\.contains\(&prev_from\)\{std::panic::panic_any\(FootprintViolation\{"
                        r"rule_name:self\.rule_name,warp_id:self\.warp_id,kind:ViolationKind::NodeWriteNotDeclared\(prev_from\),"
                        r"op_kind:op_kind_str\(op\),?\}\);\}\}", ibody):
        raise Anchor("check_op_in: expected `self.check_op(op)` then the previous source of a moved edge tested "
                     "against self.nodes_write (NodeWriteNotDeclared, op_kind_str(op))")
    xsrc = strip_comments(read(repo, "crates/warp-core/src/parallel/exec.rs"))
    xbody = squash(fn_body(xsrc, "execute_item_enforced", "execute_item_enforced"))
    if "foropin&delta.ops_ref()[ops_before..]{guard.check_op_in(store,op);}" not in xbody:
        raise Anchor("execute_item_enforced: post-hoc loop `for op in &delta.ops_ref()[ops_before..] "
                     "{ guard.check_op_in(store, op); }` not found")
    if "letguard=&unit.guards[idx];letview=GraphView::new_guarded(store,guard);" not in xbody:
        raise Anchor("execute_item_enforced: `let guard = &unit.guards[idx]; let view = GraphView::new_guarded(store, guard);` not found")

    # the engine builds each item's guard from the DECLARED footprint, unmodified
    esrc = strip_comments(read(repo, "crates/warp-core/src/engine_impl.rs"))
    abody = squash(fn_body(esrc, "attach_footprint_guards", "attach_footprint_guards"))
    if ("let(footprint,rule_name)=guard_meta.get(&key).cloned().ok_or_else(" not in abody
            or not re.search(r"FootprintGuard::new\(&footprint,unit\.warp_id,rule_name,is_system,?\)", abody)
            or len(re.findall(r"\bfootprint\b", abody.replace("footprint_guard", ""))) != 2):
        raise Anchor("attach_footprint_guards: the guard is not built from the unmodified declared footprint "
                     "(`let (footprint, rule_name) = guard_meta.get(&key).cloned()…; FootprintGuard::new(&footprint, unit.warp_id, rule_name, is_system)`)")
    cbody2 = squash(fn_body(esrc, "collect_guard_metadata", "collect_guard_metadata"))
    if "(rw.footprint.clone(),*name)" not in cbody2:
        raise Anchor("collect_guard_metadata: `(rw.footprint.clone(), *name)` not found")

    # guarded read accessors: which guard check each GraphView accessor performs
    gsrc = strip_comments(read(repo, "crates/warp-core/src/graph_view.rs"))
    # the API surface of GraphView is exactly the modelled one (no unguarded / unmodelled accessor)
    gimpl = re.search(r"impl<'a>\s*GraphView<'a>\s*\{", gsrc)
    if not gimpl:
        raise Anchor("graph_view.rs: `impl<'a> GraphView<'a>` not found")
    gi = gsrc[gimpl.end() - 1:balanced(gsrc, gimpl.end() - 1)]
    api = sorted(re.findall(r"\bfn\s+([a-z_0-9]+)", gi))
    want = sorted(["new", "new_guarded", "warp_id", "node", "node_attachment", "edges_from", "has_edge", "edge_attachment"])
    if api != want:
        raise Anchor(f"GraphView API surface changed: {api} (modelled: {want})")
    if len(re.findall(r"impl\b[^{;]*\bGraphView\b", gsrc)) != 1:
        raise Anchor("graph_view.rs: more than one impl block mentions GraphView (Deref / AsRef / extra accessors?)")
    for fn, deleg in (("node", "node"), ("edges_from", "edges_from"), ("node_attachment", "node_attachment"),
                      ("edge_attachment", "edge_attachment"), ("has_edge", "has_edge")):
        b = squash(fn_body(gsrc, fn, f"GraphView::{fn}"))
        if not re.fullmatch(r"(#\[cfg\([^\]]*\)\])*ifletSome\(guard\)=self\.guard\{.*\}self\.store\." + deleg + r"\(id\)", b):
            raise Anchor(f"GraphView::{fn}: expected `if let Some(guard) = self.guard {{ check }}` followed by `self.store.{deleg}(id)`")
    reads = {}
    for fn, lean in (("node", "node"), ("edges_from", "adj"), ("node_attachment", "nodeAtt"),
                     ("edge_attachment", "edgeAtt"), ("has_edge", "hasEdge")):
        b = fn_body(gsrc, fn, f"GraphView::{fn}")
        cs = re.findall(r"guard\.(check_[a-z_]+)\s*\(", b)
        if len(cs) != 1:
            raise Anchor(f"GraphView::{fn}: expected exactly one guard check, found {cs}")
        keyk = "-"
        if cs[0] == "check_attachment_read":
            mk = re.search(r"AttachmentKey::(node_alpha|edge_beta)", b)
            if not mk:
                raise Anchor(f"GraphView::{fn}: attachment key constructor not found")
            keyk = mk.group(1)
        reads[lean] = (cs[0], keyk)
    chk = {"check_node_read": ".nodes", "check_edge_read": ".edges", "check_attachment_read": ".atts"}
    for lean, (c, _) in reads.items():
        if c not in chk:
            raise Anchor(f"GraphView accessor {lean}: unknown check {c}")
    # read-check labels
    labels = {}
    for fn in ("check_node_read", "check_edge_read"):
        b = fn_body(src, fn, fn)
        m = re.search(r"op_kind\s*:\s*\"([a-z_]+)\"", b)
        if not m:
            raise Anchor(f"{fn}: op_kind literal not found")
        labels[fn] = m.group(1)
    b = fn_body(src, "check_attachment_read", "check_attachment_read")
    m1 = re.search(r"AttachmentOwner::Node\(_\)\s*=>\s*\"([a-z_]+)\"", b)
    m2 = re.search(r"AttachmentOwner::Edge\(_\)\s*=>\s*\"([a-z_]+)\"", b)
    if not (m1 and m2):
        raise Anchor("check_attachment_read: op_kind labels not found")

    # merge.rs
    mrel = "crates/warp-core/src/parallel/merge.rs"
    msrc = strip_comments(read(repo, mrel))
    mbody = fn_body(msrc, "extract_target_warp", "extract_target_warp")
    mt = {}
    for v, seg in arms(mbody, "WarpOp"):
        if v == "SetAttachment":
            if not (re.search(r"AttachmentOwner::Node\((\w+)\)\s*=>\s*\1\.warp_id", seg)
                    and re.search(r"AttachmentOwner::Edge\((\w+)\)\s*=>\s*\1\.warp_id", seg)
                    and re.search(r"Some\(\(\s*warp_id\s*,", seg)):
                raise Anchor("extract_target_warp arm SetAttachment: unrecognised")
            mt[v] = "some (ownerWarpId key.owner)"
            continue
        m = re.search(r"=>\s*(None|Some\(\(\s*([^,]+),)", seg)
        if not m:
            raise Anchor(f"extract_target_warp arm {v}: unrecognised")
        if m.group(1) == "None":
            mt[v] = "none"
        else:
            mt[v] = "some (" + tr(m.group(2), MERGE_VARS.get(v, {}), f"extract_target_warp arm {v}") + ")"
    if sorted(mt) != sorted(VARS):
        raise Anchor(f"extract_target_warp: arms {sorted(mt)}")
    nbody = squash(fn_body(msrc, "collect_new_warps", "collect_new_warps"))
    if not re.search(r"WarpOp::OpenPortal\{init:PortalInit::Empty\{\.\.\},child_warp,\.\.,?\}=>Some\(\*child_warp\),_=>None", nbody):
        raise Anchor("collect_new_warps: expected `OpenPortal{init: Empty{..}, child_warp, ..} => Some(*child_warp), _ => None`")

    lst = lambda xs: "[" + ", ".join(xs) + "]"
    out = HEADER.format(src=rel + ", crates/warp-core/src/graph_view.rs, " + mrel)
    out += "import EchoVerif.Model.Graph\nset_option linter.unusedVariables false\nnamespace EchoVerif.Generated\nopen EchoVerif.Graph\n\n"
    out += "/-- `OpTargets` (minus `kind_str`, see `opKindStr`). -/\n"
    out += "structure Targets where\n  nodes : List Nat\n  edges : List Nat\n  atts : List AttKey\n  inst : Bool\n  warp : Option Nat\n  deriving DecidableEq, Repr\n\n"
    out += "/-- `AttachmentOwner::warp_id`. -/\ndef ownerWarpId : Owner → Nat\n  | .node w _ => w\n  | .edge w _ => w\n\n"
    out += "/-- `op_write_targets`, arm by arm. -/\ndef opTargets : Op → Targets\n"
    order_v = ["OpenPortal", "UpsertWarpInstance", "DeleteWarpInstance", "UpsertNode", "DeleteNode", "UpsertEdge",
               "DeleteEdge", "SetAttachment"]
    for v in order_v:
        n, e, a, inst, warp = rows[v]
        out += f"  | {VARS[v][0]} => {{ nodes := {lst(n)}, edges := {lst(e)}, atts := {lst(a)}, inst := {inst}, warp := {warp} }}\n"
    out += ("\n/-- `moved_edge_previous_source` for the store `st` of warp `sw`: the source an existing edge is\n"
            "    currently indexed under, when an `UpsertEdge` moves it to another source. -/\n"
            "def movedPrev (sw : Nat) (st : Store) : Op → Option Nat\n"
            "  | .upsertEdge w id src _dst _ty =>\n"
            "    if w = sw then\n"
            "      match SMap.find? id st.edges with\n"
            "      | some r => if r.src ≠ src then some r.src else none\n"
            "      | none => none\n"
            "    else none\n"
            "  | _ => none\n")
    out += "\n/-- `op_kind_str`. -/\ndef opKindStr : OpTag → String\n"
    for v in order_v:
        out += f"  | .{ {'OpenPortal':'openPortal','UpsertWarpInstance':'upsertInstance','DeleteWarpInstance':'deleteInstance','UpsertNode':'upsertNode','DeleteNode':'deleteNode','UpsertEdge':'upsertEdge','DeleteEdge':'deleteEdge','SetAttachment':'setAtt'}[v] } => \"{kinds[v]}\"\n"
    out += "\n/-- `parallel/merge.rs::extract_target_warp` (warp only). -/\ndef mergeTargetWarp : Op → Option Nat\n"
    for v in order_v:
        out += f"  | {VARS[v][0]} => {mt[v]}\n"
    out += "\n/-- `parallel/merge.rs::collect_new_warps`, per op. -/\ndef newWarp : Op → Option Nat\n"
    out += "  | .openPortal _ cw _ (.empty _) => some cw\n  | _ => none\n"
    out += "\n/-- Which declared read set each guarded `GraphView` accessor is checked against. -/\n"
    out += "inductive ReadSet where\n  | nodes | edges | atts\n  deriving DecidableEq, Repr\n"
    out += "inductive Accessor where\n  | node | adj | nodeAtt | edgeAtt | hasEdge\n  deriving DecidableEq, Repr\n"
    out += "def accessorSet : Accessor → ReadSet\n"
    for lean in ("node", "adj", "nodeAtt", "edgeAtt", "hasEdge"):
        out += f"  | .{lean} => {chk[reads[lean][0]]}\n"
    out += "/-- `true` = the attachment key is built with `node_alpha`, `false` = `edge_beta` (attachment accessors only). -/\n"
    out += "def accessorNodeKey : Accessor → Bool\n"
    for lean in ("node", "adj", "nodeAtt", "edgeAtt", "hasEdge"):
        out += f"  | .{lean} => {'true' if reads[lean][1] == 'node_alpha' else 'false'}\n"
    out += "def readLabel : Accessor → String\n"
    for lean in ("node", "adj", "nodeAtt", "edgeAtt", "hasEdge"):
        c, keyk = reads[lean]
        if c == "check_attachment_read":
            lab = m1.group(1) if keyk == "node_alpha" else m2.group(1)
        else:
            lab = labels[c]
        out += f"  | .{lean} => \"{lab}\"\n"
    out += "end EchoVerif.Generated\n"
    return out
