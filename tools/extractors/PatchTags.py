"""Generated/PatchTags.lean — tag bytes and field order of the patch-digest encoding (C05).

tick_patch.rs: compute_patch_digest_v2, encode_slots, encode_ops, encode_portal_init,
encode_attachment_key(_opt), encode_attachment_value(_opt), encode_atom_payload, TickCommitStatus::code;
attachment.rs: AttachmentPlane::tag, AttachmentOwner::tag.
The tag bytes become Lean definitions; the ORDER of the hashed fields of every arm is compared with the
order the Lean encoder (Lemmas/PatchBytes.lean) uses — any change raises Anchor."""
from extract_lib import *


def updates(body):
    """normalised argument texts of the `h.update(..)` / `encode_*(h, ..)` calls of a body, in order"""
    out = []
    for m in re.finditer(r"(h\.update|encode_[a-z_]+)\s*\(", body):
        e = balanced(body, m.end() - 1, "(", ")")
        arg = re.sub(r"\s+", "", body[m.end():e - 1])
        out.append((m.group(1) + ":" + arg).replace("h.update:", ""))
    return out


def arms(body, enum, names):
    """split a `match` body into its arms `Enum::Name .. => { .. }` (by position of the arm heads)"""
    pos = []
    for n in names:
        m = re.search(re.escape(enum + "::" + n) + r"\b", body)
        if not m:
            raise Anchor(f"arm {enum}::{n} not found")
        pos.append((m.start(), n))
    pos.sort()
    res = {}
    for i, (p, n) in enumerate(pos):
        end = pos[i + 1][0] if i + 1 < len(pos) else len(body)
        res[n] = body[p:end]
    return res


def tag_and_fields(arm, what):
    u = updates(arm[arm.index("=>"):])
    m = re.fullmatch(r"&\[(\d+)u8\]", u[0]) if u else None
    if not m:
        raise Anchor(f"{what}: first hashed item is not a literal tag byte: {u[:1]}")
    return int(m.group(1)), u[1:]


def const_match(src, fn_re, what, enum_names):
    body = fn_body(src, fn_re, what)
    out = {}
    for n in enum_names:
        m = re.search(r"Self::" + n + r"(?:\s*\([^)]*\))?\s*=>\s*(\d+)", body)
        if not m:
            raise Anchor(f"{what}: arm {n} not found")
        out[n] = int(m.group(1))
    return out


EXPECT_OPS = {
    "OpenPortal": ["encode_attachment_key:h,key", "&child_warp.0", "&child_root.0", "encode_portal_init:h,init"],
    "UpsertWarpInstance": ["&(instance.warp_id).0", "&(instance.root_node).0", "encode_attachment_key_opt:h,instance.parent.as_ref()"],
    "DeleteWarpInstance": ["&warp_id.0"],
    "UpsertNode": ["&(node.warp_id).0", "&(node.local_id).0", "&(record.ty).0"],
    "DeleteNode": ["&(node.warp_id).0", "&(node.local_id).0"],
    "UpsertEdge": ["&warp_id.0", "&(record.from).0", "&(record.id).0", "&(record.to).0", "&(record.ty).0"],
    "DeleteEdge": ["&warp_id.0", "&from.0", "&edge_id.0"],
    "SetAttachment": ["encode_attachment_key:h,key", "encode_attachment_value_opt:h,value.as_ref()"],
}
EXPECT_SLOTS = {
    "Node": ["&(id.warp_id).0", "&(id.local_id).0"],
    "Edge": ["&(id.warp_id).0", "&(id.local_id).0"],
    "Attachment": ["encode_attachment_key:h,key"],
    "Port": ["&warp_id.0", "&port_key.to_le_bytes()"],
}


def generate(repo):
    rel = "crates/warp-core/src/tick_patch.rs"
    src = strip_comments(read(repo, rel))
    att = strip_comments(read(repo, "crates/warp-core/src/attachment.rs"))
    defs = []

    # compute_patch_digest_v2: header order and version
    body = fn_body(src, "compute_patch_digest_v2", "compute_patch_digest_v2")
    hdr = updates(body)
    want = ["domain::PATCH_DIGEST_V1", "&2u16.to_le_bytes()", "&policy_id.to_le_bytes()", "rule_pack_id",
            "&[commit_status.code()]", "encode_slots:&muth,in_slots", "encode_slots:&muth,out_slots", "encode_ops:&muth,ops"]
    if hdr != want:
        raise Anchor(f"compute_patch_digest_v2 layout changed: {hdr}")
    if not re.search(r"policy_id\s*:\s*u32", src[src.index("fn compute_patch_digest_v2"):][:300]):
        raise Anchor("policy_id is no longer u32")
    defs.append(("patchVersion", "Nat", 2))
    st = const_match(src, "code", "TickCommitStatus::code", ["Committed", "Aborted"])
    defs += [("statusCommitted", "UInt8", st["Committed"]), ("statusAborted", "UInt8", st["Aborted"])]

    # slots
    body = fn_body(src, "encode_slots", "encode_slots")
    if not re.search(r"h\.update\(&\(slots\.len\(\)\s*as\s*u64\)\.to_le_bytes\(\)\)", body):
        raise Anchor("encode_slots: u64 count prefix not found")
    for n, arm in arms(body, "SlotId", list(EXPECT_SLOTS)).items():
        tag, fields = tag_and_fields(arm, f"SlotId::{n}")
        if fields != EXPECT_SLOTS[n]:
            raise Anchor(f"encode_slots arm {n}: field order changed: {fields}")
        defs.append((f"slotTag{n}", "UInt8", tag))

    # ops
    body = fn_body(src, "encode_ops", "encode_ops")
    if not re.search(r"h\.update\(&\(ops\.len\(\)\s*as\s*u64\)\.to_le_bytes\(\)\)", body):
        raise Anchor("encode_ops: u64 count prefix not found")
    variants = enum_variants(src, "WarpOp")
    if sorted(variants) != sorted(EXPECT_OPS):
        raise Anchor(f"WarpOp variants changed: {variants}")
    for n, arm in arms(body, "WarpOp", list(EXPECT_OPS)).items():
        tag, fields = tag_and_fields(arm, f"WarpOp::{n}")
        if fields != EXPECT_OPS[n]:
            raise Anchor(f"encode_ops arm {n}: field order changed: {fields}")
        defs.append((f"opTag{n}", "UInt8", tag))

    # portal init
    body = fn_body(src, "encode_portal_init", "encode_portal_init")
    a = arms(body, "PortalInit", ["RequireExisting", "Empty"])
    t, f = tag_and_fields(a["RequireExisting"], "PortalInit::RequireExisting")
    if f != []:
        raise Anchor(f"PortalInit::RequireExisting fields: {f}")
    defs.append(("portalInitRequireExisting", "UInt8", t))
    t, f = tag_and_fields(a["Empty"], "PortalInit::Empty")
    if f != ["&(root_record.ty).0"]:
        raise Anchor(f"PortalInit::Empty fields: {f}")
    defs.append(("portalInitEmpty", "UInt8", t))

    # options
    for fn, pre, inner in [("encode_attachment_key_opt", "keyOpt", "encode_attachment_key:h,key"),
                           ("encode_attachment_value_opt", "valOpt", "encode_attachment_value:h,value")]:
        body = fn_body(src, fn, fn)
        m = re.search(r"None\s*=>\s*\{(.*?)\}\s*Some\s*\(\w+\)\s*=>\s*\{(.*?)\}", body, flags=re.S)
        if not m:
            raise Anchor(f"{fn}: None/Some arms not found")
        un, us = updates(m.group(1)), updates(m.group(2))
        mn = re.fullmatch(r"&\[(\d+)u8\]", un[0]) if len(un) == 1 else None
        ms = re.fullmatch(r"&\[(\d+)u8\]", us[0]) if len(us) == 2 and us[1] == inner else None
        if not mn or not ms:
            raise Anchor(f"{fn}: layout changed: {un} / {us}")
        defs += [(pre + "None", "UInt8", int(mn.group(1))), (pre + "Some", "UInt8", int(ms.group(1)))]

    # attachment key: owner tag, plane tag, warp, local
    body = fn_body(src, "encode_attachment_key", "encode_attachment_key")
    u = updates(body)
    if u != ["&[owner_tag]", "&[plane_tag]", "&(node.warp_id).0", "&(node.local_id).0", "&(edge.warp_id).0", "&(edge.local_id).0"]:
        raise Anchor(f"encode_attachment_key layout changed: {u}")
    if not re.search(r"let\s*\(owner_tag,\s*plane_tag\)\s*=\s*key\.tag\(\)", body):
        raise Anchor("encode_attachment_key: key.tag() destructuring changed")
    m = re.search(r"fn\s+tag\s*\(self\)\s*->\s*\(u8,\s*u8\)\s*\{\s*\(self\.owner\.tag\(\),\s*self\.plane\.tag\(\)\)", att)
    if not m:
        raise Anchor("AttachmentKey::tag changed")
    mo = re.search(r"impl\s+AttachmentOwner\s*\{", att)
    mp = re.search(r"impl\s+AttachmentPlane\s*\{", att)
    if not mo or not mp:
        raise Anchor("AttachmentOwner / AttachmentPlane impl not found")
    ow = const_match(att[mo.start():], "tag", "AttachmentOwner::tag", ["Node", "Edge"])
    pl = const_match(att[mp.start():], "tag", "AttachmentPlane::tag", ["Alpha", "Beta"])
    defs += [("ownerTagNode", "UInt8", ow["Node"]), ("ownerTagEdge", "UInt8", ow["Edge"]),
             ("planeTagAlpha", "UInt8", pl["Alpha"]), ("planeTagBeta", "UInt8", pl["Beta"])]

    # attachment value
    body = fn_body(src, "encode_attachment_value", "encode_attachment_value")
    a = arms(body, "AttachmentValue", ["Atom", "Descend"])
    t, f = tag_and_fields(a["Atom"], "AttachmentValue::Atom")
    if f != ["encode_atom_payload:h,atom"]:
        raise Anchor(f"AttachmentValue::Atom fields: {f}")
    defs.append(("attValAtom", "UInt8", t))
    t, f = tag_and_fields(a["Descend"], "AttachmentValue::Descend")
    if f != ["&warp_id.0"]:
        raise Anchor(f"AttachmentValue::Descend fields: {f}")
    defs.append(("attValDescend", "UInt8", t))
    u = updates(fn_body(src, "encode_atom_payload", "encode_atom_payload"))
    if u != ["&(atom.type_id).0", "&(atom.bytes.len()asu64).to_le_bytes()", "&atom.bytes"]:
        raise Anchor(f"encode_atom_payload layout changed: {u}")

    out = HEADER.format(src=rel)
    out += "namespace EchoVerif.Generated.PatchTags\n"
    for name, ty, val in defs:
        out += f"def {name} : {ty} := {val}\n"
    out += "end EchoVerif.Generated.PatchTags\n"
    return out
