"""Generated/TrigLut.lean — quarter-wave sine table + trig constants (C19)."""
from extract_lib import *

# --------------------------------------------------------------------------- TrigLut


def generate(repo):
    rel = "crates/warp-math/src/trig_lut.rs"
    src = strip_comments(read(repo, rel))
    m = re.search(r"const\s+SIN_QTR_SEGMENTS\s*:\s*usize\s*=\s*([0-9_]+)\s*;", src)
    if not m:
        raise Anchor("SIN_QTR_SEGMENTS not found")
    segs = int(m.group(1).replace("_", ""))
    m = re.search(r"const\s+SIN_QTR_SEGMENTS_F32\s*:\s*f32\s*=\s*([0-9_.]+)\s*;", src)
    if not m:
        raise Anchor("SIN_QTR_SEGMENTS_F32 not found")
    segs_f = float(m.group(1).replace("_", ""))
    if segs_f != float(int(segs_f)) or int(segs_f) <= 0 or int(segs_f) >= 1 << 24:
        raise Anchor(f"SIN_QTR_SEGMENTS_F32 = {segs_f} is not a small positive integer literal")
    segs_f = int(segs_f)
    m = re.search(r"const\s+SIN_QTR_LUT_BITS\s*:\s*\[\s*u32\s*;\s*SIN_QTR_SEGMENTS\s*\+\s*1\s*\]\s*=\s*\[", src)
    if not m:
        raise Anchor("SIN_QTR_LUT_BITS not found (or its declared length is no longer SIN_QTR_SEGMENTS + 1)")
    e = balanced(src, m.end() - 1, "[", "]")
    body = src[m.end():e - 1]
    toks = [t.strip() for t in body.split(",") if t.strip()]
    vals = []
    for t in toks:
        if not re.fullmatch(r"0x[0-9a-fA-F_]+", t):
            raise Anchor(f"non-hex-literal table entry {t!r}")
        vals.append(int(t.replace("_", ""), 16))
    # accessor must return the stored bits verbatim
    acc = fn_body(src, "sin_qtr_sample", "sin_qtr_sample")
    acc_n = re.sub(r"debug_assert!\s*\([^;]*\)\s*;", "", acc)
    if re.sub(r"\s+", "", acc_n) != "f32::from_bits(SIN_QTR_LUT_BITS[index])":
        raise Anchor("sin_qtr_sample is no longer f32::from_bits(SIN_QTR_LUT_BITS[index])")
    out = HEADER.format(src=rel)
    out += "namespace EchoVerif.Generated\n"
    out += f"/-- `SIN_QTR_SEGMENTS`. -/\ndef sinQtrSegments : Nat := {segs}\n"
    out += f"/-- `SIN_QTR_SEGMENTS_F32` (an integer-valued literal). -/\ndef sinQtrSegmentsF32 : Nat := {segs_f}\n"
    out += "/-- `SIN_QTR_LUT_BITS` as written in the Rust source (binary32 bit patterns). -/\n"
    out += "def sinQtrLutBits : Array Nat := #[\n"
    for i in range(0, len(vals), 8):
        out += "  " + ", ".join(f"0x{v:08x}" for v in vals[i:i + 8]) + ("," if i + 8 < len(vals) else "") + "\n"
    out += "]\n"
    out += "end EchoVerif.Generated\n"
    return out
