"""Generated/CostAbi.lean — nesting limit and capacity rule of the ABI CBOR decoder (C13).

Reads crates/echo-wasm-abi/src/canonical.rs:
  * `const MAX_DECODE_NESTING_DEPTH: usize = N;`
  * in `fn dec_value`, the container arms `4 => {..}` and `5 => {..}`: is
    `if depth >= MAX_DECODE_NESTING_DEPTH { return Err(..) }` present before the first allocation /
    recursive call, and does every recursive call pass `depth + 1`?
  * what every `Vec::with_capacity(<expr>)` in `dec_value` is given: `len` (declared, unchecked) or
    `take_reserve(len, reserve)` with `take_reserve` = min(len, *reserve) charged to a budget that
    `decode_value` initialises to `bytes.len()`.
Anything else is an anchor failure (the rule is unknown to the model).
"""
from extract_lib import *

REL = "crates/echo-wasm-abi/src/canonical.rs"


def arm(body, label):
    m = re.search(r"\n\s*" + label + r"\s*=>\s*\{", body)
    if not m:
        raise Anchor(f"dec_value: arm `{label} =>` not found")
    e = balanced(body, m.end() - 1)
    return body[m.end():e - 1]


def generate(repo):
    src = strip_comments(read(repo, REL))
    body = fn_body(src, "dec_value", "dec_value")
    m = re.search(r"const\s+MAX_DECODE_NESTING_DEPTH\s*:\s*usize\s*=\s*([0-9_]+)\s*;", src)
    max_depth = int(m.group(1).replace("_", "")) if m else 0
    # the last `match major {` holds the arms
    idx = body.rfind("match major")
    if idx < 0:
        raise Anchor("dec_value: `match major` not found")
    arms = body[idx:]
    checked = []
    caps = []
    for label in ("4", "5"):
        a = arm(arms, label)
        chk = re.search(r"if\s+depth\s*>=\s*MAX_DECODE_NESTING_DEPTH\s*\{\s*return\s+Err\s*\(", a)
        first_use = min([x for x in (a.find("Vec::with_capacity"), a.find("dec_value(")) if x >= 0] or [len(a)])
        calls = re.findall(r"dec_value\s*\(([^()]*)\)", a)
        if not calls:
            raise Anchor(f"dec_value arm {label}: no recursive call found")
        deeper = all(re.fullmatch(r"\s*bytes\s*,\s*idx\s*,\s*depth\s*\+\s*1\s*,\s*reserve\s*", c) for c in calls)
        checked.append(bool(m) and bool(chk) and chk.start() < first_use and deeper)
        for w in re.finditer(r"Vec::with_capacity\s*\(", a):
            e = balanced(a, w.end() - 1, "(", ")")
            caps.append(re.sub(r"\s+", "", a[w.end():e - 1]))
        if "Vec::new()" in a or "vec![" in a:
            raise Anchor(f"dec_value arm {label}: container built without with_capacity (rule unknown)")
    if not caps:
        raise Anchor("dec_value: no Vec::with_capacity found")
    if all(c == "len" for c in caps):
        rule = "declared"
    elif all(c == "take_reserve(len,reserve)" for c in caps):
        tr = re.sub(r"\s+", "", fn_body(src, "take_reserve", "take_reserve"))
        if not re.search(r"letcap=(core::cmp::min\(len,\*reserve\)|len\.min\(\*reserve\));\*reserve-=cap;cap$", tr):
            raise Anchor("take_reserve is no longer `cap = min(len, *reserve); *reserve -= cap; cap`")
        dv = re.sub(r"\s+", "", fn_body(src, "decode_value", "decode_value"))
        if "letmutreserve=bytes.len();" not in dv or "dec_value(bytes,&mutidx,0,&mutreserve)" not in dv:
            raise Anchor("decode_value no longer starts the reserve budget at bytes.len() / depth at 0")
        rule = "reserve"
    else:
        raise Anchor(f"dec_value: unknown capacity expressions {caps}")
    out = HEADER.format(src=REL)
    out += "import EchoVerif.Model.CostCbor\nnamespace EchoVerif.Generated\nopen EchoVerif.CostCbor\n"
    out += "/-- nesting limit, presence of the nesting check in both container arms, capacity rule of\n"
    out += "    every `Vec::with_capacity` in `dec_value`, as written in the Rust source. -/\n"
    out += "def abiCostParams : Params :=\n"
    out += f"  {{ maxDepth := {max_depth}, depthChecked := {'true' if all(checked) else 'false'}, capRule := .{rule} }}\n"
    out += "end EchoVerif.Generated\n"
    return out
