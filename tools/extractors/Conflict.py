"""Generated/Conflict.lean — conflict matrices of has_conflict/mark_all, footprints_conflict, independent (C03)."""
from extract_lib import *

FSETS = {"n_read": "nRead", "n_write": "nWrite", "e_read": "eRead", "e_write": "eWrite",
         "a_read": "aRead", "a_write": "aWrite", "b_in": "bIn", "b_out": "bOut"}
MSETS = {"nodes_written": "nodesWritten", "nodes_read": "nodesRead", "edges_written": "edgesWritten",
         "edges_read": "edgesRead", "attachments_written": "attWritten", "attachments_read": "attRead",
         "ports": "ports"}


def norm(s):
    return re.sub(r"\s+", "", s)


def loops(body, what, inner_re, tail):
    """body = sequence of `for <v> in pr.footprint.<set>.(iter|keys)() { <inner> }` + tail."""
    b = norm(body)
    rows = []
    pos = 0
    loop_re = re.compile(r"for(\w+)inpr\.footprint\.(\w+)\.(?:iter|keys)\(\)\{")
    while True:
        m = loop_re.match(b, pos)
        if not m:
            break
        var, fset = m.group(1), m.group(2)
        if fset not in FSETS:
            raise Anchor(f"{what}: unknown footprint set {fset}")
        end = balanced(b, m.end() - 1)
        inner = b[m.end():end - 1]
        rows.append((var, fset, inner))
        pos = end
    if b[pos:] != tail:
        raise Anchor(f"{what}: unexpected code after the loops: {b[pos:pos+60]!r}")
    if not rows:
        raise Anchor(f"{what}: no loops found")
    return rows


def pair_table(body, what, ret, names, prefix, final_re):
    call_re = re.compile(r"\b(\w+)\s*\.\s*(\w+)\s*\.\s*intersects\s*\(\s*&\s*(\w+)\s*\.\s*(\w+)\s*\)")
    rows = []
    calls = call_re.findall(body)
    b = norm(call_re.sub("I", body))
    if not b.startswith(prefix):
        raise Anchor(f"{what}: prefix changed")
    b = b[len(prefix):]
    for x, s, y, t in calls:
        if x not in names or y not in names or s not in FSETS or t not in FSETS:
            raise Anchor(f"{what}: unrecognised intersects call {x}.{s} / {y}.{t}")
        rows.append((names[x], FSETS[s], names[y], FSETS[t]))
    skel = b
    if not re.fullmatch(r"(if(I(\|\|I)*)\{return" + ret + r";\})*" + final_re, skel):
        raise Anchor(f"{what}: control skeleton changed: {skel[:120]}")
    return rows


def generate(repo):
    sched = strip_comments(read(repo, "crates/warp-core/src/scheduler.rs"))
    eng = strip_comments(read(repo, "crates/warp-core/src/engine_impl.rs"))
    fpr = strip_comments(read(repo, "crates/warp-core/src/footprint.rs"))
    # reserve: check, then mark
    rb = norm(fn_body(sched, "reserve", "RadixScheduler::reserve"))
    if rb != norm("let active = self.active.entry(tx).or_insert_with(ActiveFootprints::new);"
                  "if Self::has_conflict(active, pr) { return Self::on_conflict(pr); }"
                  "Self::mark_all(active, pr); Self::on_reserved(pr)"):
        raise Anchor("RadixScheduler::reserve shape changed")
    if norm(fn_body(sched, "on_conflict", "on_conflict")) != "pr.phase=RewritePhase::Aborted;false":
        raise Anchor("on_conflict changed")
    if norm(fn_body(sched, "on_reserved", "on_reserved")) != "pr.phase=RewritePhase::Reserved;true":
        raise Anchor("on_reserved changed")
    # GenSet
    if norm(fn_body(sched, "contains", "GenSet::contains")) != "matches!(self.seen.get(&key),Some(&g)ifg==self.gen)":
        raise Anchor("GenSet::contains changed")
    if norm(fn_body(sched, "mark", "GenSet::mark")) != "self.seen.insert(key,self.gen);":
        raise Anchor("GenSet::mark changed")
    has = []
    for var, fset, inner in loops(fn_body(sched, "has_conflict", "has_conflict"), "has_conflict", None, "false"):
        m = re.fullmatch(r"if(.*)\{returntrue;\}", inner)
        if not m:
            raise Anchor(f"has_conflict: loop body over {fset} changed")
        for d in m.group(1).split("||"):
            dm = re.fullmatch(r"active\.(\w+)\.contains\(\*" + var + r"\)", d)
            if not dm or dm.group(1) not in MSETS:
                raise Anchor(f"has_conflict: unrecognised condition {d!r}")
            has.append((FSETS[fset], MSETS[dm.group(1)]))
    mark = []
    for var, fset, inner in loops(fn_body(sched, "mark_all", "mark_all"), "mark_all", None, ""):
        dm = re.fullmatch(r"active\.(\w+)\.mark\(\*" + var + r"\);", inner)
        if not dm or dm.group(1) not in MSETS:
            raise Anchor(f"mark_all: loop body over {fset} changed")
        mark.append((FSETS[fset], MSETS[dm.group(1)]))
    # legacy reserve
    lb = norm(fn_body(sched[sched.index("impl LegacyScheduler"):], "reserve", "LegacyScheduler::reserve"))
    if lb != norm("let frontier = self.active.entry(tx).or_default(); for fp in frontier.iter() {"
                  "if !pr.footprint.independent(fp) { pr.phase = RewritePhase::Aborted; return false; } }"
                  "pr.phase = RewritePhase::Reserved; frontier.push(pr.footprint.clone()); true"):
        raise Anchor("LegacyScheduler::reserve shape changed")
    receipt = pair_table(fn_body(eng, "footprints_conflict", "footprints_conflict"), "footprints_conflict",
                         "true", {"a": "a", "b": "b"}, "", r"I(\|\|I)*")
    indep = pair_table(fn_body(fpr, "independent", "Footprint::independent"), "Footprint::independent",
                       "false", {"self": "a", "other": "b"},
                       "if(self.factor_mask&other.factor_mask)==0{returntrue;}", "true")
    # intersects_btree and the set wrappers
    ib = norm(fn_body(fpr, "intersects_btree", "intersects_btree"))
    if ib != norm("let mut it_a = a.iter(); let mut it_b = b.iter(); let mut va = it_a.next(); let mut vb = it_b.next();"
                  "while let (Some(x), Some(y)) = (va, vb) { match x.cmp(y) {"
                  "core::cmp::Ordering::Less => va = it_a.next(), core::cmp::Ordering::Greater => vb = it_b.next(),"
                  "core::cmp::Ordering::Equal => return true, } } false"):
        raise Anchor("intersects_btree changed")
    if len(re.findall(r"pub fn intersects\(&self, other: &Self\) -> bool \{\s*intersects_btree\(&self\.0, &other\.0\)\s*\}", fpr)) != 4:
        raise Anchor("a set type's `intersects` no longer forwards to intersects_btree")
    # blocker attribution call in reserve_for_receipt: footprints_conflict(candidate, prior)
    rr = norm(fn_body(eng, "reserve_for_receipt", "Engine::reserve_for_receipt"))
    if norm("for (k, prior) in reserved.iter().enumerate() { if footprints_conflict(&rewrite.footprint, &prior.footprint) {"
            "blockers.push(reserved_entry_indices[k]); } }") not in rr:
        raise Anchor("reserve_for_receipt blocker loop changed")
    out = HEADER.format(src="scheduler.rs / engine_impl.rs / footprint.rs")
    out += "import EchoVerif.Model.Sched\nnamespace EchoVerif.Generated\nopen EchoVerif.Footprint EchoVerif.Sched\n"
    fmt2 = lambda rows: "[" + ", ".join(f"(.{a}, .{b})" for a, b in rows) + "]"
    fmt4 = lambda rows: "[" + ",\n   ".join(f"(.{a}, .{b}, .{c}, .{d})" for a, b, c, d in rows) + "]"
    out += "/-- `has_conflict`: (candidate footprint set, marked set whose `contains` is consulted). -/\n"
    out += "def hasConflictTable : HasTable :=\n  " + fmt2(has) + "\n"
    out += "/-- `mark_all`: (candidate footprint set, marked set it is marked into). -/\n"
    out += "def markAllTable : HasTable :=\n  " + fmt2(mark) + "\n"
    out += "/-- `footprints_conflict(a, b)`: the `intersects` calls. -/\n"
    out += "def receiptConflictTable : PairTable :=\n  " + fmt4(receipt) + "\n"
    out += "/-- `Footprint::independent(self = a, other = b)`: the `intersects` calls. -/\n"
    out += "def independentTable : PairTable :=\n  " + fmt4(indep) + "\n"
    out += "/-- `independent` starts with the factor-mask prefilter. -/\ndef independentMaskPrefilter : Bool := true\n"
    out += "def conflictCfg : ConflictCfg :=\n  ⟨hasConflictTable, markAllTable, receiptConflictTable, independentTable, independentMaskPrefilter⟩\n"
    out += "end EchoVerif.Generated\n"
    return out
