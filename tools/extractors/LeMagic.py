"""Generated/LeMagic.lean — magics, versions, bounds and tag bytes of the little-endian records (C12):
EINT envelope (echo-wasm-abi lib.rs), ELOG header/frames (eintlog.rs), retained ingress envelope
(warp-core head_inbox.rs), reserved operation ids (echo-registry-api)."""
from extract_lib import *


def lean_bytes(bs):
    return "[" + ", ".join(str(b) for b in bs) + "]"


def const_expr(src, name, what):
    m = re.search(name + r"\s*:\s*[A-Za-z0-9_]+\s*=\s*([^;]+);", src)
    if not m:
        raise Anchor(f"{what}: const {name} not found")
    e = m.group(1).strip()
    e = e.replace("u32::MAX", "4294967295").replace("core::mem::size_of::<Hash>()", "32").replace("_", "")
    if not re.fullmatch(r"[0-9+\-* ()x a-fA-F]+", e):
        raise Anchor(f"{what}: cannot evaluate {name} = {e}")
    return int(eval(e, {"__builtins__": {}}))


def generate(repo):
    out = HEADER.format(src="echo-wasm-abi/src/{lib,eintlog}.rs, warp-core/src/{head_inbox,causal_receipt}.rs, echo-registry-api/src/lib.rs")
    out += "namespace EchoVerif.Generated.LeMagic\n\n"
    # ---- EINT
    lib = strip_comments(read(repo, "crates/echo-wasm-abi/src/lib.rs"))
    pk = fn_body(lib, "pack_envelope_v1_raw", "pack_envelope_v1_raw")
    up = fn_body(lib, "unpack_intent_v1", "unpack_intent_v1")
    m1 = re.search(r'extend_from_slice\(b"([A-Za-z0-9]+)"\)', pk)
    m2 = re.search(r'!=\s*b"([A-Za-z0-9]+)"', up)
    if not m1 or not m2 or m1.group(1) != m2.group(1):
        raise Anchor("EINT magic not found or writer/reader disagree")
    order = re.findall(r"extend_from_slice\(&?([a-z_]+)(?:\.to_le_bytes\(\))?\)", pk)
    if order != ["op_id", "vars_len", "vars"]:
        raise Anchor(f"pack_envelope_v1_raw field order changed: {order}")
    if not re.search(r"bytes\.len\(\)\s*>\s*required_len", up) or not re.search(r"bytes\.len\(\)\s*<\s*required_len", up):
        raise Anchor("unpack_intent_v1: exact-length checks not found")
    out += f"def eintMagic : List UInt8 := {lean_bytes(m1.group(1).encode())}\n"
    reg = strip_comments(read(repo, "crates/echo-registry-api/src/lib.rs"))
    r1 = const_expr(reg, "RESERVED_CONTROL_OPERATION_ID", "registry")
    r2 = const_expr(reg, "RESERVED_IMPORT_SUFFIX_OPERATION_ID", "registry")
    body = fn_body(reg, "is_reserved_operation_id", "is_reserved_operation_id")
    if sorted(re.findall(r"operation_id\s*==\s*([A-Z_]+)", body)) != ["RESERVED_CONTROL_OPERATION_ID", "RESERVED_IMPORT_SUFFIX_OPERATION_ID"]:
        raise Anchor("is_reserved_operation_id changed shape")
    out += f"def reservedOpIds : List Nat := [{r1}, {r2}]\n"
    # ---- ELOG
    el = strip_comments(read(repo, "crates/echo-wasm-abi/src/eintlog.rs"))
    m = re.search(r'ELOG_MAGIC\s*:\s*\[u8;\s*4\]\s*=\s*\*b"([A-Za-z0-9]+)"', el)
    if not m:
        raise Anchor("ELOG_MAGIC not found")
    out += f"def elogMagic : List UInt8 := {lean_bytes(m.group(1).encode())}\n"
    out += f"def elogVersion : Nat := {const_expr(el, 'ELOG_VERSION', 'eintlog')}\n"
    out += f"def elogMaxFrameLen : Nat := {const_expr(el, 'MAX_FRAME_LEN', 'eintlog')}\n"
    # ---- retained ingress
    hi = strip_comments(read(repo, "crates/warp-core/src/head_inbox.rs"))
    for v in ("V1", "V2"):
        m = re.search(r"RETAINED_INGRESS_ENVELOPE_MAGIC_" + v + r'\s*:\s*&\[u8;\s*8\]\s*=\s*b"([A-Za-z0-9]+)"', hi)
        if not m:
            raise Anchor(f"retained ingress magic {v} not found")
        out += f"def ingressMagic{v} : List UInt8 := {lean_bytes(m.group(1).encode())}\n"
    enc = fn_body(hi, "to_retained_bytes_v2", "to_retained_bytes_v2")
    pushes = [int(x) for x in re.findall(r"out\.push\((\d+)\)", enc)]
    if len(pushes) != 6:
        raise Anchor(f"to_retained_bytes_v2: expected 6 tag pushes, found {pushes}")
    dec = fn_body(hi, "from_retained_bytes_v2", "from_retained_bytes_v2")
    arms = {}
    for name, pat in (("DefaultWriter", r"(\d+)\s*=>\s*IngressTarget::DefaultWriter"),
                      ("ExactHead", r"(\d+)\s*=>\s*IngressTarget::ExactHead"),
                      ("TickReceipt", r"(\d+)\s*=>\s*IngressCausalParent::TickReceipt"),
                      ("ContractInverseTarget", r"(\d+)\s*=>\s*IngressCausalParent::ContractInverseTarget")):
        m = re.search(pat, dec)
        if not m:
            raise Anchor(f"from_retained_bytes_v2: arm {name} not found")
        arms[name] = int(m.group(1))
    m = re.search(r"(\d+)\s*=>\s*\{\s*let worldline_id = WorldlineId::from_bytes", dec)
    mp = re.search(r"(\d+)\s*=>\s*\{\s*let intent_kind = IntentKind::from_hash", dec)
    if not m or not mp:
        raise Anchor("from_retained_bytes_v2: inbox / payload arm not found")
    dec_tags = [arms["DefaultWriter"], int(m.group(1)), arms["ExactHead"], arms["TickReceipt"], arms["ContractInverseTarget"], int(mp.group(1))]
    if pushes != dec_tags:
        raise Anchor(f"retained ingress: writer tags {pushes} != reader tags {dec_tags}")
    for nm, t in zip(("tagDefaultWriter", "tagInboxAddress", "tagExactHead", "tagTickReceipt", "tagContractInverseTarget", "tagLocalIntent"), pushes):
        out += f"def {nm} : UInt8 := {t}\n"
    if not re.search(r"envelope\.to_retained_bytes_v2\(\)\s*!=\s*bytes", dec):
        raise Anchor("from_retained_bytes_v2: re-encode gate not found")
    cr = strip_comments(read(repo, "crates/warp-core/src/causal_receipt.rs"))
    out += f"def receiptRefLen : Nat := {const_expr(cr, 'CAUSAL_TICK_RECEIPT_REF_LEN', 'causal_receipt')}\n"
    out += "\nend EchoVerif.Generated.LeMagic\n"
    return out
