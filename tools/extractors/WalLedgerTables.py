"""Generated/WalLedgerTables.lean — writer-epoch ledger constants of causal_wal.rs (C11): file magic,
digest domain, payload version, retained-closed-epoch limit, evidence labels of
acquire_fresh_writer_epoch; plus a structural anchor on reconcile_writer_epoch_closures (the only
`continue` in its marker loop is the one for unknown epochs strictly below the retained start LSN)."""
from extract_lib import *
from WalTables import _bytes_const


def generate(repo):
    rel = "crates/warp-core/src/causal_wal.rs"
    raw = read(repo, rel)
    src = strip_comments(raw)
    out = HEADER.format(src=rel)
    out += "import EchoVerif.Model.Basic\nnamespace EchoVerif.Generated.WalLedgerTables\nopen EchoVerif\n"
    for lean, rust in (("magic", "WAL_WRITER_EPOCH_LEDGER_MAGIC"), ("domain", "WAL_WRITER_EPOCH_LEDGER_DOMAIN")):
        bs = _bytes_const(raw, rust)
        out += f"/-- `{rust}` -/\ndef {lean} : Bytes := [{', '.join(str(b) for b in bs)}]\n"
    mv = re.search(r"const\s+WAL_WRITER_EPOCH_LEDGER_VERSION\s*:\s*u16\s*=\s*(\d+)\s*;", src)
    ml = re.search(r"const\s+WAL_WRITER_EPOCH_RETAINED_CLOSED_LIMIT\s*:\s*usize\s*=\s*(\d+)\s*;", src)
    if not (mv and ml):
        raise Anchor("writer-epoch ledger version / retained limit constants not found")
    out += f"def version : Nat := {mv.group(1)}\ndef retainedLimit : Nat := {ml.group(1)}\n"
    # evidence labels of acquire_fresh_writer_epoch, in the order epoch id, fencing, process, host, lease
    fresh = fn_body(src, "acquire_fresh_writer_epoch", "acquire_fresh_writer_epoch")
    labels = re.findall(r"derive_filesystem_writer_epoch_evidence\(\s*\"([a-z]+)\"", fresh)
    if labels != ["epoch", "fencing", "process", "host", "lease"]:
        raise Anchor(f"acquire_fresh_writer_epoch evidence labels changed: {labels}")
    out += "def freshLabels : List String := [" + ", ".join(f'"{l}"' for l in labels) + "]\n"
    # reconcile_writer_epoch_closures: every marker is looked up; the single skip is the pruned-range one
    rec = fn_body(src, "reconcile_writer_epoch_closures", "reconcile_writer_epoch_closures")
    m = re.search(r"for\s+commit\s+in\s+commits\s*\{", rec)
    if not m:
        raise Anchor("reconcile_writer_epoch_closures: marker loop not found")
    body = rec[m.end():balanced(rec, m.end() - 1) - 1]
    skips = len(re.findall(r"\bcontinue\b", body))
    guard = re.search(r"if\s+!known_epoch\s*\{\s*if\s+retained_start_lsn\.is_some_and\(\|start_lsn\|\s*commit\.last_lsn\s*<\s*start_lsn\)\s*\{\s*continue;\s*\}\s*return\s+Err\(WalStoreError::UnknownPreviousWriterEpoch\);", body)
    if skips != 1 or not guard:
        raise Anchor(f"reconcile_writer_epoch_closures: marker loop skips {skips} time(s) / unknown-epoch guard changed (expected exactly the pruned-range skip)")
    if not body.lstrip().startswith("let known_epoch"):
        raise Anchor("reconcile_writer_epoch_closures: something runs before the known_epoch lookup")
    out += "/-- number of `continue`s in the marker loop of `reconcile_writer_epoch_closures` -/\ndef reconcileSkips : Nat := 1\n"
    out += "end EchoVerif.Generated.WalLedgerTables\n"
    return out
