"""Generated/CostEdict.lean — nesting limit, node budget and the checks that precede allocation in
the Edict canonical CBOR decoder (C13).  Source: crates/echo-edict-canonical/src/lib.rs."""
from extract_lib import *

REL = "crates/echo-edict-canonical/src/lib.rs"


def const(src, name):
    m = re.search(r"const\s+" + name + r"\s*:\s*usize\s*=\s*([0-9_]+)\s*;", src)
    if not m:
        raise Anchor(f"const {name} not found")
    return int(m.group(1).replace("_", ""))


def arm(body, label):
    m = re.search(r"\n\s*" + label + r"\s*=>\s*\{", body)
    if not m:
        raise Anchor(f"Decoder::value: arm `{label} =>` not found")
    e = balanced(body, m.end() - 1)
    return re.sub(r"\s+", "", body[m.end():e - 1])


def generate(repo):
    src = strip_comments(read(repo, REL))
    max_depth = const(src, "MAX_CANONICAL_NESTING_DEPTH_V1")
    budget = const(src, "MAX_CANONICAL_DECODE_NODES_V1")
    # Decoder::value — the second `fn value` would be an accessor; take the one with `depth: usize`
    m = re.search(r"fn\s+value\s*\(\s*&mut\s+self\s*,\s*depth\s*:\s*usize\s*\)", src)
    if not m:
        raise Anchor("Decoder::value(&mut self, depth: usize) not found")
    b = src.index("{", m.end())
    body = src[b + 1:balanced(src, b) - 1]
    flat = re.sub(r"\s+", "", body)
    if not flat.startswith("self.charge_nodes(1)?;check_depth(depth)?;"):
        raise Anchor("Decoder::value no longer starts with charge_nodes(1)?; check_depth(depth)?")
    a4, a5 = arm(body, "4"), arm(body, "5")
    depth_checked = a4.startswith("check_container_depth(depth)?;") and a5.startswith("check_container_depth(depth)?;")
    for a in (a4, a5):
        if "self.value(depth+1)?" not in a or re.search(r"self\.value\((?!depth\+1\))", a):
            depth_checked = False
    r4 = re.search(r"letlength=self\.length\(additional\)\?;self\.ensure_nodes_available\(length\)\?;"
                   r"self\.reserve_nodes\(length\)\?;letmutvalues=Vec::with_capacity\(length\);", a4)
    r5 = re.search(r"letlength=self\.length\(additional\)\?;letchild_nodes=length\.checked_mul\(2\)\.ok_or_else\(node_budget_error\)\?;"
                   r"self\.ensure_nodes_available\(child_nodes\)\?;self\.reserve_nodes\(child_nodes\)\?;"
                   r"letmutentries=Vec::with_capacity\(length\);", a5)
    reserve_checked = bool(r4) and bool(r5)
    for fn, pat in (("ensure_nodes_available", r"ifrequired>self\.remaining_nodes\{returnErr\(node_budget_error\(\)\);\}"),
                    ("reserve_nodes", r"self\.remaining_reserved_nodes=self\.remaining_reserved_nodes\.checked_sub\(count\)\.ok_or_else\(node_budget_error\)\?;"),
                    ("charge_nodes", r"self\.remaining_nodes=self\.remaining_nodes\.checked_sub\(count\)\.ok_or_else\(node_budget_error\)\?;")):
        fb = re.sub(r"\s+", "", fn_body(src, fn, fn))
        if not re.search(pat, fb):
            reserve_checked = False
    cd = re.sub(r"\s+", "", fn_body(src, "check_container_depth", "check_container_depth"))
    if not cd.startswith("ifdepth>=MAX_CANONICAL_NESTING_DEPTH_V1{returnErr("):
        depth_checked = False
    cl = re.sub(r"\s+", "", fn_body(src, "checked_collection_length", "checked_collection_length"))
    length_checked = cl.startswith("ifdeclared>remaining{returnErr(")
    ln = re.sub(r"\s+", "", fn_body(src, "length", "Decoder::length"))
    if "checked_collection_length::<usize>(declared,remaining)" not in ln or "self.remaining()" not in ln:
        length_checked = False
    if "Self::with_node_budget(bytes,MAX_CANONICAL_DECODE_NODES_V1)" not in re.sub(r"\s+", "", src):
        raise Anchor("Decoder::new no longer uses MAX_CANONICAL_DECODE_NODES_V1")
    tf = lambda b: "true" if b else "false"
    out = HEADER.format(src=REL)
    out += "import EchoVerif.Model.CostEdict\nnamespace EchoVerif.Generated\nopen EchoVerif.CostEdict\n"
    out += "/-- limits and pre-allocation checks of `Decoder::value`, as written in the Rust source. -/\n"
    out += "def edictCostParams : Params :=\n"
    out += (f"  {{ maxDepth := {max_depth}, nodeBudget := {budget}, depthChecked := {tf(depth_checked)},\n"
            f"    reserveChecked := {tf(reserve_checked)}, lengthChecked := {tf(length_checked)} }}\n")
    out += "end EchoVerif.Generated\n"
    return out
