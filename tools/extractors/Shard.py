"""Generated/Shard.lean — parallel/shard.rs: NUM_SHARDS, SHARD_MASK, the byte window of shard_of (C02)."""
from extract_lib import *


def generate(repo):
    rel = "crates/warp-core/src/parallel/shard.rs"
    src = strip_comments(read(repo, rel))
    m = re.search(r"pub\s+const\s+NUM_SHARDS\s*:\s*usize\s*=\s*([0-9_]+)\s*;", src)
    if not m:
        raise Anchor("NUM_SHARDS literal not found")
    num = int(m.group(1).replace("_", ""))
    m = re.search(r"const\s+SHARD_MASK\s*:\s*u64\s*=\s*\(\s*NUM_SHARDS\s*-\s*([0-9]+)\s*\)\s*as\s+u64\s*;", src)
    if not m:
        raise Anchor("SHARD_MASK is no longer (NUM_SHARDS - k) as u64")
    sub = int(m.group(1))
    body = fn_body(src, "shard_of", "shard_of")
    m = re.search(r"let\s+(\w+)\s*:\s*\[u8;\s*(\d+)\]\s*=\s*\[(.*?)\]\s*;", body, flags=re.S)
    if not m:
        raise Anchor("shard_of: byte window array not found")
    arr, width, elems = m.group(1), int(m.group(2)), m.group(3)
    idx = [int(x) for x in re.findall(r"bytes\[(\d+)\]", elems)]
    if len(idx) != width or width != 8:
        raise Anchor(f"shard_of: window has {len(idx)} indexed bytes, declared width {width}")
    m = re.search(r"u64::from_(le|be)_bytes\(\s*" + arr + r"\s*\)", body)
    if not m:
        raise Anchor("shard_of: u64::from_le_bytes/from_be_bytes of the window not found")
    little = m.group(1) == "le"
    if not re.search(r"\(\s*val\s*&\s*SHARD_MASK\s*\)\s*as\s+usize", body):
        raise Anchor("shard_of no longer returns (val & SHARD_MASK) as usize")
    # partition_into_shards must route by shard_of(&item.scope)
    pbody = fn_body(src, "partition_into_shards", "partition_into_shards")
    if not re.search(r"shard_of\(\s*&item\.scope\s*\)", pbody) or "shards[shard_id].items.push(*item)" not in pbody:
        raise Anchor("partition_into_shards no longer pushes each item into shards[shard_of(&item.scope)]")
    out = HEADER.format(src=rel)
    out += "namespace EchoVerif.Generated\n"
    out += "/-- `NUM_SHARDS`. -/\n"
    out += f"def numShards : Nat := {num}\n"
    out += "/-- `SHARD_MASK = (NUM_SHARDS - k)` as written. -/\n"
    out += f"def shardMask : Nat := numShards - {sub}\n"
    out += "/-- indices of the id bytes fed to `u64::from_{le,be}_bytes` in `shard_of`, in array order. -/\n"
    out += f"def shardBytes : List Nat := {idx}\n"
    out += "/-- `true` = `from_le_bytes`. -/\n"
    out += f"def shardLittleEndian : Bool := {'true' if little else 'false'}\n"
    out += "end EchoVerif.Generated\n"
    return out
