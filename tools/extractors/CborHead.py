"""Generated/CborHead.lean — ABI CBOR head-width rule (C12, C13): `write_major` (encoder arms),
`read_len` (decoder widths + over-wide rejection), one-byte simple/float markers, and the nesting
limit `MAX_DECODE_NESTING_DEPTH` with its check `if depth >= MAX… { return Err(NestingLimitExceeded) }`
in BOTH container arms of `dec_value` AND of `enc_value` (every recursive call passing `depth + 1`,
both roots starting at 0).  A missing / reordered check on either side is an anchor failure."""
from extract_lib import *


def num(s):
    return int(s.replace("_", ""), 0)


NEST_CHECK = (r"if\s+depth\s*>=\s*MAX_DECODE_NESTING_DEPTH\s*\{\s*return\s+Err\s*\(\s*"
              r"CanonError::NestingLimitExceeded\s*\)\s*;?\s*\}")


def container_arm(body, label_re, what):
    m = re.search(label_re + r"\s*=>\s*\{", body)
    if not m:
        raise Anchor(f"{what}: container arm not found")
    e = balanced(body, m.end() - 1)
    return body[m.end():e - 1]


def nesting(src):
    """The nesting limit and the four places that enforce it (encoder and decoder, arrays and maps)."""
    m = re.search(r"const\s+MAX_DECODE_NESTING_DEPTH\s*:\s*usize\s*=\s*([0-9_]+)\s*;", src)
    if not m:
        raise Anchor("const MAX_DECODE_NESTING_DEPTH not found")
    limit = num(m.group(1))
    sides = (
        # fn, root fn, root call, recursive-call name, argument pattern, arms, what must come after the check
        ("dec_value", "decode_value", r"dec_value\(\s*bytes\s*,\s*&mut\s+idx\s*,\s*0\s*,\s*&mut\s+reserve\s*\)",
         r"\s*bytes\s*,\s*idx\s*,\s*depth\s*\+\s*1\s*,\s*reserve\s*",
         ((r"\n\s*4", "dec_value array arm"), (r"\n\s*5", "dec_value map arm")), ("Vec::with_capacity",)),
        ("enc_value", "encode_value", r"enc_value\(\s*val\s*,\s*&mut\s+out\s*,\s*0\s*\)",
         r"[^,()]*,[^,()]*,\s*depth\s*\+\s*1\s*",
         ((r"Value::Array\(\w+\)", "enc_value array arm"), (r"Value::Map\(\w+\)", "enc_value map arm")),
         ("enc_len(", "Vec::with_capacity")),
    )
    for fn, root, root_call, args_re, arms, after in sides:
        body = fn_body(src, fn, fn)
        if not re.search(r"depth\s*:\s*usize", src[re.search(r"fn\s+" + fn + r"\s*\(", src).end():][:200]):
            raise Anchor(f"{fn}: no `depth: usize` parameter")
        if not re.search(root_call, fn_body(src, root, root)):
            raise Anchor(f"{root}: the root call no longer starts at depth 0")
        if fn == "dec_value":
            idx = body.rfind("match major")
            if idx < 0:
                raise Anchor("dec_value: `match major` not found")
            scope = body[idx:]
        else:
            scope = body
        in_arms = 0
        for label_re, what in arms:
            a = container_arm(scope, label_re, what)
            chk = re.search(NEST_CHECK, a)
            if not chk:
                raise Anchor(f"{what}: nesting check `if depth >= MAX_DECODE_NESTING_DEPTH {{ return Err(NestingLimitExceeded) }}` not found")
            uses = [a.find(x) for x in after + (fn + "(",)]
            first_use = min([u for u in uses if u >= 0] or [len(a)])
            if chk.start() > first_use:
                raise Anchor(f"{what}: nesting check comes after the first write / allocation / recursive call")
            if fn == "dec_value" and not (0 <= a.find("read_len(") < chk.start()):
                raise Anchor(f"{what}: nesting check is expected after read_len (error order)")
            calls = re.findall(fn + r"\s*\(([^()]*)\)", a)
            if not calls:
                raise Anchor(f"{what}: no recursive call found")
            for c in calls:
                if not re.fullmatch(args_re, c):
                    raise Anchor(f"{what}: recursive call `{fn}({c.strip()})` does not pass depth + 1")
            in_arms += len(calls)
        total = len(re.findall(r"\b" + fn + r"\s*\(", body))
        if total != in_arms:
            raise Anchor(f"{fn}: {total - in_arms} recursive call(s) outside the checked container arms")
    return limit


def generate(repo):
    rel = "crates/echo-wasm-abi/src/canonical.rs"
    src = strip_comments(read(repo, rel))

    # ---- encoder: write_major
    body = fn_body(src, "write_major", "write_major")
    m = re.search(r"match\s+n\s*\{", body)
    if not m:
        raise Anchor("write_major: `match n` not found")
    arms_src = body[m.end() - 1 : balanced(body, m.end() - 1)]
    arms = re.findall(r"(0x[0-9a-fA-F_]+|\d[\d_]*)\s*\.\.=\s*(0x[0-9a-fA-F_]+|\d[\d_]*)\s*=>", arms_src)
    if len(arms) != 4:
        raise Anchor(f"write_major: expected 4 range arms, found {len(arms)}")
    infos = re.findall(r"\(major\s*<<\s*5\)\s*\|\s*(\d+|n as u8)", arms_src)
    if len(infos) != 5 or infos[0] != "n as u8":
        raise Anchor(f"write_major: unexpected info pattern {infos}")
    widths_src = re.findall(r"n as (u8|u16|u32|u64)\)?(?:\.to_be_bytes|\s*\))", arms_src)
    # arm 0 pushes n as u8 inside the initial byte; arms 1.. push n as u8 / u16 / u32 / u64
    wmap = {"u8": 1, "u16": 2, "u32": 4, "u64": 8}
    ws = [wmap[w] for w in re.findall(r"n as (u8|u16|u32|u64)", arms_src)]
    if ws != [1, 1, 2, 4, 8]:
        raise Anchor(f"write_major: unexpected cast sequence {ws}")
    lo_hi = [(num(a), num(b)) for a, b in arms]
    if lo_hi[0][0] != 0:
        raise Anchor("write_major: first arm does not start at 0")
    for i in range(1, 4):
        if lo_hi[i][0] != lo_hi[i - 1][1] + 1:
            raise Anchor(f"write_major: arms not contiguous at {lo_hi[i]}")
    enc = [(lo_hi[0][1], None, 0)] + [(lo_hi[i][1], int(infos[i]), ws[i]) for i in range(1, 4)]
    last = (int(infos[4]), ws[4])

    # ---- decoder: read_len
    body = fn_body(src, "read_len", "read_len")
    ms = list(re.finditer(r"match\s+info\s*\{", body))
    if len(ms) != 2:
        raise Anchor("read_len: expected two `match info` blocks")
    first = body[ms[0].end() - 1 : balanced(body, ms[0].end() - 1)]
    second = body[ms[1].end() - 1 : balanced(body, ms[1].end() - 1)]
    direct = re.search(r"0\s*\.\.=\s*(\d+)\s*=>\s*u64::from\(info\)", first)
    if not direct:
        raise Anchor("read_len: direct arm not found")
    reads = [(int(a), int(b)) for a, b in re.findall(r"(\d+)\s*=>\s*read_uint\(bytes,\s*idx,\s*(\d+)\)", first)]
    indef = re.search(r"(\d+)\s*=>\s*return\s+Err\(CanonError::Indefinite\)", first)
    if len(reads) != 4 or not indef:
        raise Anchor("read_len: width arms / indefinite arm not found")
    over = [(int(a), num(b)) for a, b in re.findall(r"(\d+)\s+if\s+val\s*<=\s*(0x[0-9a-fA-F_]+|\d[\d_]*)\s*=>\s*return\s+Err\(CanonError::NonCanonicalInt\)", second)]
    if len(over) != 4:
        raise Anchor(f"read_len: expected 4 over-wide arms, found {len(over)}")

    # ---- one-byte markers
    encb = fn_body(src, "enc_value", "enc_value")
    bt = re.search(r"if\s+\*b\s*\{\s*(0x[0-9a-fA-F]+)\s*\}\s*else\s*\{\s*(0x[0-9a-fA-F]+)\s*\}", encb)
    nl = re.search(r"Value::Null\s*=>\s*out\.push\((0x[0-9a-fA-F]+)\)", encb)
    if not bt or not nl:
        raise Anchor("enc_value: bool/null bytes not found")
    fl = {}
    for fn, key in (("write_half", "f16"), ("write_f32", "f32"), ("write_f64", "f64")):
        b = fn_body(src, fn, fn)
        m = re.search(r"out\.push\((0x[0-9a-fA-F]+)\)", b)
        if not m:
            raise Anchor(f"{fn}: marker byte not found")
        fl[key] = num(m.group(1))
    decb = fn_body(src, "dec_value", "dec_value")
    m7 = re.search(r"7\s*=>\s*match\s+info\s*\{", decb)
    if not m7:
        raise Anchor("dec_value: major 7 arm not found")
    s7 = decb[m7.end() - 1 : balanced(decb, m7.end() - 1)]
    sf = re.search(r"(\d+)\s*=>\s*Ok\(Value::Bool\(false\)\)", s7)
    st = re.search(r"(\d+)\s*=>\s*Ok\(Value::Bool\(true\)\)", s7)
    sn = re.search(r"(\d+)\s*=>\s*Ok\(Value::Null\)", s7)
    fr = [(int(a), int(b)) for a, b in re.findall(r"(\d+)\s*=>\s*\{\s*let f = read_f\(bytes,\s*idx,\s*(\d+)\)", s7)]
    si = re.search(r"(\d+)\s*=>\s*Err\(CanonError::Indefinite\)", s7)
    if not (sf and st and sn and si) or len(fr) != 3:
        raise Anchor("dec_value: simple-value arms not found")
    tagm = re.search(r"(\d+)\s*=>\s*Err\(CanonError::Tag\)", decb)
    if not tagm:
        raise Anchor("dec_value: tag arm not found")

    out = HEADER.format(src=rel)
    out += "namespace EchoVerif.Generated.CborHead\n\n"
    out += "/-- `write_major`: (additional-info value, number of argument bytes) chosen for argument `n`. -/\n"
    out += "def encInfo (n : Nat) : Nat × Nat :=\n"
    out += f"  if n ≤ {enc[0][0]} then (n, 0)\n"
    for hi, info, w in enc[1:]:
        out += f"  else if n ≤ {hi} then ({info}, {w})\n"
    out += f"  else ({last[0]}, {last[1]})\n\n"
    out += "/-- first `match info` of `read_len` -/\n"
    out += "inductive LenKind where\n  | direct | width (w : Nat) | indefinite | invalid\n\n"
    out += "def decKind (info : Nat) : LenKind :=\n"
    out += f"  if info ≤ {direct.group(1)} then .direct\n"
    for i, w in reads:
        out += f"  else if info = {i} then .width {w}\n"
    out += f"  else if info = {indef.group(1)} then .indefinite\n  else .invalid\n\n"
    out += "/-- second `match info` of `read_len`: the over-wide (non-minimal) test -/\n"
    out += "def decOverwide (info val : Nat) : Bool :=\n  "
    out += " || ".join(f"(info == {i} && decide (val ≤ {v}))" for i, v in over) + "\n\n"
    out += f"def encFalse : Nat := {num(bt.group(2))}\ndef encTrue : Nat := {num(bt.group(1))}\ndef encNull : Nat := {num(nl.group(1))}\n"
    out += f"def encF16 : Nat := {fl['f16']}\ndef encF32 : Nat := {fl['f32']}\ndef encF64 : Nat := {fl['f64']}\n"
    out += f"def decFalse : Nat := {sf.group(1)}\ndef decTrue : Nat := {st.group(1)}\ndef decNull : Nat := {sn.group(1)}\n"
    fr.sort(key=lambda p: p[1])
    out += f"def decF16 : Nat := {fr[0][0]}\ndef decF32 : Nat := {fr[1][0]}\ndef decF64 : Nat := {fr[2][0]}\n"
    if [p[1] for p in fr] != [2, 4, 8]:
        raise Anchor(f"dec_value: float widths changed {fr}")
    out += f"def decSimpleIndefinite : Nat := {si.group(1)}\ndef decTagMajor : Nat := {tagm.group(1)}\n"
    out += "\n/-- `MAX_DECODE_NESTING_DEPTH`; extracted only when `dec_value` AND `enc_value` refuse a container\n"
    out += "    at `depth >= MAX_DECODE_NESTING_DEPTH` in both container arms and recurse with `depth + 1`. -/\n"
    out += f"def maxNesting : Nat := {nesting(src)}\n"
    out += "\nend EchoVerif.Generated.CborHead\n"
    return out
