"""Generated/WscLayout.lean — literal layout facts of the columnar snapshot format (C06, goal WSC):
`WscHeader::MAGIC_V1`, `AttRow::TAG_ATOM` / `TAG_DESCEND`, the `size_of` assertions of the seven
`#[repr(C)]` row structs, their field lists (name, byte width) in declaration order, and the
alignment used by `align8` / `write_padding` / `align8_vec`."""
from extract_lib import *

STRUCTS = ["NodeRow", "EdgeRow", "Range", "OutEdgeRef", "AttRow", "WscHeader", "WarpDirEntry"]
WIDTH = {"Hash": 32, "u64": 8, "u8": 1}


def _fields(src, name):
    m = re.search(r"pub\s+struct\s+" + name + r"\s*\{", src)
    if not m:
        raise Anchor(f"struct {name} not found")
    e = balanced(src, m.end() - 1)
    body = src[m.end():e - 1]
    out = []
    for fm in re.finditer(r"pub\s+(\w+)\s*:\s*([^,\n]+),", body):
        nm, ty = fm.group(1), fm.group(2).strip()
        am = re.fullmatch(r"\[\s*u8\s*;\s*(\d+)\s*\]", ty)
        if am:
            w = int(am.group(1))
        elif ty in WIDTH:
            w = WIDTH[ty]
        else:
            raise Anchor(f"struct {name}: field {nm} has unknown type {ty}")
        out.append((nm, w))
    if not out:
        raise Anchor(f"struct {name}: no fields found")
    return out


def _size(src, name):
    m = re.search(r"assert!\s*\(\s*std::mem::size_of::<" + name + r">\(\)\s*==\s*(\d+)\s*\)", src)
    if not m:
        raise Anchor(f"size assertion of {name} not found")
    return int(m.group(1))


def _const_u8(src, name):
    m = re.search(r"pub\s+const\s+" + name + r"\s*:\s*u8\s*=\s*(\d+)\s*;", src)
    if not m:
        raise Anchor(f"const {name} not found")
    return int(m.group(1))


def generate(repo):
    src = strip_comments(read(repo, "crates/warp-core/src/wsc/types.rs"))
    # cut the test module: it repeats the sizes
    src = src.split("#[cfg(test)]")[0]
    m = re.search(r'MAGIC_V1\s*:\s*\[u8;\s*8\]\s*=\s*\*b"((?:[^"\\]|\\.)*)"', src)
    if not m:
        raise Anchor("WscHeader::MAGIC_V1 literal not found")
    try:
        magic = list(m.group(1).encode("ascii").decode("unicode_escape").encode("latin-1"))
    except Exception as e:
        raise Anchor(f"cannot decode MAGIC_V1: {e}")
    if len(magic) != 8:
        raise Anchor(f"MAGIC_V1 has {len(magic)} bytes")
    tag_atom, tag_desc = _const_u8(src, "TAG_ATOM"), _const_u8(src, "TAG_DESCEND")

    wsrc = strip_comments(read(repo, "crates/warp-core/src/wsc/write.rs")).split("#[cfg(test)]")[0]
    body = fn_body(wsrc, "align8", "write::align8")
    am = re.search(r"\(\s*n\s*\+\s*(\d+)\s*\)\s*&\s*!\s*(\d+)", body)
    if not am or am.group(1) != am.group(2):
        raise Anchor("write::align8 is not `(n + K) & !K`")
    align_w = int(am.group(1)) + 1
    pads = re.findall(r"write_padding\s*\(\s*&mut\s+buf\s*,\s*(\d+)\s*\)", fn_body(wsrc, "write_wsc_one_warp", "write_wsc_one_warp"))
    if not pads or any(int(p) != align_w for p in pads):
        raise Anchor(f"write_padding alignments {pads} differ from align8 ({align_w})")
    bsrc = strip_comments(read(repo, "crates/warp-core/src/wsc/build.rs")).split("#[cfg(test)]")[0]
    body = fn_body(bsrc, "align8_vec", "build::align8_vec")
    bm = re.search(r"\(\s*v\.len\(\)\s*\+\s*(\d+)\s*\)\s*&\s*!\s*(\d+)", body)
    if not bm or bm.group(1) != bm.group(2):
        raise Anchor("build::align8_vec is not `(v.len() + K) & !K`")
    align_b = int(bm.group(1)) + 1

    out = HEADER.format(src="crates/warp-core/src/wsc/{types,write,build}.rs")
    out += "import EchoVerif.Model.Basic\nnamespace EchoVerif.Generated.WscLayout\n"
    out += "/-- `WscHeader::MAGIC_V1`. -/\ndef magic : List UInt8 := [" + ", ".join(str(b) for b in magic) + "]\n"
    out += f"/-- `AttRow::TAG_ATOM` / `AttRow::TAG_DESCEND`. -/\ndef tagAtom : Nat := {tag_atom}\ndef tagDescend : Nat := {tag_desc}\n"
    out += f"/-- `write::align8` / `write_padding(buf, _)` boundary; `build::align8_vec` boundary. -/\ndef fileAlign : Nat := {align_w}\ndef blobAlign : Nat := {align_b}\n"
    out += f"/-- number of `write_padding` calls in `write_wsc_one_warp`. -/\ndef paddingCalls : Nat := {len(pads)}\n"
    for s in STRUCTS:
        out += f"/-- `const _: () = assert!(size_of::<{s}>() == …)`. -/\ndef size{s} : Nat := {_size(src, s)}\n"
    for s in STRUCTS:
        fs = _fields(src, s)
        out += f"/-- fields of `{s}` in declaration order (name, byte width). -/\ndef fields{s} : List (String × Nat) := [" + \
            ", ".join(f'("{n}", {w})' for n, w in fs) + "]\n"
    out += "end EchoVerif.Generated.WscLayout\n"
    return out
