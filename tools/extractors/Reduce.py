"""Generated/Reduce.lean — ReduceOp::is_commutative (C18)."""
from extract_lib import *

# --------------------------------------------------------------------------- Reduce


def generate(repo):
    rel = "crates/warp-core/src/materialization/reduce_op.rs"
    src = strip_comments(read(repo, rel))
    variants = enum_variants(src, "ReduceOp")
    lean_names = {"Sum": "sum", "Max": "max", "Min": "min", "BitOr": "bitor", "BitAnd": "bitand",
                  "First": "first", "Last": "last", "Concat": "concat"}
    if sorted(variants) != sorted(lean_names):
        raise Anchor(f"ReduceOp variants changed: {variants}")
    body = fn_body(src, "is_commutative", "ReduceOp::is_commutative")
    m = re.search(r"matches!\s*\(\s*self\s*,(.*)\)", body, flags=re.S)
    if not m:
        raise Anchor("is_commutative is no longer a single matches!(self, ...)")
    listed = re.findall(r"Self::([A-Za-z]+)", m.group(1))
    for v in listed:
        if v not in lean_names:
            raise Anchor(f"unknown variant {v} in is_commutative")
    out = HEADER.format(src=rel)
    out += "import EchoVerif.Model.Bus\nnamespace EchoVerif.Generated\nopen EchoVerif.Bus\n"
    out += "/-- `ReduceOp::is_commutative` as written in the Rust source. -/\n"
    out += "def reduceIsCommutative : ReduceOp → Bool\n"
    for v in variants:
        out += f"  | .{lean_names[v]} => {'true' if v in listed else 'false'}\n"
    out += "end EchoVerif.Generated\n"
    return out
