"""Generated/FaultScope.lean — scheduler_fault_scope_for_error (C09): which RuntimeError variants a
scheduler pass answers with a head-scoped fault (quarantine the culprit) vs a runtime-scoped one."""
from extract_lib import *

# RuntimeError variant -> constructor of EchoVerif.Pass.ErrKind (the errors a pass of the model can raise)
LEAN_NAMES = {
    "Engine": "engine",
    "Provenance": "prov",
    "FrontierTickOverflow": "overflow",
    "UnknownWorldline": "unkwl",
    "UnknownHead": "unkhead",
    "ReceiptCorrelationReplayMismatch": "corr",
    "GlobalTickOverflow": "goverflow",
    "SchedulerRuntimeFaultActive": "rtfault",
}


def generate(repo):
    rel = "crates/warp-core/src/coordinator.rs"
    src = strip_comments(read(repo, rel))
    body = fn_body(src, "scheduler_fault_scope_for_error", "scheduler_fault_scope_for_error")
    m = re.search(r"match\s+err\s*\{", body)
    if not m:
        raise Anchor("scheduler_fault_scope_for_error is no longer a single `match err { .. }`")
    e = balanced(body, m.end() - 1)
    arms_src = re.sub(r"#\[[^\]]*\]", "", body[m.end():e - 1])
    # split into arms at `=>`: pattern text before, result text up to the next pattern start
    parts = arms_src.split("=>")
    if len(parts) < 3:
        raise Anchor("unexpected arm structure in scheduler_fault_scope_for_error")
    scope = {}
    pattern = parts[0]
    for nxt in parts[1:]:
        # the result of this arm is the leading `{ ... }` block or the expression up to the first `,`
        t = nxt.lstrip()
        if t.startswith("{"):
            end = balanced(t, 0)
            result, rest = t[:end], t[end:]
        else:
            end = t.find(",")
            if end < 0:
                result, rest = t, ""
            else:
                result, rest = t[:end], t[end + 1:]
        variants = re.findall(r"RuntimeError::([A-Za-z0-9_]+)", pattern)
        if not variants and pattern.strip() not in ("", ","):
            raise Anchor(f"arm pattern without RuntimeError variants (wildcard?): {pattern.strip()[:60]}")
        is_head = "SchedulerFaultScope::Head" in result
        is_rt = "SchedulerFaultScope::Runtime" in result
        if is_head == is_rt:
            raise Anchor(f"arm result is neither Head nor Runtime: {result.strip()[:60]}")
        for v in variants:
            if v in scope:
                raise Anchor(f"variant {v} matched twice")
            scope[v] = is_head
        pattern = rest
    for v in LEAN_NAMES:
        if v not in scope:
            raise Anchor(f"RuntimeError::{v} has no arm in scheduler_fault_scope_for_error")
    out = HEADER.format(src=rel)
    out += "import EchoVerif.Model.Pass\nnamespace EchoVerif.Generated\nopen EchoVerif.Pass\n"
    out += "/-- `scheduler_fault_scope_for_error` as written in the Rust source: `true` = `SchedulerFaultScope::Head(head_key)`. -/\n"
    out += "def faultScopeIsHead : ErrKind → Bool\n"
    for v, c in LEAN_NAMES.items():
        out += f"  | .{c} => {'true' if scope[v] else 'false'}\n"
    heads = sorted(v for v in scope if scope[v])
    out += "/-- every `RuntimeError` variant answered with a head-scoped fault -/\n"
    out += "def faultScopeHeadVariants : List String := [" + ", ".join(f'"{v}"' for v in heads) + "]\n"
    out += f"def faultScopeRuntimeVariantCount : Nat := {sum(1 for v in scope if not scope[v])}\n"
    out += "end EchoVerif.Generated\n"
    return out
