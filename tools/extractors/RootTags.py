"""Generated/RootTags.lean — literal bytes of the state-root stream (C06): the domain prefix, the
presence / variant tag bytes of `hash_attachment_*` in snapshot.rs and snapshot_accum.rs, the
owner/plane tags of `AttachmentKey::tag`, and whether each of the two root computations starts its
stream with the domain prefix."""
from extract_lib import *


def _byte_lits(body, what, n):
    lits = re.findall(r"hasher\s*\.\s*update\s*\(\s*&\s*\[\s*(\d+)u8\s*\]\s*\)", body)
    if len(lits) != n:
        raise Anchor(f"{what}: expected {n} `hasher.update(&[Nu8])` literals, found {lits}")
    return [int(x) for x in lits]


def _arm_tags(body, what, names):
    """`Self::A => 1, Self::B => 2` style const fn."""
    out = {}
    for nm in names:
        m = re.search(r"Self::" + nm + r"(?:\s*\([^)]*\))?\s*=>\s*(\d+)", body)
        if not m:
            raise Anchor(f"{what}: arm {nm} not found")
        out[nm] = int(m.group(1))
    return out


def _impl_body(src, ty):
    m = re.search(r"impl\s+" + ty + r"\s*\{", src)
    if not m:
        raise Anchor(f"impl {ty} not found")
    e = balanced(src, m.end() - 1)
    return src[m.end():e - 1]


def _first_update_is_domain(body, what):
    ups = re.findall(r"hasher\s*\.\s*update\s*\(([^;]*?)\)\s*;", body)
    if not ups:
        raise Anchor(f"{what}: no hasher.update calls")
    return "STATE_ROOT_V1" in ups[0]


def generate(repo):
    dom = strip_comments(read(repo, "crates/warp-core/src/domain.rs"))
    m = re.search(r'STATE_ROOT_V1\s*:\s*&\[u8\]\s*=\s*b"((?:[^"\\]|\\.)*)"', dom)
    if not m:
        raise Anchor("domain::STATE_ROOT_V1 literal not found")
    raw = m.group(1)
    try:
        dom_bytes = list(raw.encode("ascii").decode("unicode_escape").encode("latin-1"))
    except Exception as e:
        raise Anchor(f"cannot decode STATE_ROOT_V1 literal: {e}")

    tags = {}
    for rel, pfx, opt_val in (("crates/warp-core/src/snapshot.rs", "s", "hash_attachment_value_opt"),
                              ("crates/warp-core/src/snapshot_accum.rs", "a", "hash_optional_attachment")):
        src = strip_comments(read(repo, rel))
        none_t, some_t = _byte_lits(fn_body(src, opt_val, opt_val), f"{rel}:{opt_val}", 2)
        # hash_attachment_value: Atom arm then Descend arm
        hv = fn_body(src, "hash_attachment_value", "hash_attachment_value")
        ia, idd = hv.find("AttachmentValue::Atom"), hv.find("AttachmentValue::Descend")
        if ia < 0 or idd < 0:
            raise Anchor(f"{rel}: hash_attachment_value arms not found")
        lits = [(mm.start(), int(mm.group(1))) for mm in
                re.finditer(r"hasher\s*\.\s*update\s*\(\s*&\s*\[\s*(\d+)u8\s*\]\s*\)", hv)]
        if len(lits) != 2:
            raise Anchor(f"{rel}: hash_attachment_value: expected 2 tag literals, found {lits}")
        lits.sort()
        atom_t, desc_t = (lits[0][1], lits[1][1]) if ia < idd else (lits[1][1], lits[0][1])
        tags[pfx] = dict(none=none_t, some=some_t, atom=atom_t, descend=desc_t)
    # parent key presence tags
    src = strip_comments(read(repo, "crates/warp-core/src/snapshot.rs"))
    k_none, k_some = _byte_lits(fn_body(src, "hash_attachment_key_opt", "hash_attachment_key_opt"),
                                "snapshot.rs:hash_attachment_key_opt", 2)
    s_dom = _first_update_is_domain(fn_body(src, "compute_state_root", "snapshot::compute_state_root"),
                                    "snapshot::compute_state_root")
    asrc = strip_comments(read(repo, "crates/warp-core/src/snapshot_accum.rs"))
    abody = fn_body(asrc, "compute_state_root", "SnapshotAccumulator::compute_state_root")
    a_dom = _first_update_is_domain(abody, "SnapshotAccumulator::compute_state_root")
    # accumulator parent-key presence: `Some => &[1u8]` first, `None => &[0u8]` second, before the node loop
    head = abody.split("for (key, parts)")[0]
    pk = _byte_lits(head, "snapshot_accum.rs: parent key presence", 2)
    ak_some, ak_none = pk[0], pk[1]

    att = strip_comments(read(repo, "crates/warp-core/src/attachment.rs"))
    plane = _arm_tags(fn_body(_impl_body(att, "AttachmentPlane"), "tag", "AttachmentPlane::tag"),
                      "AttachmentPlane::tag", ["Alpha", "Beta"])
    owner = _arm_tags(fn_body(_impl_body(att, "AttachmentOwner"), "tag", "AttachmentOwner::tag"),
                      "AttachmentOwner::tag", ["Node", "Edge"])

    out = HEADER.format(src="crates/warp-core/src/{domain,snapshot,snapshot_accum,attachment}.rs")
    out += "import EchoVerif.Model.Basic\nnamespace EchoVerif.Generated.RootTags\n"
    out += "/-- `domain::STATE_ROOT_V1`. -/\n"
    out += "def domainStateRoot : List UInt8 := [" + ", ".join(str(b) for b in dom_bytes) + "]\n"
    out += f"/-- does `snapshot::compute_state_root` hash the domain prefix first? -/\ndef storeHasDomain : Bool := {'true' if s_dom else 'false'}\n"
    out += f"/-- does `SnapshotAccumulator::compute_state_root` hash the domain prefix first? -/\ndef accumHasDomain : Bool := {'true' if a_dom else 'false'}\n"
    for pfx, nm in (("s", "store"), ("a", "accum")):
        t = tags[pfx]
        out += f"def {nm}AttNone : UInt8 := {t['none']}\ndef {nm}AttSome : UInt8 := {t['some']}\n"
        out += f"def {nm}AttAtom : UInt8 := {t['atom']}\ndef {nm}AttDescend : UInt8 := {t['descend']}\n"
    out += f"def storeKeyNone : UInt8 := {k_none}\ndef storeKeySome : UInt8 := {k_some}\n"
    out += f"def accumKeyNone : UInt8 := {ak_none}\ndef accumKeySome : UInt8 := {ak_some}\n"
    out += f"def ownerNode : UInt8 := {owner['Node']}\ndef ownerEdge : UInt8 := {owner['Edge']}\n"
    out += f"def planeAlpha : UInt8 := {plane['Alpha']}\ndef planeBeta : UInt8 := {plane['Beta']}\n"
    out += "end EchoVerif.Generated.RootTags\n"
    return out
