"""Generated/OpTable.lean — `WarpOp::sort_key` phase ranks (`kind:` literals) per variant (C04, C01, C02)."""
from extract_lib import *

VARIANTS = {"OpenPortal": "openPortal", "UpsertWarpInstance": "upsertInstance",
            "DeleteWarpInstance": "deleteInstance", "UpsertNode": "upsertNode",
            "DeleteNode": "deleteNode", "UpsertEdge": "upsertEdge", "DeleteEdge": "deleteEdge",
            "SetAttachment": "setAtt"}


def generate(repo):
    rel = "crates/warp-core/src/tick_patch.rs"
    src = strip_comments(read(repo, rel))
    variants = enum_variants(src, "WarpOp")
    if sorted(variants) != sorted(VARIANTS):
        raise Anchor(f"WarpOp variants changed: {variants}")
    body = fn_body(src, "sort_key", "WarpOp::sort_key")
    # split the match into arms `Self::Variant {…} => …` and read the `kind: N` literal of each
    arms = list(re.finditer(r"Self::([A-Za-z]+)\s*\{", body))
    if len(arms) != len(VARIANTS):
        raise Anchor(f"sort_key: expected {len(VARIANTS)} arms, found {len(arms)}")
    kinds = {}
    for i, m in enumerate(arms):
        end = arms[i + 1].start() if i + 1 < len(arms) else len(body)
        seg = body[m.end():end]
        k = re.findall(r"kind\s*:\s*(\d+)", seg)
        if len(k) != 1:
            raise Anchor(f"sort_key arm {m.group(1)}: expected one `kind:` literal, found {k}")
        kinds[m.group(1)] = int(k[0])
    out = HEADER.format(src=rel)
    out += "import EchoVerif.Model.Graph\nnamespace EchoVerif.Generated\nopen EchoVerif.Graph\n"
    out += "/-- phase rank (`WarpOpKey.kind`) of each `WarpOp` variant, as written in `sort_key`. -/\n"
    out += "def opKind : OpTag → Nat\n"
    for v in variants:
        out += f"  | .{VARIANTS[v]} => {kinds[v]}\n"
    out += "end EchoVerif.Generated\n"
    return out
