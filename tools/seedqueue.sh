#!/bin/bash
# tools/seedqueue.sh "<tag>:<checks…>" … — confirm each delivered seed, then run the named checks against it,
# then remove the seeder's scratch worktree (with its build output).  Sequential, to bound CPU/disk.
for item in "$@"; do
  tag="${item%%:*}"; checks="${item#*:}"; [ "$checks" = "$item" ] && checks=""
  echo "=== $tag confirm $(date +%T)"
  /verif/tools/seedconfirm.sh "$tag" 2>&1 | tail -4
  if [ -f "/verif/seeded/$tag/confirm.json" ]; then
    git -C /repo worktree remove --force "/tmp/seed-$tag" >/dev/null 2>&1; rm -rf "/tmp/seed-$tag"
    echo "=== $tag run $(date +%T)"
    /verif/tools/seedrun.sh "$tag" $checks 2>&1 | tail -8
  fi
done
echo "=== queue done $(date +%T)"
