#!/usr/bin/env python3
"""tools/mkstatus.py — regenerates the machine-written tables of DESIGN.md §9 (between the
<!-- STATUS:BEGIN --> / <!-- STATUS:END --> and <!-- SEEDED:BEGIN --> / <!-- SEEDED:END --> markers)
from Props/index/*.json, known-findings.json, evidence/*.json and seeded/*/."""
import glob
import json
import os
import re

ROOT = os.path.dirname(os.path.dirname(os.path.abspath(__file__)))


def status_table():
    kf = json.load(open(os.path.join(ROOT, "known-findings.json")))
    rows = ["| prop | claimed | theorems (full/partial) | extracted tables | streams | quick cases (non-trivial) | known findings | fixes |",
            "|---|---|---|---|---|---|---|---|"]
    for f in sorted(glob.glob(os.path.join(ROOT, "lean/EchoVerif/Props/index/C*.json"))):
        pid = os.path.basename(f)[:-5]
        c = json.load(open(f))
        th = c["theorems"]
        full = len([t for t in th if t.get("strength", "full") == "full"])
        ev = {}
        ep = os.path.join(ROOT, "evidence", pid + ".json")
        if os.path.exists(ep):
            ev = json.load(open(ep)).get("coverage", {})
        nf = [x["id"] for x in kf["findings"] if x["property"] == pid]
        fx = [x for x in kf["fixed"] if f"property={pid} " in x]
        fxc = sorted({m.group(1) for x in fx for m in [re.search(r"property=\S+ (\S+)", x)] if m})
        rows.append(f"| {pid} | {'no: ' + c['unclaimed'][:40] if c.get('unclaimed') else 'yes'} | {full}/{len(th) - full} | "
                    f"{', '.join(c.get('extract', [])) or '—'} | {', '.join(c.get('streams', []))} | "
                    f"{ev.get('evaluations', '—')} ({ev.get('distinct_nontrivial', '—')}) | {', '.join(nf) or '—'} | {', '.join(fxc) or '—'} |")
    return "\n".join(rows)


def seeded_table():
    rows = ["| seed | property | what it breaks / what it needs | own check | other checks that also fire | confirmed (demo clean/patched, suite) |",
            "|---|---|---|---|---|---|"]
    for d in sorted(glob.glob(os.path.join(ROOT, "seeded", "*"))):
        tag = os.path.basename(d)
        try:
            meta = json.load(open(os.path.join(d, "meta.json")))
        except Exception:
            continue
        conf = {}
        if os.path.exists(os.path.join(d, "confirm.json")):
            conf = json.load(open(os.path.join(d, "confirm.json")))
        own, others = "not run", []
        for r in sorted(glob.glob(os.path.join(d, "results", "C*.txt"))):
            cid = os.path.basename(r)[:-4]
            txt = open(r).read()
            viol = [l for l in txt.split("\n") if l.startswith("VIOLATION")]
            if cid == meta.get("property"):
                if viol:
                    own = "CAUGHT" + (" (no-failing-input-found)" if all("no-failing-input-found" in v for v in viol) else " with failing input")
                else:
                    own = "MISSED" if "exit=0" in txt else "error"
            elif viol:
                others.append(cid)
        what = (str(meta.get("what_it_breaks", meta.get("title", "")))[:160] + " / needs: " + str(meta.get("needs_to_manifest", ""))[:160]).replace("|", "/").replace("\n", " ")
        cf = f"{conf.get('demo_without_change_rc', '?')}/{conf.get('demo_with_change_rc', '?')}, suite rc {conf.get('existing_suite_with_change_rc', '?')}" if conf else "—"
        hist = ""
        hp = os.path.join(d, "history.txt")
        if os.path.exists(hp):
            hist = " — _history:_ " + " ".join(open(hp).read().split()).replace("|", "/")
        rows.append(f"| {tag} | {meta.get('property')} | {what} | {own}{hist} | {', '.join(others) or '—'} | {cf} |")
    return "\n".join(rows)


def theorems_list():
    out = []
    for f in sorted(glob.glob(os.path.join(ROOT, "lean/EchoVerif/Props/index/C*.json"))):
        pid = os.path.basename(f)[:-5]
        c = json.load(open(f))
        out.append(f"**{pid}** — {c['manifest']['technique']}")
        for t in c["theorems"]:
            says = " ".join(str(t.get("says", "")).split())
            if len(says) > 230:
                says = says[:227] + "…"
            out.append(f"* `{t['name']}` ({t.get('strength', 'full')}): {says}")
        ass = c.get("assumptions", [])
        if ass:
            out.append("* _assumptions / not modelled:_ " + " ‖ ".join(" ".join(a.split())[:200] for a in ass))
        out.append("")
    return "\n".join(out)


def main():
    p = os.path.join(ROOT, "DESIGN.md")
    s = open(p).read()
    for name, fn in (("STATUS", status_table), ("SEEDED", seeded_table), ("THEOREMS", theorems_list)):
        b, e = f"<!-- {name}:BEGIN -->", f"<!-- {name}:END -->"
        if b in s and e in s:
            s = s[:s.index(b) + len(b)] + "\n" + fn() + "\n" + s[s.index(e):]
    open(p, "w").write(s)
    print("DESIGN.md tables regenerated")


if __name__ == "__main__":
    main()
