#!/usr/bin/env python3
"""tools/seeder_prompt.py <Cxx> <tag> [flavour] — prints the prompt handed to an independent
sub-agent that is asked to break property Cxx in its own scratch worktree /tmp/seed-<tag>.
The prompt contains ONLY the property text (statement, quantifier, anchors) — nothing from /verif.
The caller creates the worktree first:  git -C /repo worktree add --detach /tmp/seed-<tag> HEAD
"""
import json
import sys

FLAVOURS = {
    "a": "Prefer a change that needs an unusual input or a multi-step sequence of operations to manifest.",
    "b": "Prefer a change made of two cooperating edits at different sites that each look harmless alone, or one that only manifests at a size/threshold/boundary the tests never reach.",
    "c": "Prefer a change that needs a fault, crash, failure or rollback at a particular point, a particular interleaving/schedule, or a rarely taken error path to manifest.",
}


def main():
    pid, tag = sys.argv[1], sys.argv[2]
    fl = FLAVOURS.get(sys.argv[3] if len(sys.argv) > 3 else "a", FLAVOURS["a"])
    prop = None
    for line in open("/verif/properties.jsonl"):
        p = json.loads(line)
        if p["id"] == pid:
            prop = p
    wt = f"/tmp/seed-{tag}"
    out = f"/tmp/seed-{tag}-out"
    anchors = prop.get("anchors", {})
    print(f"""You are helping to evaluate a verification effort by playing the adversary. You work on the Rust workspace flyingrobots/echo ("Deterministic graph-rewriting simulation engine (WARP) with canonical scheduling, footprint-based parallel execution, hash-chained tick patches, replay, and session/wire codecs"). A scratch git worktree of it has been created for you at {wt} — work ONLY there (never touch /repo, never read or write anything under /verif, and do not look at other /tmp/seed-* or /tmp/sb-* directories). The sandbox is offline: every cargo command needs `--offline` (e.g. `cargo test -p warp-core --offline`); 16 cores and a small disk are shared with other jobs, so build only what you need while iterating and, BEFORE your first cargo command, `export CARGO_INCREMENTAL=0 CARGO_PROFILE_DEV_DEBUG=0 CARGO_PROFILE_TEST_DEBUG=0` in every shell you use (keeps the build directory several times smaller). NEVER use `git stash` (the stash is shared between all worktrees of the repository and other people are working in sibling worktrees): to switch between 'with change' and 'without change' use `git diff > /tmp/seed-{tag}-change.diff`, `git apply -R /tmp/seed-{tag}-change.diff`, `git apply /tmp/seed-{tag}-change.diff`.

The semantic property under attack:

TITLE: {prop.get('title','')}
STATEMENT: {prop['statement']}
QUANTIFIED OVER: {prop.get('quantifier',{}).get('text','')}
WHY THE TEST SUITE CANNOT SETTLE IT: {prop.get('why_tests_cant','')}
ANCHOR FILES: {', '.join(anchors.get('files', []))}

Your task: produce ONE realistic change to the production source of flyingrobots/echo (the kind of regression a well-meaning refactor, optimisation or "simplification" could introduce — not sabotage that is obvious on reading, not a change to tests, docs or build files) that BREAKS this property while the workspace still compiles and the existing test suite still passes unedited. {fl} It must NOT be something ordinary use would expose at once (a change that breaks every tick or every decode is useless — the existing tests would normally catch it, and it is not interesting). Do not place the change in the cargo feature `echo_verif` / files named echo_verif* (that is test instrumentation, not production code), and do not edit existing tests.

Required steps:
1. Read the anchored code, pick the change, apply it in {wt}.
2. Write a DEMONSTRATION: a new test file (e.g. {wt}/crates/<crate>/tests/seed_demo_{tag.lower()}.rs) or small program that exercises the real public API and FAILS with your change and PASSES without it. The demonstration must show the property itself being violated (a wrong result accepted, different outputs for inputs the property says must agree, a crash, …), not merely that some code differs.
3. Verify, and record the exact commands and outcomes:
   a. with the change: the workspace builds and the EXISTING suite passes: `cd {wt} && cargo nextest run --workspace --no-fail-fast --test-threads 8 --offline` (fallback `cargo test --workspace --no-fail-fast --offline`). Your new demo test is expected to be the only failure (or keep the demo out of the tree while running the suite). If an existing test fails because of your change, pick a different change. Known to fail on the UNCHANGED tree in this sandbox (ignore them): the 7 `echo-wesley-gen::generation::*` tests that spawn a nested cargo build (offline registry) and `warp-core::external_consumer_contract_fixture_tests inverse_intent_resolves_one_admitted_transition_after_restart`; 2389 tests pass on the unchanged tree.
   b. with the change: the demo fails; without the change (`git apply -R` of just the source edit): the demo passes.
4. Write your results to {out}/ (create it): `patch.diff` = `git diff` of the production-source change ONLY (no demo file in it; must apply with `git apply` on a clean checkout of the same commit); the demo file(s) copied alongside, plus `demo.sh` — a script taking the worktree path as $1 that installs the demo file into the tree and runs it (exit 0 = property holds / demo passes, non-zero = demo fails); and `meta.json` with keys: property ("{pid}"), title (one line), what_it_breaks, why_tests_pass, needs_to_manifest (the specific input / sequence / fault / interleaving / size needed), files_changed, commands_run (with outcomes, incl. test-suite totals).
5. Leave the worktree in place with your change applied and the demo file present (the evaluator will re-run your steps there), but do not commit anything.

Report back briefly: the change (2–4 sentences), what it needs to manifest, and the verification outcomes. If after serious effort (several candidate changes) you cannot find a change that passes the existing suite, say so and describe what you tried.""")


if __name__ == "__main__":
    main()
