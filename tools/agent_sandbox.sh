#!/bin/bash
# tools/agent_sandbox.sh <name> [--worktree]
# Creates a private build sandbox for a builder: /tmp/sb-<name>/{lean,harness,tools,bin,...} (copy of
# /verif incl. build caches) so that parallel builders never share lake/cargo build directories.
# With --worktree also creates a git worktree of /repo at /tmp/sb-<name>/repo and points the harness
# path-dependencies at it (for hooks / fixes under development).
set -e
name="$1"; sb="/tmp/sb-$name"
rm -rf "$sb"; mkdir -p "$sb"
rsync -a --exclude '.git' --exclude 'work' --exclude 'replays/*' /verif/ "$sb/verif/"
# absolute paths inside the copy
sed -i "s#/verif/harness/target#$sb/verif/harness/target#" "$sb/verif/harness/.cargo/config.toml"
sed -i "s#/verif/harness-rel/target#$sb/verif/harness-rel/target#" "$sb/verif/harness-rel/.cargo/config.toml"
if [ "$2" = "--worktree" ]; then
  git -C /repo worktree add -f --detach "$sb/repo" HEAD >/dev/null 2>&1
  sed -i "s#/repo/crates#$sb/repo/crates#g" "$sb/verif/harness/Cargo.toml" "$sb/verif/harness-rel/Cargo.toml"
  echo "worktree: $sb/repo   (export VERIF_REPO=$sb/repo before bin/check so extract.py reads it)"
fi
echo "sandbox: $sb/verif   (run: cd $sb/verif && bin/check Cxx quick)"
