#!/usr/bin/env python3
"""Regenerates MANIFEST.json from lean/EchoVerif/Props/index.json (single source of truth)."""
import json, os
ROOT = os.path.dirname(os.path.dirname(os.path.abspath(__file__)))
idir = os.path.join(ROOT, "lean/EchoVerif/Props/index")
idx = {f[:-5]: json.load(open(os.path.join(idir, f))) for f in sorted(os.listdir(idir)) if f.endswith(".json")}
props = [json.loads(l) for l in open(os.path.join(ROOT, "properties.jsonl"))]
hooks = json.load(open(os.path.join(ROOT, "tools/hooks.json")))
checks, na = [], []
for p in props:
    pid = p["id"]
    c = idx.get(pid)
    if c is None or c.get("unclaimed"):
        na.append({"property_id": pid, "reason": (c or {}).get("unclaimed", "not yet claimed: model and check under construction (see DESIGN.md §8 build order)")})
        continue
    m = c["manifest"]
    checks.append({
        "property_id": pid,
        "quick_cmd": f"./bin/check {pid} quick",
        "thorough_cmd": f"./bin/check {pid} thorough",
        "evidence_file": f"evidence/{pid}.json",
        "replay_cmd_template": f"./bin/check {pid} --replay {{path}}",
        "engine": "lean4-proof+correspondence",
        "level_claimed": {"category": c.get("level", "proof"), "text": m["level_text"], "design_ref": m.get("design_ref", f"DESIGN.md §6 {pid}")},
        "level_note": m["level_note"],
        "technique": m["technique"],
    })
man = {
    "version": 1,
    "setup_cmd": "./bin/setup",
    "hooks": hooks,
    "engines": [{
        "name": "lean4-proof+correspondence",
        "path": "bin/check",
        "serves_properties": [c["property_id"] for c in checks],
        "kind_free_text": "Lean 4 theorems over hand-written executable models (lean/EchoVerif), tied to /repo on every run by (a) tools/extract.py regenerating finite tables from the Rust source into the theorems' hypotheses and (b) a differential correspondence run: Rust harness drives the real code, compiled Lean model driver runs the same case lines, outputs (incl. hash pre-images evaluated with real BLAKE3) are diffed; plus a direct property oracle on the real code used as the failing-input search.",
    }],
    "checks": checks,
    "not_applicable": na,
    "notes": "All checks: exit 0 / exit 1 + 'VIOLATION property=<id> replay=<path>[ no-failing-input-found]'; KNOWN-FINDING lines come from known-findings.json (never written at run time). VERIF_SEED and VERIF_TIER are honoured.",
}
json.dump(man, open(os.path.join(ROOT, "MANIFEST.json"), "w"), indent=1)
print("MANIFEST.json:", len(checks), "checks,", len(na), "not_applicable")
