#!/bin/bash
# tools/integrate.sh Cxx — copy a builder's additive delivery from incoming/Cxx into the tree.
set -e
id="$1"; src="/verif/incoming/$id"
for d in lean harness tools corpus; do
  [ -d "$src/$d" ] && rsync -a "$src/$d/" "/verif/$d/"
done
mkdir -p /verif/docs/notes && [ -f "$src/NOTES.md" ] && cp "$src/NOTES.md" "/verif/docs/notes/$id.md"
ls "$src/repo-patches" "$src/shared-patches" 2>/dev/null || true
[ -f "$src/Cargo.add.txt" ] && { echo "--- Cargo.add.txt:"; cat "$src/Cargo.add.txt"; }
[ -f "$src/known-findings.add.json" ] && { echo "--- known-findings.add.json:"; cat "$src/known-findings.add.json"; }
python3 /verif/tools/mkmain.py; python3 /verif/tools/mkmanifest.py
