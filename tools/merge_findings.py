#!/usr/bin/env python3
"""Merges incoming/*/known-findings.add.json into known-findings.json (idempotent; development-time tool,
never run by a check)."""
import json, os, glob, subprocess
ROOT = os.path.dirname(os.path.dirname(os.path.abspath(__file__)))
kf = json.load(open(os.path.join(ROOT, "known-findings.json")))
have = {f["id"] for f in kf["findings"]}
log = subprocess.check_output(["git", "-C", "/repo", "log", "--format=%h %s"]).decode().split("\n")
fixes = [l for l in log if " fix:" in l or l.split(" ", 1)[-1].startswith("fix:")]
for p in sorted(glob.glob(os.path.join(ROOT, "incoming", "*", "known-findings.add.json"))):
    d = json.load(open(p))
    for f in d.get("findings", []):
        if f["id"] not in have:
            kf["findings"].append(f); have.add(f["id"])
    for f in d.get("fixed", []):
        if isinstance(f, str):
            if f not in kf["fixed"] and not any(f.split(" ")[1] in x and f[-40:] in x for x in kf["fixed"]):
                kf["fixed"].append(f)
            continue
        prop = f.get("property", "?")
        key = f.get("key", f.get("id", ""))
        if any(isinstance(x, str) and key in x for x in kf["fixed"]):
            continue
        what = f.get("what_fails") or f.get("what_failed") or f.get("what") or ""
        kf["fixed"].append(f"fixed: property={prop} <commit:see-git-log-fix> {what} ; finding key {key}")
json.dump(kf, open(os.path.join(ROOT, "known-findings.json"), "w"), indent=1)
print(len(kf["findings"]), "findings;", len(kf["fixed"]), "fixed")
print("\n".join(fixes))
