#!/bin/bash
# tools/seedconfirm.sh <tag> [--skip-suite]
# Independently confirms a seeded change delivered in /tmp/seed-<tag>-out against the seeder's scratch
# worktree /tmp/seed-<tag> (kept for its warm build): (1) clean tree: demo passes; (2) patch applied:
# demo fails; (3) patch applied, demo removed: the existing suite passes.  On success copies the delivery
# to /verif/seeded/<tag>/ and writes confirm.json there.  Never touches /repo's working tree.
set -u
tag="$1"; wt="/tmp/seed-$tag"; out="/tmp/seed-$tag-out"; skip="${2:-}"
[ -f "$out/patch.diff" ] && [ -f "$out/demo.sh" ] && [ -f "$out/meta.json" ] || { echo "incomplete delivery in $out"; exit 2; }
cd "$wt" || exit 2
export CARGO_NET_OFFLINE=true
# match the seeder's build settings so its warm build directory is reused
if [ -z "$(ls -A "$wt/target/debug/incremental" 2>/dev/null)" ]; then export CARGO_INCREMENTAL=0 CARGO_PROFILE_DEV_DEBUG=0 CARGO_PROFILE_TEST_DEBUG=0; fi
log="$out/confirm.log"; : > "$log"
git checkout -- . ; git clean -fdq -e target
bash "$out/demo.sh" "$wt" >> "$log" 2>&1; clean_rc=$?
git checkout -- . ; git clean -fdq -e target
git apply "$out/patch.diff" || { echo "patch does not apply to HEAD"; exit 2; }
bash "$out/demo.sh" "$wt" >> "$log" 2>&1; patched_rc=$?
git clean -fdq -e target          # remove demo files, keep the patch
suite_rc=-1; suite_tail=""
if [ "$skip" = "--reuse-suite" ] && grep -q "tests run" "$out/suite.log" 2>/dev/null; then reuse=1; else reuse=0; fi
if [ "$skip" != "--skip-suite" ]; then
  [ $reuse -eq 1 ] || cargo nextest run --workspace --no-fail-fast --test-threads 8 --offline > "$out/suite.log" 2>&1; suite_rc=$?
  suite_tail=$(grep -E "Summary|tests run" "$out/suite.log" | tail -2 | tr '\n' ' ')
  # failures that are NOT in the baseline's own always_fail / flaky / dropped-offline lists
  new_fail=$(python3 - "$out/suite.log" <<'P'
import json,re,sys
b=json.load(open('/root/.vp/BASELINE.json'))
allowed=set(b.get('always_fail',[]))|set(b.get('flaky',[]))|set(b.get('dropped_after_offline',[]))
bad=set()
for l in open(sys.argv[1],errors='replace'):
    m=re.match(r'\s*(?:FAIL|SIGABRT|SIGSEGV|TIMEOUT|ABORT)\s+\[[^\]]*\]\s+(?:\(\s*\d+/\d+\)\s+)?(\S+)\s+(\S+)',re.sub(r'\x1b\[[0-9;]*m','',l))
    if m:
        n=m.group(1)+'::'+m.group(2)
        if n not in allowed: bad.add(n)
print(' '.join(sorted(bad)))
P
)
  [ -z "$new_fail" ] && grep -q "tests run" "$out/suite.log" && suite_rc=0
  [ -n "$new_fail" ] && echo "suite failures outside the baseline's known-failing lists: $new_fail"
fi
git checkout -- . ; git clean -fdq -e target
echo "tag=$tag demo_clean_rc=$clean_rc demo_patched_rc=$patched_rc suite_rc=$suite_rc $suite_tail"
ok=0
[ "$clean_rc" -eq 0 ] && [ "$patched_rc" -ne 0 ] && { [ "$suite_rc" -eq 0 ] || [ "$skip" = "--skip-suite" ]; } && ok=1
if [ $ok -eq 1 ]; then
  mkdir -p "/verif/seeded/$tag"
  rsync -a --exclude suite.log --exclude confirm.log "$out/" "/verif/seeded/$tag/"
  python3 - "$tag" "$clean_rc" "$patched_rc" "$suite_rc" "$suite_tail" <<'E'
import json,sys
tag,c,p,s,t=sys.argv[1:6]
json.dump({"confirmed_by":"tools/seedconfirm.sh (evaluator's own run in the scratch worktree)","demo_without_change_rc":int(c),
 "demo_with_change_rc":int(p),"existing_suite_with_change_rc":int(s),"suite_summary":t,
 "commands":["bash demo.sh <worktree> (clean tree)","git apply patch.diff && bash demo.sh <worktree>",
 "cargo nextest run --workspace --no-fail-fast --test-threads 8 --offline (patch applied, demo removed)"]},
 open(f"/verif/seeded/{tag}/confirm.json","w"),indent=1)
E
  echo "CONFIRMED -> /verif/seeded/$tag"
else
  echo "NOT CONFIRMED (see $log, $out/suite.log)"; exit 1
fi
